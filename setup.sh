#!/bin/sh
# MANIFEST.setup_cmd: build the framework from files on disk only (offline).
set -e
cd "$(dirname "$0")"
export CARGO_NET_OFFLINE=true
mkdir -p .cache evidence replays
python3 -m vlib.extract
(cd lean && lake build GoldModel driver)
cp /repo/Cargo.lock harness/Cargo.lock
(cd harness && cargo build --release --offline)
CARGO_TARGET_DIR=/verif/.cache/repo-target RUSTFLAGS="--cfg gold_lsp_verif -Awarnings" \
  cargo build --release --offline --manifest-path /repo/Cargo.toml
echo setup-ok
