#!/bin/sh
# MANIFEST.setup_cmd: build the framework from files on disk only (offline).
set -e
cd "$(dirname "$0")"
export CARGO_NET_OFFLINE=true
mkdir -p .cache evidence replays
python3 -m vlib.genreg
python3 -m vlib.extract
(cd lean && lake build GoldModel driver)
cp "${VERIF_REPO:-/repo}/Cargo.lock" harness/Cargo.lock
ln -sfn "${VERIF_REPO:-/repo}/src" harness/reposrc
(cd harness && cargo build --release --offline)
CARGO_TARGET_DIR="$PWD/.cache/repo-target" RUSTFLAGS="--cfg gold_lsp_verif -Awarnings" \
  cargo build --release --offline --manifest-path "${VERIF_REPO:-/repo}/Cargo.toml"
echo setup-ok
