"""Shared machinery of the checks (see DESIGN.md §2.5).

A check is `run(ctx)` in vlib/props/<id>.py.  It uses the helpers below in the order
  extract -> lake build (theorems) -> audit -> harness build -> correspondence + oracle
and finishes with ctx.finish(), which prints the verdict lines, writes the evidence file
and returns the exit status.  Nothing here decides a property: theorems are checked by
the Lean kernel (lake build + leanchecker), the rest ties the model to /repo.
"""
import fcntl
import hashlib
import json
import os
import re
import subprocess
import sys
import time

VERIF = os.path.dirname(os.path.dirname(os.path.abspath(__file__)))
REPO = os.environ.get("VERIF_REPO", "/repo")   # only scratch work overrides this; registered checks use /repo
LEAN = os.path.join(VERIF, "lean")
CACHE = os.path.join(VERIF, ".cache")
HARNESS_DIR = os.path.join(VERIF, "harness")
HARNESS_BIN = os.path.join(CACHE, "harness-target", "release", "gold-verif-harness")
DRIVER_BIN = os.path.join(LEAN, ".lake", "build", "bin", "driver")
REPO_TARGET = os.path.join(CACHE, "repo-target")
REPO_BIN = os.path.join(REPO_TARGET, "release", "gold-lang-lsp")
ALLOWED_AXIOMS = {"propext", "Classical.choice", "Quot.sound"}
FORBIDDEN = re.compile(r"\b(sorry|admit|native_decide|bv_decide|implemented_by|unsafe|maxHeartbeats\s+0)\b|^\s*axiom\s", re.M)

OFFLINE_ENV = {"CARGO_NET_OFFLINE": "true", "GOPROXY": "off", "PIP_NO_INDEX": "1"}


class Lock:
    """serialises lake / cargo builds between concurrently running checks"""

    def __init__(self, name):
        os.makedirs(CACHE, exist_ok=True)
        self.path = os.path.join(CACHE, name + ".lock")

    def __enter__(self):
        self.f = open(self.path, "w")
        fcntl.flock(self.f, fcntl.LOCK_EX)
        return self

    def __exit__(self, *a):
        fcntl.flock(self.f, fcntl.LOCK_UN)
        self.f.close()


def sh(cmd, cwd=None, env=None, timeout=None, input=None):
    e = dict(os.environ)
    e.update(OFFLINE_ENV)
    if env:
        e.update(env)
    p = subprocess.run(cmd, cwd=cwd, env=e, timeout=timeout, input=input,
                       stdout=subprocess.PIPE, stderr=subprocess.STDOUT, text=True)
    return p.returncode, p.stdout


class Rng:
    """one PRNG state per run (splitmix64); every random choice of a check comes from it"""

    def __init__(self, seed):
        # the state is a HASH of the seed: with `seed * G + c` the streams of seeds n and n+1 are the same stream
        # shifted by one draw (the step is G), so that a sweep over seeds explored almost nothing new
        import hashlib
        self.s = int.from_bytes(hashlib.sha256(b"gold-verif-seed-%d" % int(seed)).digest()[:8], "big")

    def next(self):
        self.s = (self.s + 0x9E3779B97F4A7C15) & 0xFFFFFFFFFFFFFFFF
        z = self.s
        z = ((z ^ (z >> 30)) * 0xBF58476D1CE4E5B9) & 0xFFFFFFFFFFFFFFFF
        z = ((z ^ (z >> 27)) * 0x94D049BB133111EB) & 0xFFFFFFFFFFFFFFFF
        return z ^ (z >> 31)

    def below(self, n):
        return self.next() % n if n > 0 else 0

    def choice(self, l):
        return l[self.below(len(l))]

    def chance(self, num, den):
        return self.below(den) < num

    def shuffle(self, l):
        for i in range(len(l) - 1, 0, -1):
            j = self.below(i + 1)
            l[i], l[j] = l[j], l[i]
        return l


def esc(s):
    o = []
    for c in s:
        if (c.isascii() and c.isalnum()) or c in "_.-":
            o.append(c)
        else:
            o.append("%%{%x}" % ord(c))
    return "".join(o)


def unesc(s):
    return re.sub(r"%\{([0-9a-fA-F]*)\}", lambda m: chr(int(m.group(1) or "0", 16)), s)


class Ctx:
    def __init__(self, prop, tier, seed, replay=None):
        self.prop = prop
        self.tier = tier
        self.seed = seed
        self.replay = replay
        self.rng = Rng(seed)
        self.t0 = time.time()
        self.obligations = []      # (name, ok, detail)
        self.checker_cmds = []
        self.oracle_failures = []  # (signature, what, case)
        self.disagreements = []    # (mode, case, impl, model)
        self.coverage = {}
        self.samples = []
        self.assumptions = []
        self.trusted = []
        self.notes = []
        self.harness_reduced = False
        self.evaluations = 0
        self.distinct = set()
        self.dist = {}
        self.phases = {}
        self.rundir = os.path.join(CACHE, "run", "%s-%d" % (prop, os.getpid()))
        os.makedirs(self.rundir, exist_ok=True)
        os.makedirs(os.path.join(VERIF, "evidence"), exist_ok=True)
        os.makedirs(os.path.join(VERIF, "replays", prop), exist_ok=True)

    # ----- bookkeeping -------------------------------------------------------------
    def oblige(self, name, ok, detail=""):
        self.obligations.append((name, bool(ok), detail))
        if not ok:
            self.log("obligation FAILED: %s %s" % (name, detail[:2000]))
        return ok

    def phase(self, name):
        now = time.time()
        if getattr(self, "_phase", None):
            self.phases[self._phase[0]] = round(now - self._phase[1], 1)
        self._phase = (name, now)

    def log(self, msg):
        print("[%s %6.1fs] %s" % (self.prop, time.time() - self.t0, msg), flush=True)

    def count(self, key, n=1):
        self.dist[key] = self.dist.get(key, 0) + n

    def broken(self):
        return [o for o in self.obligations if not o[1]]

    # ----- tie 1: translator ---------------------------------------------------------
    def extract(self, items):
        """regenerate lean/GoldModel/Gen/*.lean from /repo/src; `items` = the E-items this
        property consumes (each becomes an obligation)."""
        self.ensure_generated()
        res = self._extract_result
        for it in items:
            ok, detail = res.get(it, (False, "unknown item"))
            self.oblige("tie:extract:" + it, ok, detail)
        self.extract_info = {k: v[1] for k, v in res.items() if k in items}
        return all(res.get(it, (False,))[0] for it in items)

    # ----- theorems ------------------------------------------------------------------
    def ensure_generated(self):
        """registries and generated tables exist and are current (they are not tracked in git)"""
        if getattr(self, "_generated", False):
            return
        from . import genreg, extract
        with Lock("lake"):
            genreg.main()
            self._extract_result = extract.run_all(REPO, os.path.join(LEAN, "GoldModel", "Gen"))
        self._generated = True

    def lake_build(self, targets):
        from . import genreg
        self.ensure_generated()
        with Lock("lake"):
            genreg.main()
            cmd = ["lake", "build"] + targets
            rc, out = sh(cmd, cwd=LEAN, timeout=3600)
        self.checker_cmds.append("cd lean && " + " ".join(cmd))
        return rc == 0, out

    def prove(self, module, extra_targets=("driver",)):
        """build the property module (kernel-checks every theorem in it) and the driver;
        then list its theorems with their axioms, audit the sources, re-check with leanchecker."""
        self.phase("lake-build")
        ok, out = self.lake_build([module] + list(extra_targets))
        errs = [l for l in out.splitlines() if l.startswith("error")]
        if not ok:
            # find which theorems fail: best effort from the error lines
            self.oblige("thm:build:" + module, False, "\n".join(errs[:20]) or out[-3000:])
            self.lean_out = out
            return False
        self.oblige("thm:build:" + module, True)
        self.phase("audit-axioms")
        thms = self.audit_axioms(module)
        self.audit_sources()
        self.phase("leanchecker")
        self.leancheck(module)
        self.phase("tie")
        return not self.broken()

    def audit_axioms(self, module):
        src = os.path.join(self.rundir, "Audit.lean")
        with open(src, "w") as f:
            f.write("import Lean\nimport %s\nopen Lean Elab Command\n" % module)
            f.write("run_cmd do\n  let env ← getEnv\n"
                    "  let some idx := env.getModuleIdx? `%s | throwError \"no module\"\n" % module +
                    "  for (n, ci) in env.constants.map₁.toList do\n"
                    "    if env.getModuleIdxFor? n == some idx then\n"
                    "      match ci with\n"
                    "      | .thmInfo _ =>\n"
                    "        if !n.isInternal then\n"
                    "          let axs ← Lean.collectAxioms n\n"
                    "          logInfo m!\"THM {n} AXIOMS {axs.toList}\"\n"
                    "      | _ => pure ()\n")
        cmd = ["lake", "env", "lean", src]
        rc, out = sh(cmd, cwd=LEAN, timeout=1800)
        self.checker_cmds.append("cd lean && lake env lean <generated #print-axioms listing of %s>" % module)
        thms = []
        for m in re.finditer(r"THM (\S+) AXIOMS \[(.*?)\]", out, re.S):
            name = m.group(1)
            axs = [a.strip() for a in m.group(2).replace("\n", " ").split(",") if a.strip()]
            thms.append((name, axs))
        if rc != 0 or not thms:
            self.oblige("audit:axioms:" + module, False, out[-2000:])
            return []
        thms = [(n, a) for n, a in thms if not re.search(r"\.(eq_\d+|eq_def|match_\d+\S*|proof_\d+|injEq|sizeOf_spec|noConfusion\S*)$", n)]
        for name, axs in sorted(thms):
            bad = [a for a in axs if a not in ALLOWED_AXIOMS]
            self.oblige("thm:" + name, not bad, "axioms: " + ",".join(axs))
        self.theorems = sorted(thms)
        return thms

    def audit_sources(self):
        bad = []
        for root, _, files in os.walk(os.path.join(LEAN, "GoldModel")):
            for fn in files:
                if not fn.endswith(".lean"):
                    continue
                p = os.path.join(root, fn)
                txt = open(p).read()
                # drop block comments (incl. doc comments) and line comments
                txt = re.sub(r"/-.*?-/", lambda m: "\n" * m.group(0).count("\n"), txt, flags=re.S)
                txt = re.sub(r"--.*", "", txt)
                for m in FORBIDDEN.finditer(txt):
                    bad.append("%s:%d:%s" % (os.path.relpath(p, LEAN), txt.count("\n", 0, m.start()) + 1, m.group(0).strip()))
        self.oblige("audit:sources(no sorry/admit/axiom/native_decide/bv_decide/implemented_by/unsafe/maxHeartbeats 0)",
                    not bad, "; ".join(bad[:10]))

    def leancheck(self, module):
        cmd = ["lake", "env", "leanchecker"] + (["--fresh"] if self.tier == "thorough" else []) + [module]
        rc, out = sh(cmd, cwd=LEAN, timeout=3600)
        self.checker_cmds.append("cd lean && " + " ".join(cmd))
        self.oblige("audit:leanchecker:" + module, rc == 0, out[-1500:])

    # ----- tie 2: harness / driver -----------------------------------------------------
    def build_harness(self):
        from . import genreg
        self.ensure_generated()
        with Lock("cargo-harness"):
            genreg.main()
            link = os.path.join(HARNESS_DIR, "reposrc")
            want = os.path.join(REPO, "src")
            if not os.path.islink(link) or os.readlink(link) != want:
                if os.path.lexists(link):
                    os.remove(link)
                os.symlink(want, link)
            lock_src = os.path.join(REPO, "Cargo.lock")
            lock_dst = os.path.join(HARNESS_DIR, "Cargo.lock")
            if os.path.exists(lock_src) and open(lock_src).read() != (open(lock_dst).read() if os.path.exists(lock_dst) else ""):
                open(lock_dst, "w").write(open(lock_src).read())
            rc, out = sh(["cargo", "build", "--release", "--offline"], cwd=HARNESS_DIR, timeout=3600)
            if rc != 0:
                # the modes that implement a trait of the code under test may be what no longer compiles: build without them
                # (their modes then answer `bad-mode`, which breaks the correspondences of the one check that uses them)
                rc2, out2 = sh(["cargo", "build", "--release", "--offline", "--no-default-features"], cwd=HARNESS_DIR, timeout=3600)
                if rc2 == 0:
                    self.harness_reduced = True
                    self.notes.append("harness built WITHOUT its own implementations of the parser-context trait (they no longer compile against /repo/src): "
                                      + out[-600:])
                    rc = 0
        ok = rc == 0
        self.oblige("tie:harness-builds-from-/repo/src", ok, out[-3000:] if not ok else "")
        return ok

    def build_repo_bin(self):
        with Lock("cargo-repo"):
            rc, out = sh(["cargo", "build", "--release", "--offline", "--manifest-path", os.path.join(REPO, "Cargo.toml")],
                         cwd=REPO, timeout=3600,
                         env={"CARGO_TARGET_DIR": REPO_TARGET, "RUSTFLAGS": "--cfg gold_lsp_verif -Awarnings"})
        ok = rc == 0
        self.oblige("tie:binary-builds-from-/repo", ok, out[-3000:] if not ok else "")
        return ok

    def _run_lines(self, argv, lines, shards, timeout):
        """one output line per input line, sharded over processes.  A process that dies or hangs is
        restarted after the line it died on (found by re-running that line alone), so that a crash or an
        endless loop is pinned to ONE input: that line gets `<no-output …>`, the others their real output."""
        if not lines:
            return []
        n = max(1, min(shards, len(lines) // 2000 + 1))
        size = (len(lines) + n - 1) // n
        chunks = [lines[i * size:(i + 1) * size] for i in range(n)]
        chunks = [c for c in chunks if c]
        import threading
        results = [None] * len(chunks)

        def once(chunk, tmo):
            p = subprocess.Popen(argv, stdin=subprocess.PIPE, stdout=subprocess.PIPE, stderr=subprocess.PIPE, text=True)
            try:
                o, e = p.communicate("\n".join(chunk) + "\n", timeout=tmo)
                why = "rc=%s" % p.returncode
            except subprocess.TimeoutExpired:
                p.kill()
                o, e = p.communicate()
                why = "timeout %ss" % tmo
            ol = (o or "").split("\n")
            complete = ol[:-1]          # the last element is "" or a partial line
            return complete[:len(chunk)], (p.returncode == 0 and len(complete) >= len(chunk)), why

        def work(i, chunk):
            outs, start, restarts = [], 0, 0
            while start < len(chunk):
                o, ok, why = once(chunk[start:], timeout)
                outs += o
                start += len(o)
                if ok or start >= len(chunk):
                    break
                if o and o[-1] == "hang":
                    # the harness watchdog named the case and exited: go on after it
                    restarts += 1
                    if restarts > 4:
                        outs += ["<skipped after %d hangs of the shard>" % restarts] * (len(chunk) - start)
                        break
                    continue
                # died at or after chunk[start]: try that line alone
                o1, ok1, why1 = once(chunk[start:start + 1], min(timeout, 20))
                if ok1 and len(o1) == 1:
                    outs += o1
                else:
                    outs.append("<no-output %s>" % why1)
                start += 1
                restarts += 1
                if restarts > 6:
                    outs += ["<skipped after %d crashes of the shard>" % restarts] * (len(chunk) - start)
                    break
            results[i] = (outs + ["<no-output>"] * len(chunk))[:len(chunk)]

        ths = [threading.Thread(target=work, args=(i, c)) for i, c in enumerate(chunks)]
        for t in ths:
            t.start()
        for t in ths:
            t.join()
        outs = []
        for r in results:
            outs.extend(r)
        return outs

    def run_driver(self, lines, shards=16, timeout=900):
        return self._run_lines([DRIVER_BIN], lines, shards, timeout)

    def run_harness(self, mode, lines, shards=16, timeout=300):
        return self._run_lines([HARNESS_BIN, mode], lines, shards, timeout)

    # ----- comparison ------------------------------------------------------------------
    def compare(self, mode, cases, impl, model, nontrivial=None, sample_every=None):
        """correspondence: implementation output vs model output, case by case"""
        bad = 0
        for c, a, b in zip(cases, impl, model):
            self.evaluations += 1
            if nontrivial is None or nontrivial(c, a):
                self.distinct.add(hashlib.md5(a.encode()).digest())
            if a != b:
                bad += 1
                if len(self.disagreements) < 50:
                    self.disagreements.append((mode, c, a, b))
        self.oblige("tie:correspondence:%s (%d cases)" % (mode, len(cases)), bad == 0,
                    "%d disagreements; first: %s" % (bad, self.disagreements[0] if self.disagreements else ""))
        return bad == 0

    def oracle_fail(self, signature, what, case):
        self.oracle_failures.append((signature, what, case))

    # ----- verdict -----------------------------------------------------------------------
    def known_findings(self):
        p = os.path.join(VERIF, "known_findings.json")
        if not os.path.exists(p):
            return {}
        d = json.load(open(p))
        return {f["signature"]: f for f in d.get("findings", []) if f.get("property") == self.prop}

    def write_replay(self, name, obj):
        p = os.path.join(VERIF, "replays", self.prop, "%s-%s.json" % (name, self.tier))
        with open(p, "w", errors="surrogatepass") as f:      # file names that are not UTF-8 travel as surrogate escapes
            json.dump(obj, f, indent=1, ensure_ascii=False)
        return p

    def finish(self, level="proof", rule="", extra=None):
        known = self.known_findings()
        violations = 0
        seen_known = {}
        new_fail = {}
        for sig, what, case in self.oracle_failures:
            if sig in known:
                seen_known.setdefault(sig, (what, case))
            else:
                new_fail.setdefault(sig, []).append((what, case))
        for sig, (what, case) in sorted(seen_known.items()):
            print("KNOWN-FINDING: property=%s %s — %s" % (self.prop, sig, known[sig].get("what", what)))
        for sig, l in sorted(new_fail.items()):
            l.sort(key=lambda wc: len(json.dumps(wc[1])))   # smallest failing case is the replay
            what, case = l[0]
            path = self.write_replay("oracle-" + re.sub(r"[^A-Za-z0-9_.-]", "_", sig)[:60],
                                     {"property": self.prop, "kind": "implementation violates the property",
                                      "signature": sig, "what": what, "case": case,
                                      "more_cases": [c for _, c in l[1:10]], "count": len(l),
                                      "replay": "./check %s --replay <this file>" % self.prop})
            print("VIOLATION property=%s replay=%s" % (self.prop, path))
            violations += 1
        brk = self.broken()
        if brk and not new_fail:
            # a proof obligation or a tie no longer checks and the search found no failing input
            path = self.write_replay("unproved", {
                "property": self.prop,
                "kind": "obligation no longer checks; no failing input found by the search",
                "broken": [{"obligation": n, "detail": d} for n, _, d in brk],
                "disagreements": [{"mode": m, "case": c, "implementation": a, "model": b}
                                  for m, c, a, b in self.disagreements[:10]]})
            print("VIOLATION property=%s replay=%s no-failing-input-found" % (self.prop, path))
            violations += 1
        elif brk:
            self.log("also broken: " + "; ".join(n for n, _, _ in brk))
        self.phase(None)
        cov = {
            "phase_seconds": self.phases,
            "obligations": len(self.obligations),
            "discharged": len([o for o in self.obligations if o[1]]),
            "checker_cmd": " && ".join(dict.fromkeys(self.checker_cmds)) or "none run",
            "trusted_base": self.trusted,
            "obligation_list": [{"name": n, "ok": ok, **({"detail": d} if d and (not ok or n.startswith("thm:")) else {})}
                                for n, ok, d in self.obligations],
            "evaluations": self.evaluations,
            "distinct_nontrivial": len(self.distinct),
            "rule": rule,
            "samples": self.samples[:12] if self.samples else ["(no cases generated: proof obligations only)"],
            "input_distribution": self.dist,
            "model_disagreements": len(self.disagreements),
            "oracle_failures": len(self.oracle_failures),
            "known_findings_seen": sorted(seen_known),
        }
        if extra:
            cov.update(extra)
        ev = {
            "property_id": self.prop, "tier": self.tier, "seed": self.seed, "level": level,
            "coverage": cov, "assumptions": self.assumptions,
            "wall_s": round(time.time() - self.t0, 2), "violations": violations,
        }
        with open(os.path.join(VERIF, "evidence", self.prop + ".json"), "w") as f:
            json.dump(ev, f, indent=1, ensure_ascii=True)
        self.log("obligations %d/%d discharged, %d evaluations, %d distinct non-trivial, %d model disagreements, %d oracle failures (%d known) — %s"
                 % (cov["discharged"], cov["obligations"], self.evaluations, len(self.distinct),
                    len(self.disagreements), len(self.oracle_failures),
                    len([1 for s, _, _ in self.oracle_failures if s in known]),
                    "VIOLATION" if violations else "ok"))
        # scratch of this run
        try:
            import shutil
            shutil.rmtree(self.rundir, ignore_errors=True)
        except Exception:
            pass
        return 1 if violations else 0
