"""parser for the tree dumps `(kind ident l:c-l:c [@l:c-l:c] kids…)`"""
import re

from .core import unesc

TOK = re.compile(r"\(|\)|[^\s()]+")


class Node:
    __slots__ = ("kind", "ident", "rng", "sel", "kids")

    def __init__(self, kind, ident, rng, sel, kids):
        self.kind, self.ident, self.rng, self.sel, self.kids = kind, ident, rng, sel, kids

    def walk(self):
        yield self
        for k in self.kids:
            yield from k.walk()


def rng(s):
    a, b = s.split("-")
    l1, c1 = a.split(":")
    l2, c2 = b.split(":")
    return (int(l1), int(c1), int(l2), int(c2))


def parse(s):
    """`(root  0:0-0:0 …)` — note the root has an empty identifier"""
    toks = TOK.findall(re.sub(r"\((\S+)  ", r"(\1 %{0} ", s))   # an empty identifier leaves two blanks
    pos = 0

    def node():
        nonlocal pos
        assert toks[pos] == "("
        pos += 1
        kind = toks[pos]
        ident = unesc(toks[pos + 1])
        if ident == "\0":
            ident = ""
        r = rng(toks[pos + 2])
        pos += 3
        sel = None
        if pos < len(toks) and toks[pos].startswith("@"):
            sel = rng(toks[pos][1:])
            pos += 1
        kids = []
        while toks[pos] != ")":
            kids.append(node())
        pos += 1
        return Node(kind, ident, r, sel, kids)

    return node()


def field(line, name):
    m = re.search(r"(?:^| )%s=(.*?)(?= [A-Z]+=|$)" % name, line)
    return m.group(1) if m else None
