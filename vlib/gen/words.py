"""G-WORDS: random word lists for the PRINTER tie of the text-level round trip (lean/GoldModel/Props/C06Text.lean).

`lex_render` proves, on the model, that lexing `render ws` gives back exactly the tokens `expect 0 ws` (kinds, values,
offsets, line 0, columns, end columns) and no lexical error, for every list of valid words.  `render_tie` exercises the
very same printer against the REAL lexer: random word lists (every class of `Word.Valid`: keywords of the extracted table
in random letter case, identifiers, numbers, both quoted literals incl. non-ASCII contents, every one- and two-character
symbol of the extracted `read_symbol` / `read_double_char_op` tables, `#`, `#<digits>`) and the words of random abstract
expressions (`exspec.case`) are rendered by the Lean printer (driver mode `renderspec`, which also prints `expect 0 ws`),
the text is lexed by `GoldLexer::lex` (harness mode `lex`) and the tokens must be the expected ones, position by position.
A second pass prints the same kind of word lists with ARBITRARY layout (random non-empty runs of spaces, tabs, LF, CRLF and
lone CR between the words, random blanks before and behind; driver mode `layoutspec`, theorem `lex_render_layout`), so the
expected positions span several lines.  The tables are read from the generated `Gen/E2_Keywords.lean` / `Gen/E3_Symbols.lean`, so the soups follow the code."""
import os
import re

from .. import core
from . import exspec

SIG = "C06:lex-render"


def tables():
    """(keywords, one-char symbols, one-char fallbacks of double operators, two-char operators) of the generated tables"""
    gen = os.path.join(core.LEAN, "GoldModel", "Gen")
    kws = re.findall(r'^\s*\("([^"]*)", \.', open(os.path.join(gen, "E2_Keywords.lean")).read(), re.M)
    sym = open(os.path.join(gen, "E3_Symbols.lean")).read()
    ch = r"'((?:\\.|[^'\\]))'"
    sym1 = [c for c in re.findall(r"^\s*\(" + ch + r", \.tok ", sym, re.M)]
    op1, op2 = [], []
    for first, seconds in re.findall(r"^\s*\(" + ch + r", \[(.*?)\], \(", sym, re.M):
        op1.append(first)
        for second in re.findall(r"\(" + ch + r", ", seconds):
            op2.append(first + second)
    unq = lambda c: c[1:] if c.startswith("\\") else c
    return kws, [unq(c) for c in sym1], [unq(c) for c in op1], ["".join(unq(c) for c in re.findall(r"\\.|.", o)) for o in op2]


IDENTS = ["x", "Foo", "_a1", "endx", "iff", "class_", "ORd", "tO0", "I", "zz9_", "a", "b1", "_", "__", "x9y8", "procs"]
NUMBERS = ["0", "12", "3.14", "1e5", "7abc", "0x1F", "9..9", "42.", "007", "1.", "5x"]
BODY1 = ["a", "b c", " ", "", "\"", ";", "#", "é", "漢", "😀", "\t", "\r", "x=1", "--", "<<"]
BODY2 = ["a", "b c", " ", "", "'", "''", ";", "#", "é", "漢", "😀", "\t", "\r", "x=1", "&&"]
IDCH = "abcxyzABCXYZ_0123456789"


def word(r, tb):
    kws, sym1, op1, op2 = tb
    k = r.below(20)
    if k < 4:
        return "kw", "".join(c.upper() if r.chance(1, 2) else c.lower() for c in r.choice(kws))
    if k < 7:
        if r.chance(1, 3):
            return "ident", r.choice("abcXYZ_") + "".join(r.choice(IDCH) for _ in range(r.below(8)))
        return "ident", r.choice(IDENTS)
    if k < 9:
        if r.chance(1, 3):
            return "num", r.choice("0123456789") + "".join(r.choice("0123456789.eExX_"[:14]) for _ in range(r.below(6)))
        return "num", r.choice(NUMBERS)
    if k < 11:
        return "str1", "'" + "".join(r.choice(BODY1) for _ in range(r.below(5))) + "'"
    if k < 12:
        return "str2", '"' + "".join(r.choice(BODY2) for _ in range(r.below(5))) + '"'
    if k < 14:
        return "sym", r.choice(sym1)
    if k < 16:
        return "op1", r.choice(op1)
    if k < 19:
        return "op2", r.choice(op2)
    return ("pound", "#") if r.chance(1, 2) else ("charlit", "#" + "".join(r.choice("0123456789") for _ in range(1 + r.below(4))))


# spellings the printer must refuse (they are not words: the lexer would not give them back as one token)
NOT_WORDS = [";", ";c", "'a", "'a'b'", "'a\nb'", "\"a", "\"a\"b\"", "a b", "$", "<<=", "#1a", "a-b", "1 2", " ", "é"]


GAP0 = ["", "", " ", "\n", "  \t", "\r\n"]
GAPS = [" ", " ", "  ", "\n", " \n  ", "\t", "\r\n", "\r\n\t", "\n\n", " \r ", "\r", "\n\r\n "]
TAILS = ["", "", " ", "\n", "\r\n", " \t\n", "\r"]


def render_tie(ctx, n, depth=6):
    tb = tables()
    kws, sym1, op1, op2 = tb
    ctx.oblige("tie:render-tables-read", len(kws) > 50 and len(sym1) >= 10 and len(op1) >= 4 and len(op2) >= 8,
               "kws=%d sym1=%s op1=%s op2=%s" % (len(kws), sym1, op1, op2))
    lists, classes = [], {}
    # every single word of the finite classes, and every ordered pair of operator / punctuation words (adjacent one- and
    # two-character operators are only separated by the single space)
    ops = sym1 + op1 + op2 + ["#"]
    for o in ops + [k.lower() for k in kws] + [k.capitalize() for k in kws]:
        lists.append([o])
    for a in ops:
        for b in ops + ["1", "x", "'s'", "#65"]:
            lists.append([a, b])
        for b in ["1", "x", "'s'", "3.5", "#65"]:
            lists.append([b, a])
    fixed = len(lists)
    for _ in range(n):
        ws = []
        for _ in range(r_len(ctx.rng)):
            c, w = word(ctx.rng, tb)
            classes[c] = classes.get(c, 0) + 1
            ws.append(w)
        lists.append(ws)
    nexpr = n // 3
    for _ in range(nexpr):
        ws, _prefix, _cons = exspec.case(ctx.rng, 1 + ctx.rng.below(depth))
        lists.append(ws)
    ctx.count("render: single words + ordered pairs of symbols", fixed)
    ctx.count("render: random word lists", n)
    ctx.count("render: words of random expressions", nexpr)
    for c, m in sorted(classes.items()):
        ctx.count("render-word:" + c, m)
    lines = ["renderspec " + " ".join(core.esc(w) for w in ws) for ws in lists]
    spec = ctx.run_driver(lines, timeout=1200)
    texts, expected, bad_spec = [], [], []
    for ws, line, sp in zip(lists, lines, spec):
        parts = sp.split(" ")
        if not parts[0].startswith("=") or len(parts) < 2:
            bad_spec.append((line, sp))
            texts.append("=")
            expected.append(None)
            continue
        texts.append(parts[0])
        expected.append(" ".join(parts[1:]))
    ctx.oblige("tie:renderspec-accepts-generated-words", not bad_spec, "%d lists, first: %s" % (len(bad_spec), bad_spec[:1]))
    impl = ctx.run_harness("lex", ["lex " + t for t in texts], timeout=1200)
    model = ctx.run_driver(["lex " + t for t in texts], timeout=1200)
    bad_model, ntok = 0, 0
    for ws, line, t, want, a, b in zip(lists, lines, texts, expected, impl, model):
        if want is None:
            continue
        ctx.evaluations += 1
        ntok += len(ws)
        if want != b:
            bad_model += 1
            if len(ctx.disagreements) < 50:
                ctx.disagreements.append(("renderspec-vs-model-lex", line, b, want))
        if want != a:
            ctx.oracle_fail(SIG, "GoldLexer::lex on the printed text does not give back the printed words (kinds, values, positions)",
                            {"mode": "lex", "case": "lex " + t, "words": ws, "text": core.unesc(t[1:]), "implementation": a, "expected": want})
    # the same with arbitrary layout (`lex_render_layout`): random blank gaps, several lines
    lay = [ws for ws in lists[fixed:] if ws] + [ws for ws in lists[:fixed:7]]
    lay_lines = []
    for ws in lay:
        gaps = [ctx.rng.choice(GAP0)] + [ctx.rng.choice(GAPS) for _ in ws[1:]]
        lay_lines.append("layoutspec " + " ".join("=%s %s" % (core.esc(g), core.esc(w)) for g, w in zip(gaps, ws)) + " =" + core.esc(ctx.rng.choice(TAILS)))
    lspec = ctx.run_driver(lay_lines, timeout=1200)
    bad_lay = [(l, o) for l, o in zip(lay_lines, lspec) if not o.startswith("=") or " " not in o]
    ctx.oblige("tie:layoutspec-accepts-generated-layouts", not bad_lay, "%d, first: %s" % (len(bad_lay), bad_lay[:1]))
    lspec = [o if o.startswith("=") and " " in o else "= -" for o in lspec]
    ltexts = [o.split(" ", 1)[0] for o in lspec]
    limpl = ctx.run_harness("lex", ["lex " + t for t in ltexts], timeout=1200)
    lmodel = ctx.run_driver(["lex " + t for t in ltexts], timeout=1200)
    multi = 0
    for ws, line, o, a, b in zip(lay, lay_lines, lspec, limpl, lmodel):
        t, want = o.split(" ", 1)
        ctx.evaluations += 1
        multi += "%{a}" in t
        if want != b:
            bad_model += 1
            if len(ctx.disagreements) < 50:
                ctx.disagreements.append(("layoutspec-vs-model-lex", line, b, want))
        if want != a:
            ctx.oracle_fail(SIG, "GoldLexer::lex on the printed text (arbitrary layout) does not give back the printed words (kinds, values, positions)",
                            {"mode": "lex", "case": "lex " + t, "layout": line, "text": core.unesc(t[1:]), "implementation": a, "expected": want})
    ctx.count("render: layouts with random blank gaps", len(lay))
    ctx.dist["render tie: layouts spanning several lines"] = multi
    ctx.oblige("tie:lex_render on the compiled model (%d texts)" % (len(lists) + len(lay)), bad_model == 0,
               "%d texts where the model's lexer and `expect` differ (contradicts lex_render: stale driver?)" % bad_model)
    neg = ctx.run_driver(["renderspec " + core.esc(w) for w in NOT_WORDS])
    wrong = [w for w, o in zip(NOT_WORDS, neg) if not o.startswith("bad-word")]
    ctx.oblige("tie:renderspec-refuses-non-words", not wrong, "accepted as words: %r" % wrong)
    ctx.dist["render tie: texts / words printed and read back"] = "%d / %d" % (len(lists), ntok)
    ctx.log("render tie: %d texts (%d words) printed by the Lean printer and read back by GoldLexer::lex" % (len(lists), ntok))


def r_len(r):
    return r.choice([0, 1, 1, 2, 2, 3, 4, 5, 8, 13, 21, 40])


def replay(ctx, case):
    """re-run one printed text: Lean printer + expected tokens vs the real lexer"""
    ctx.build_harness()
    ctx.lake_build(["driver"])
    if "layout" in case:
        sp = ctx.run_driver([case["layout"]])[0]
        print("layoutspec     :", sp)
        t, want = (sp.split(" ", 1) + ["?"])[:2]
        a = ctx.run_harness("lex", ["lex " + t])[0]
        b = ctx.run_driver(["lex " + t])[0]
        print("text           :", repr(core.unesc(t[1:])))
        print("expected       :", want)
        print("implementation :", a)
        print("model          :", b)
        if a != want or b != want:
            print("VIOLATION property=C06 replay=%s" % ctx.replay)
            return 1
        print("the real lexer gives back the printed words")
        return 0
    ws = case.get("words", [])
    sp = ctx.run_driver(["renderspec " + " ".join(core.esc(w) for w in ws)])[0]
    parts = sp.split(" ")
    print("words          :", ws)
    print("renderspec     :", sp)
    if not parts[0].startswith("=") or len(parts) < 2:
        print("the printer refuses these words")
        return 1
    want = " ".join(parts[1:])
    a = ctx.run_harness("lex", ["lex " + parts[0]])[0]
    b = ctx.run_driver(["lex " + parts[0]])[0]
    print("text           :", repr(core.unesc(parts[0][1:])))
    print("expected       :", want)
    print("implementation :", a)
    print("model          :", b)
    if a != want or b != want:
        print("VIOLATION property=C06 replay=%s" % ctx.replay)
        return 1
    print("the real lexer gives back the printed words")
    return 0
