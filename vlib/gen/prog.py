"""G-PROG: grammar-directed generator of Gold programs as token lists [(kind, value)].

Covers every construct of the supported grammar (class/module header, uses, constants, every
type form, fields with modifiers, procedures and functions with parameters and modifiers,
every statement form, OQL select/fetch, every operator level).  Used (a) as well-formed
inputs, (b) as the seed of token-level mutations for the recovery paths.
"""
from .toks import LEX

BIN_LEVELS = [
    ["Asterisk", "Divide", "Modulus"],
    ["Plus", "Minus", "StringConcat", "StringConcat2"],
    ["BAnd"],
    ["BOr", "BXor"],
    ["LeftShift", "RightShift"],
    ["Equals", "NotEquals", "LessThan", "LessThanOrEqual", "GreaterThan", "GreaterThanOrEqual", "In", "Like"],
    ["And"],
    ["Or", "Xor"],
]
OPVAL = {"Asterisk": "*", "Divide": "/", "Modulus": "%", "Plus": "+", "Minus": "-", "StringConcat": "&",
         "StringConcat2": "&&", "BAnd": "bAnd", "BOr": "bOr", "BXor": "bXor", "LeftShift": "<<", "RightShift": ">>",
         "Equals": "=", "NotEquals": "<>", "LessThan": "<", "LessThanOrEqual": "<=", "GreaterThan": ">",
         "GreaterThanOrEqual": ">=", "In": "in", "Like": "like", "And": "and", "Or": "or", "Xor": "xor"}


def T(kind, value=None):
    return (kind, value if value is not None else OPVAL.get(kind, LEX.get(kind, kind.lower())))


class Gen:
    def __init__(self, rng, names=None):
        self.r = rng
        self.n = 0
        self.names = names

    def ident(self, prefix="v"):
        self.n += 1
        if self.names:
            return T("Identifier", self.r.choice(self.names))
        return T("Identifier", "%s%d" % (prefix, self.r.below(6)))

    def lit(self):
        c = self.r.below(5)
        return [T("NumericLiteral", str(self.r.below(100))), T("StringLiteral", "str"), T("BooleanTrue", "true"),
                T("BooleanFalse", "false"), T("Nil", "nil")][c]

    # ---- expressions -------------------------------------------------------------
    def dot_op(self, d):
        c = self.r.below(6)
        if c == 0 and d > 0:
            args = []
            for i in range(self.r.below(3)):
                if i:
                    args.append(T("Comma"))
                args += self.expr(d - 1)
            return [self.ident("m"), T("OBracket")] + args + [T("CBracket")]
        if c == 1 and d > 0:
            return [self.ident("a"), T("OSqrBracket")] + self.expr(d - 1) + [T("CSqrBracket")]
        return [self.ident()]

    def dot_ops(self, d):
        out = self.dot_op(d)
        for _ in range(self.r.below(3) if self.r.chance(1, 2) else 0):
            out += [T("Dot", ".")] + self.dot_op(d)
        return out

    def primary(self, d):
        c = self.r.below(10)
        if c == 0 and d > 0:
            return [T("OBracket")] + self.expr(d - 1) + [T("CBracket")]
        if c == 1 and d > 0:
            op = self.r.choice([("Not", "not"), ("BNot", "bNot"), ("AddressOf", "@"), ("Inherited", "inherited"), ("Minus", "-")])
            return [op] + self.primary(d - 1)
        if c == 2:
            return self.dot_ops(d) + [self.r.choice([("Increment", "++"), ("Decrement", "--")])]
        if c == 3:
            return [self.lit()]
        if c == 4 and d > 0:
            items = []
            for i in range(self.r.below(3)):
                if i:
                    items.append(T("Comma"))
                items += self.primary(d - 1)
            return [T("OSqrBracket")] + items + [T("CSqrBracket")]
        return self.dot_ops(d)

    def level(self, lv, d):
        if lv < 0:
            return self.primary(d)
        out = self.level(lv - 1, d)
        k = 0
        while d > 0 and self.r.chance(1, 4) and k < 3:
            out += [T(self.r.choice(BIN_LEVELS[lv]))] + self.level(lv - 1, d - 1)
            k += 1
        return out

    def expr(self, d):
        return self.level(len(BIN_LEVELS) - 1, d)

    # ---- types ---------------------------------------------------------------------
    def type_basic(self):
        return [T("Identifier", self.r.choice(["int", "tFoo", "aBar", "Text", "tVarByteArray", "cstring"]))]

    def params(self, d):
        ps = []
        for i in range(self.r.below(4)):
            if i:
                ps.append(T("Comma"))
            if self.r.chance(1, 3):
                ps.append(self.r.choice([T("Const"), T("Var"), T("InOut", "inout")]))
            ps.append(self.ident("p"))
            if self.r.chance(3, 4):
                ps += [T("Colon")] + self.type_(d - 1 if d > 0 else 0)
        return [T("OBracket")] + ps + [T("CBracket")]

    def type_(self, d):
        c = self.r.below(14) if d > 0 else self.r.below(4)
        if c == 0:
            return self.type_basic()
        if c == 1:
            return [T("Identifier", "cstring"), T("OBracket"), T("NumericLiteral", "10"), T("CBracket")]
        if c == 2:
            out = [self.r.choice([T("RefTo", "refTo"), T("ListOf", "listOf")])]
            if self.r.chance(1, 2):
                out += [T("OSqrBracket"), T("Identifier", "P")] + ([T("Comma"), T("Identifier", "A")] if self.r.chance(1, 2) else []) + [T("CSqrBracket")]
            out += [T("Identifier", "aBar")]
            if self.r.chance(1, 3):
                out += [T("Inverse", "inverse"), self.ident("f")]
            return out
        if c == 3:
            return [T("OBracket"), self.ident("e"), T("Comma"), self.ident("e"), T("CBracket")]
        if c == 4:
            return [self.lit(), T("To", "to"), self.lit()]
        if c == 5:
            return [T("OSqrBracket")] + self.type_basic() + [T("CSqrBracket")]
        if c == 6:
            out = [T("Record", "record")]
            if self.r.chance(1, 3):
                out += [T("OBracket"), T("Identifier", "tBase"), T("CBracket")]
            for _ in range(self.r.below(3)):
                out += [self.ident("f"), T("Colon")] + self.type_(d - 1)
            return out + [T("EndRecord", "endRecord")]
        if c == 7:
            return [T("Dot", ".")] + self.type_basic()
        if c == 8:
            out = [self.r.choice([T("Array", "array"), T("Sequence", "sequence")]), T("OSqrBracket")]
            out += (self.type_basic() if self.r.chance(1, 2) else [T("NumericLiteral", "1"), T("To", "to"), T("NumericLiteral", "9")])
            out += [T("CSqrBracket")]
            if self.r.chance(1, 3):
                out += [T("OSqrBracket")] + self.type_basic() + [T("CSqrBracket")]
            return out + [T("Of", "of")] + self.type_basic()
        if c == 9:
            return [T("Proc", "proc")] + (self.params(d - 1) if self.r.chance(1, 2) else [])
        if c == 10:
            return [T("Func", "func")] + (self.params(d - 1) if self.r.chance(1, 2) else []) + [T("Return", "return")] + self.type_basic()
        if c == 11:
            return [T("InstanceOf", "instanceOf")] + self.type_basic()
        if c == 12:
            return self.type_basic() + [T("Plus", "+"), T("OBracket"), self.ident("e"), T("CBracket")]
        return self.type_basic()

    # ---- statements ------------------------------------------------------------------
    def block(self, d, n=None):
        out = []
        for _ in range(self.r.below(4) if n is None else n):
            out += self.stmt(d)
        return out

    def oql(self, d):
        if self.r.chance(1, 3):
            out = [T("OQL", "OQL"), T("Fetch", "fetch"), T("Into", "into")] + self.dot_ops(0)
            if self.r.chance(1, 2):
                out += [T("Comma")] + self.dot_ops(0)
            if self.r.chance(1, 2):
                out += [T("Using", "using"), self.ident("c")]
            return out
        out = [T("OQL", "OQL"), T("Select", "select")]
        if self.r.chance(1, 4):
            out += [T("Top", "top"), T("NumericLiteral", "5")]
        if self.r.chance(1, 4):
            out += [T("Distinct", "distinct")]
        c = self.r.below(3)
        out += [T("Asterisk", "*")] if c == 0 else ([self.ident("m"), T("OBracket"), T("Asterisk", "*"), T("CBracket")] if c == 1 else self.dot_ops(0))
        out += [T("From", "from")]
        if self.r.chance(1, 4):
            out += [T("Conditional", "conditional")]
        out += [self.ident("x"), T("In", "in"), self.ident("a")]
        if self.r.chance(1, 3):
            out += [T("Increment", "++")]
        if self.r.chance(1, 4):
            out += [T("Identifier", "outerJoinOn")] + self.level(5, 0)
        if self.r.chance(1, 2):
            out += [T("Where", "where")] + self.expr(d)
        if self.r.chance(1, 3):
            out += [T("Order", "order"), T("By", "by")] + self.dot_ops(0) + ([T("Descending", "descending")] if self.r.chance(1, 2) else [])
        if self.r.chance(1, 3):
            out += [T("Using", "using"), self.ident("c")]
        return out

    def stmt(self, d):
        c = self.r.below(18) if d > 0 else 8 + self.r.below(10)
        if c == 0:
            out = [T("If", "if")] + self.expr(d - 1) + self.block(d - 1)
            for _ in range(self.r.below(2)):
                out += [T("ElseIf", "elseif")] + self.expr(d - 1) + self.block(d - 1)
            if self.r.chance(1, 2):
                out += [T("Else", "else")] + self.block(d - 1)
            return out + [T("EndIf", "endIf")]
        if c == 1:
            out = [T("For", "for"), self.ident("i"), T("Equals", "=")] + self.expr(0) + [self.r.choice([T("To", "to"), T("DownTo", "downto")])] + self.expr(0)
            if self.r.chance(1, 3):
                out += [T("Step", "step")] + self.expr(0)
            return out + self.block(d - 1) + [T("EndFor", "endFor")]
        if c == 2:
            out = [T("ForEach", "forEach"), self.ident("c"), T("In", "in")] + (self.oql(0) if self.r.chance(1, 4) else self.dot_ops(0))
            if self.r.chance(1, 4):
                out += [T("DownTo", "downto")]
            if self.r.chance(1, 3):
                out += [T("Using", "using"), self.ident("u")]
            return out + self.block(d - 1) + [T("EndFor", "endFor")]
        if c == 3:
            return [T("While", "while")] + self.expr(d - 1) + self.block(d - 1) + [T("EndWhile", "endWhile")]
        if c == 4:
            return [T("Loop", "loop")] + self.block(d - 1) + [T("EndLoop", "endLoop")]
        if c == 5:
            out = [T("Switch", "switch")] + self.expr(0)
            for _ in range(self.r.below(3)):
                out += [T("When", "when")]
                if self.r.chance(1, 3):
                    out += [T("NumericLiteral", "1"), T("To", "to"), T("NumericLiteral", "5")]
                else:
                    out += [self.lit()] + ([T("Comma"), self.ident("c")] if self.r.chance(1, 2) else [])
                out += self.block(d - 1) + [T("EndWhen", "endWhen")]
            if self.r.chance(1, 2):
                out += [T("Else", "else")] + self.block(d - 1)
            return out + [T("EndSwitch", "endSwitch")]
        if c == 6:
            return [T("Repeat", "repeat")] + self.block(d - 1) + [T("Until", "until")] + self.expr(d - 1)
        if c == 7:
            return self.oql(d - 1)
        if c == 8:
            out = [T("Var", "var"), self.ident("l"), T("Colon")] + self.type_(1)
            if self.r.chance(1, 6):
                out += [T("Absolute", "absolute"), self.ident("g")]
            return out
        if c == 9:
            return [T("Return", "return")] + self.expr(d)
        if c == 10:
            return [self.r.choice([T("Exit", "exit"), T("Break", "break"), T("Continue", "continue")])]
        if c == 11:
            return [T("Comment", "; a comment")]
        if c == 12:
            return [T("Const", "const"), self.ident("c"), T("Equals", "="), self.lit() if False else T("NumericLiteral", "3")]
        if c in (13, 14, 15):
            return self.dot_ops(d) + [self.r.choice([T("Equals", "="), T("DecrementAssign", "-="), T("IncrementAssign", "+="), T("DeepAssign", ":=")])] + self.expr(d)
        return self.expr(d)

    # ---- declarations ------------------------------------------------------------------
    def method(self, d):
        is_func = self.r.chance(1, 2)
        out = [T("Func", "func") if is_func else T("Proc", "proc"), self.ident("M")]
        if self.r.chance(1, 8):
            out += [T("Pound", "#"), self.ident("ev")]
        if self.r.chance(3, 4):
            out += self.params(1)
        if is_func:
            out += [T("Return", "return")] + self.type_basic()
        mods = []
        for m in (("Private", "private"), ("Protected", "protected"), ("Final", "final"), ("Override", "override")):
            if self.r.chance(1, 6):
                mods.append(m)
        nobody = False
        if self.r.chance(1, 10):
            mods.append(("Forward", "forward"))
            nobody = True
        elif self.r.chance(1, 12):
            mods += [("External", "external"), ("StringLiteral", "lib.dll")]
            nobody = True
        out += mods
        if nobody:
            return out
        return out + self.block(d, self.r.below(5)) + [T("EndFunc", "endFunc") if is_func else T("EndProc", "endProc")]

    def decl(self, d):
        c = self.r.below(8)
        if c == 0:
            return [T("Const", "const"), self.ident("c"), T("Equals", "="), self.lit() if False else self.r.choice([T("NumericLiteral", "7"), T("StringLiteral", "s")])] + ([T("MultiLang", "multiLang")] if self.r.chance(1, 5) else [])
        if c == 1:
            return [T("Type", "type"), self.ident("t"), T("Colon")] + self.type_(2)
        if c == 2:
            out = ([T("Memory", "memory")] if self.r.chance(1, 6) else []) + [self.ident("f"), T("Colon")] + self.type_(1)
            for m in (("Private", "private"), ("Protected", "protected"), ("Final", "final"), ("Override", "override")):
                if self.r.chance(1, 6):
                    out.append(m)
            return out
        if c == 3:
            return [T("Comment", "; top comment")]
        if c == 4:
            return [T("OSqrBracket"), T("Identifier", "anno"), T("CSqrBracket")] + [T("Type", "type"), self.ident("t"), T("Colon")] + self.type_basic()
        return self.method(d)

    def program(self, d=3, ndecl=None):
        out = []
        c = self.r.below(4)
        if c == 0:
            out += [T("Class", "class"), T("Identifier", "aFoo")] + ([T("OBracket"), T("Identifier", "aBase"), T("CBracket")] if self.r.chance(1, 2) else [])
        elif c == 1:
            out += [T("Module", "module"), T("Identifier", "mFoo")]
        if self.r.chance(1, 2):
            out += [T("Uses", "uses"), T("Identifier", "aBar")] + ([T("Comma"), T("Identifier", "aBaz")] if self.r.chance(1, 2) else [])
        for _ in range(self.r.below(6) if ndecl is None else ndecl):
            out += self.decl(d)
        return out


def mutate(rng, toks, kinds):
    """token-level mutations: delete / duplicate / swap / replace / insert / truncate"""
    t = list(toks)
    for _ in range(1 + rng.below(3)):
        if not t:
            break
        c = rng.below(6)
        i = rng.below(len(t))
        if c == 0:
            del t[i]
        elif c == 1:
            t.insert(i, t[i])
        elif c == 2 and len(t) > 1:
            j = rng.below(len(t))
            t[i], t[j] = t[j], t[i]
        elif c == 3:
            k = rng.choice(kinds)
            t[i] = T(k)
        elif c == 4:
            k = rng.choice(kinds)
            t.insert(i, T(k))
        else:
            t = t[:i]
    return t


def wire(toks, per_line=7):
    """wire line; tokens laid out `per_line` per source line, comments get a line of their own"""
    from ..core import esc
    out = ["parse"]
    line = 0
    col = 0
    n = 0
    for k, v in toks:
        if n >= per_line or k == "Comment":
            line += 1
            col = 0
            n = 0
        out.append("%s:%s:%d:%d:%d:%d" % (k, esc(v), line, col, line, col + len(v)))
        col += len(v) + 1
        n += 1
        if k == "Comment":
            n = per_line
    return " ".join(out)
