"""G-PROG for the linters (C15, C16): abstract programs in which every trigger and every near-miss
is a toggle, rendered to source text TOGETHER WITH the verdicts the property demands.

  Prog  = header declarations (constants, types, fields) + methods
  Meth  = kind, name, parameters, return type, override, locals, the inherited-call variant
  Local = name, type, use mode, purge mode

`render(prog)` -> (text, expected) where expected is a sorted list of `class|l:c-l:c` strings
(class in unused / ret / inherited / unpurged / naming:<kind>), computed from the toggles alone
(never from the analyzers or the model).  Metamorphic variants work on the abstract program:
`permute` (method order), `rename` (consistent injective renaming of the locals), `recase`
(letter case of every use, of the rule names and of the type names).
"""
import copy

BASE = ["alpha", "beta", "gamma", "delta", "eps", "zeta", "eta", "theta", "iota", "kappa", "lambda", "omega"]

# use modes of a local: True = the property counts it as a mention
USE_MODES = {
    "never": False,       # no occurrence at all
    "once": True,         # v = 1
    "dotonly": False,     # self.v = 1            (member name to the right of a dot)
    "nested": True,       # inside if / while / switch blocks
    "other": False,       # mentioned in ANOTHER method only
    "recase": True,       # V = 1                 (different letter case)
    "forctr": True,       # for v = 1 to 3 … endfor, body does not mention it
    "string": False,      # self.S = 'v'          (string literal with that text)
    "recv": True,         # v.Field = 1           (left of the dot)
    "arg": True,          # self.Do(v)
    "index": True,        # v[1] = 2
    "expr": True,         # self.X = 1 + v * 2
    "dotchain": False,    # self.a.v.b = 1        (inner member name)
    "recvsame": True,     # v.v = 1               (receiver spelt like the member it selects)
    "deepexpr": True,     # self.Total = v + 1 + 1 + … (80 operands: the mention is the DEEPEST node of a left-nested tree)
    "deepnest": True,     # inside 36 nested blocks
    "absolute": True,     # var view<V> : int absolute v   (mentioned by the `absolute` clause of ANOTHER local's declaration only)
}
# purge modes of a tVarByteArray local: True = purged in its own method
PURGE_MODES = {
    "none": False,
    "purge": True,        # Purge(v)
    "other": False,       # Purge(<another variable>)
    "elsewhere": False,   # Purge(v) in ANOTHER method
    "recase": True,       # PURGE(V)
    "receiver": True,     # OcsByteArray.Purge(v)
    "twoargs": True,      # Purge(v, 1)
    "second": False,      # Purge(x, v)           (not the first argument)
    "nested": True,       # inside an if block
}
INHERITED_NAMES = ["Init", "Terminate", "NotifyInit", "NotifyTerminate"]
NEAR_NAMES = ["Initialize", "Init2", "Terminated", "Notify", "Run"]
# inherited variants: True = satisfies the rule
INH_MODES = {
    "none": False,
    "same": True,         # inherited self.<same name>
    "sameargs": True,     # inherited self.<same name>(1)
    "othername": False,   # inherited self.<another listed name>
    "pass": True,         # pass
    "plaincall": False,   # self.<same name>          (no `inherited`)
    "recase": True,       # INHERITED SELF.<SAME NAME in another case>
    "nested": True,       # inside an if block
    "elsewhere": False,   # the call sits in ANOTHER method
}
FLAGGED_RET = ["Text", "tVarByteArray", "aListOfInstances"]
PLAIN_RET = ["int", "tText", "aList", "Boolean", "tVarByteArrays"]


def swapcase_some(s, rng):
    if rng is None:
        return s.swapcase()
    return "".join(c.swapcase() if rng.chance(1, 2) else c for c in s)


class Local:
    def __init__(self, name, ty="int", use="once", purge="none"):
        self.name, self.ty, self.use, self.purge = name, ty, use, purge


class Meth:
    def __init__(self, kind, name, params=None, ret="int", override=False, locals_=None, inh="none"):
        self.kind, self.name, self.params, self.ret = kind, name, params or [], ret
        self.override, self.locals, self.inh = override, locals_ or [], inh
        self.extra = []      # statements contributed by other methods' toggles (other / elsewhere)
        self.param_kinds = []  # (modifier, type) per parameter; default ("", "int")


class Prog:
    def __init__(self):
        self.consts, self.types, self.fields, self.methods = [], [], [], []
        self.recase_uses = False     # metamorphic: write every use / rule name in another letter case
        self.rng = None


def is_byte_array(ty):
    return ty.upper() == "TVARBYTEARRAY"


def mentioned_in_own_method(v):
    """the use mode mentions it, or a Purge call of its own method has it as an argument"""
    return USE_MODES[v.use] or (is_byte_array(v.ty) and v.purge in ("purge", "recase", "receiver", "twoargs", "second", "nested"))


class Out:
    def __init__(self):
        self.lines, self.exp = [], []

    def line(self, s=""):
        self.lines.append(s)
        return len(self.lines) - 1

    def flag(self, cls, line, col, name):
        self.exp.append("%s|%d:%d-%d:%d" % (cls, line, col, line, col + len(name)))


def render(p):
    """-> (text, expected items, per-method expected items relative to the method's first line)"""
    o = Out()
    rc = (lambda s: swapcase_some(s, p.rng)) if p.recase_uses else (lambda s: s)
    o.line("class aLintCase")
    o.line()
    for name in p.consts:
        l = o.line("const %s = 1" % name)
        if not (name[0] == "c" or name.startswith("ml")):
            o.flag("naming:const", l, 6, name)
    for name in p.types:
        l = o.line("type %s : int" % name)
        if name[0] != "t":
            o.flag("naming:type", l, 5, name)
    for name, ovr in p.fields:
        l = o.line("%s : int%s" % (name, " override" if ovr else ""))
        if not ovr and not name[0].isupper():
            o.flag("naming:field", l, 0, name)
    o.line()
    per_method = []
    for mi, m in enumerate(p.methods):
        start = len(o.lines)
        before = len(o.exp)
        head = "%s %s" % (m.kind, m.name)
        col = len(m.kind) + 1
        l0 = len(o.lines)
        if not m.override and not m.name[0].isupper():
            o.flag("naming:%s" % m.kind, l0, col, m.name)
        if m.params:
            head += "("
            parts = []
            for pi, pn in enumerate(m.params):
                mod, pty = m.param_kinds[pi] if pi < len(getattr(m, "param_kinds", [])) else ("", "int")
                pcol = len(head) + sum(len(x) + 2 for x in parts) + (len(mod) + 1 if mod else 0)
                if not m.override and not pn[0].isupper():
                    o.flag("naming:param", l0, pcol, pn)
                parts.append("%s%s : %s" % (mod + " " if mod else "", pn, rc(pty)))
            head += ", ".join(parts) + ")"
        if m.kind == "func":
            head += " return "
            if m.ret.upper() in [x.upper() for x in FLAGGED_RET]:
                o.flag("ret", l0, len(head), m.ret)
            head += rc(m.ret)          # a type REFERENCE: re-cased in the metamorphic variant
        if m.override:
            head += " override"
        o.line(head)
        # inherited rule: flagged on the name
        listed = m.name.upper() in [x.upper() for x in INHERITED_NAMES]
        if listed and not INH_MODES[m.inh]:
            o.flag("inherited", l0, col, m.name)
        # declarations
        joined = getattr(m, "join_decls", False)      # two declarations share one source line (newlines are layout)
        for vi, v in enumerate(m.locals):
            decl = "var %s : %s" % (v.name, rc(v.ty))
            if joined and vi % 2 == 1:
                l = len(o.lines) - 1
                col = len(o.lines[l]) + 1 + 4
                o.lines[l] += " " + decl
            else:
                l = o.line("  " + decl)
                col = 6
            if v.name[0].isupper():
                o.flag("naming:local", l, col, v.name)
            if not mentioned_in_own_method(v):
                o.flag("unused", l, col, v.name)
            if is_byte_array(v.ty) and not PURGE_MODES[v.purge]:
                o.flag("unpurged", l, col, v.name)
        # statements
        for v in m.locals:
            use = rc(v.name) if v.use != "recase" else (v.name.swapcase() if v.name.swapcase() != v.name else v.name)
            if v.use == "once" or v.use == "recase":
                o.line("  %s = 1" % use)
            elif v.use == "dotonly":
                o.line("  self.%s = 1" % use)
            elif v.use == "nested":
                o.line("  if self.Flag")
                o.line("    while self.More")
                o.line("      %s = self.Next" % use)
                o.line("    endwhile")
                o.line("  endif")
            elif v.use == "forctr":
                o.line("  for %s = 1 to 3" % use)
                o.line("    self.Total = self.Total + 1")
                o.line("  endfor")
            elif v.use == "string":
                o.line("  self.Label = '%s'" % v.name)
            elif v.use == "recv":
                o.line("  %s.Field = 1" % use)
            elif v.use == "arg":
                o.line("  self.Do(1, %s)" % use)
            elif v.use == "index":
                o.line("  %s[1] = 2" % use)
            elif v.use == "expr":
                o.line("  self.Total = 1 + %s * 2" % use)
            elif v.use == "dotchain":
                o.line("  self.Part.%s.Size = 1" % use)
            elif v.use == "recvsame":
                o.line("  %s.%s = 1" % (use, use))
            elif v.use == "deepexpr":
                o.line("  self.Total = %s%s" % (use, " + 1" * 80))
            elif v.use == "absolute":
                other = "view" + v.name[:1].upper() + v.name[1:]
                l = o.line("  var %s : int absolute %s" % (other, use))
                o.flag("unused", l, 6, other)       # the overlaying local itself is never mentioned
            elif v.use == "deepnest":
                for d in range(36):
                    o.line("  %sif self.Flag" % (" " * d))
                o.line("  %s%s = 1" % (" " * 36, use))
                for d in reversed(range(36)):
                    o.line("  %sendif" % (" " * d))
            if is_byte_array(v.ty):
                pu = rc("Purge")
                if v.purge == "purge":
                    o.line("  %s(%s)" % (pu, use if v.use != "recase" else rc(v.name)))
                elif v.purge == "other":
                    o.line("  %s(self.Spare)" % pu)
                    o.line("  %s(%sx)" % (pu, v.name))
                elif v.purge == "recase":
                    o.line("  %s(%s)" % ("Purge".swapcase(), v.name.swapcase()))
                elif v.purge == "receiver":
                    o.line("  OcsByteArray.%s(%s)" % (pu, rc(v.name)))
                elif v.purge == "twoargs":
                    o.line("  %s(%s, 1)" % (pu, rc(v.name)))
                elif v.purge == "second":
                    o.line("  %s(self.Spare, %s)" % (pu, rc(v.name)))
                elif v.purge == "nested":
                    o.line("  if self.Flag")
                    o.line("    %s(%s)" % (pu, rc(v.name)))
                    o.line("  endif")
        for s in m.extra:
            o.line("  " + s)
        inh, slf = rc("inherited"), rc("self")
        if m.inh == "same":
            o.line("  %s %s.%s" % (inh, slf, rc(m.name)))
        elif m.inh == "sameargs":
            o.line("  %s %s.%s(1)" % (inh, slf, rc(m.name)))
        elif m.inh == "othername":
            other = [x for x in INHERITED_NAMES if x.upper() != m.name.upper()][mi % 3]
            o.line("  %s %s.%s" % (inh, slf, other))
        elif m.inh == "pass":
            o.line("  %s" % rc("pass"))
        elif m.inh == "plaincall":
            o.line("  %s.%s" % (slf, m.name))
        elif m.inh == "recase":
            o.line("  %s %s.%s" % ("INHERITED", "SELF", m.name.swapcase()))
        elif m.inh == "nested":
            o.line("  if self.Flag")
            o.line("    %s %s.%s" % (inh, slf, rc(m.name)))
            o.line("  endif")
        o.line("end%s" % m.kind)
        o.line()
        per_method.append(sorted(rel(e, start) for e in o.exp[before:]))
    return "\n".join(o.lines) + "\n", sorted(o.exp), per_method


def rel(item, start):
    cls, rng = item.split("|")
    a, b = rng.split("-")
    l1, c1 = a.split(":")
    l2, c2 = b.split(":")
    return "%s|%d:%s-%d:%s" % (cls, int(l1) - start, c1, int(l2) - start, c2)


def link_cross_method(p):
    """`other` uses and `elsewhere` purges / inherited calls live in a neighbouring method"""
    n = len(p.methods)
    for m in p.methods:
        m.extra = []
    for i, m in enumerate(p.methods):
        tgt = p.methods[(i + 1) % n] if n > 1 else None
        for v in m.locals:
            if v.use == "other" and tgt is not None and not any(w.name.upper() == v.name.upper() for w in tgt.locals):
                tgt.extra.append("%s = 1" % v.name)
            if is_byte_array(v.ty) and v.purge == "elsewhere" and tgt is not None and \
                    not any(w.name.upper() == v.name.upper() for w in tgt.locals):
                tgt.extra.append("Purge(%s)" % v.name)
        if m.inh == "elsewhere" and tgt is not None and tgt.name.upper() != m.name.upper():
            tgt.extra.append("inherited self.%s" % m.name)


# ------------------------------------------------------------------------------------------------
# random / systematic programs


def gen_method(rng, idx, c16_weight):
    kind = "func" if rng.chance(1, 3) else "proc"
    if rng.chance(1 + 2 * c16_weight, 4):
        name = rng.choice(INHERITED_NAMES)
        if rng.chance(1, 3):
            name = swapcase_some(name, rng)
    elif rng.chance(1, 3):
        name = rng.choice(NEAR_NAMES)
    else:
        name = "Work%d" % idx
    if rng.chance(1, 6):
        name = name[0].lower() + name[1:]
    override = rng.chance(1, 4)
    params = []
    for k in range(rng.below(3)):
        pn = "Par%d" % k
        if rng.chance(1, 3):
            pn = pn.lower()
        params.append(pn)
    kinds = [(rng.choice(["", "", "const", "var", "inout"]), rng.choice(["int", "int", "Text", "tVarByteArray", "aListOfInstances"])) for _ in params]
    ret = "int"
    if kind == "func":
        if rng.chance(1 + c16_weight, 3):
            ret = rng.choice(FLAGGED_RET)
            if rng.chance(1, 3):
                ret = swapcase_some(ret, rng)
        else:
            ret = rng.choice(PLAIN_RET)
    m = Meth(kind, name, params, ret, override)
    m.param_kinds = kinds
    m.inh = rng.choice(list(INH_MODES)) if (name.upper() in [x.upper() for x in INHERITED_NAMES] or rng.chance(1, 4)) else "none"
    names = list(BASE)
    rng.shuffle(names)
    nl = rng.below(7)
    for k in range(nl):
        nm = names[k]
        if rng.chance(1, 8):
            nm = nm[0].upper() + nm[1:]
        ty = "int"
        purge = "none"
        if rng.chance(1 + 2 * c16_weight, 5):
            ty = "tVarByteArray" if rng.chance(2, 3) else swapcase_some("tVarByteArray", rng)
            purge = rng.choice(list(PURGE_MODES))
        elif rng.chance(1, 6):
            ty = rng.choice(["tVarByteArrays", "cstring", "aListOfInstances", "Text"])
        use = rng.choice([u for u in USE_MODES if not u.startswith("deep")])
        if rng.chance(1, 12):
            use = rng.choice(["deepexpr", "deepnest"])
        m.locals.append(Local(nm, ty, use, purge))
    m.join_decls = rng.chance(1, 6)
    return m


def gen_prog(rng, c16_weight=0, nmeth=None):
    p = Prog()
    for k in range(rng.below(3)):
        p.consts.append(rng.choice(["cLimit%d", "mlText%d", "mLimit%d", "Limit%d", "CLimit%d", "c%d"]) % k)
    for k in range(rng.below(3)):
        p.types.append(rng.choice(["tKind%d", "TKind%d", "kind%d", "t%d"]) % k)
    for k in range(rng.below(3)):
        p.fields.append((rng.choice(["Size%d", "size%d"]) % k, rng.chance(1, 3)))
    n = nmeth if nmeth is not None else 1 + rng.below(8)
    for i in range(n):
        m = gen_method(rng, i, c16_weight)
        # a method named like a local of the method before it (any letter case): the name terminal of the next
        # method must not count as a mention of the previous method's local
        if p.methods and p.methods[-1].locals and m.name.upper() not in [x.upper() for x in INHERITED_NAMES] and rng.chance(1, 6):
            own = {x.name.upper() for x in m.locals} | {x.upper() for x in getattr(m, "params", [])}
            cand = [v for v in p.methods[-1].locals if v.name.upper() not in own]
            if cand:
                v = rng.choice(cand)
                m.name = v.name[0].upper() + v.name[1:] if rng.chance(1, 2) else swapcase_some(v.name, rng)
        p.methods.append(m)
    link_cross_method(p)
    return p


def single_toggle_programs():
    """every toggle once, alone in a two-method file (the second method hosts cross-method near-misses)"""
    out = []
    for use in USE_MODES:
        p = Prog()
        p.methods = [Meth("proc", "Work0", locals_=[Local("alpha", "int", use)]), Meth("proc", "Work1")]
        link_cross_method(p)
        out.append(("use:" + use, p))
    for pm in PURGE_MODES:
        p = Prog()
        p.methods = [Meth("proc", "Work0", locals_=[Local("alpha", "tVarByteArray", "once", pm)]), Meth("proc", "Work1")]
        link_cross_method(p)
        out.append(("purge:" + pm, p))
    for nm in INHERITED_NAMES + NEAR_NAMES:
        for im in INH_MODES:
            p = Prog()
            p.methods = [Meth("proc", nm, inh=im), Meth("func", "Work1")]
            link_cross_method(p)
            out.append(("inh:%s:%s" % (nm, im), p))
    for rt in FLAGGED_RET + PLAIN_RET + [x.upper() for x in FLAGGED_RET] + [x.lower() for x in FLAGGED_RET]:
        p = Prog()
        p.methods = [Meth("func", "Work0", ret=rt), Meth("proc", "Work1", ret=rt)]
        out.append(("ret:" + rt, p))
    for ovr in (False, True):
        for nm in ("Run", "run"):
            for pn in ("Par", "par"):
                for kind in ("proc", "func"):
                    p = Prog()
                    p.methods = [Meth(kind, nm, [pn], override=ovr, locals_=[Local("Alpha", "int", "once"), Local("beta", "int", "once")])]
                    p.fields = [("Size", ovr), ("size", ovr)]
                    p.consts = ["cA", "mlB", "mC", "C"]
                    p.types = ["tA", "TA", "a"]
                    out.append(("naming:%s:%s:%s:%s" % (kind, nm, pn, ovr), p))
    return out


# ------------------------------------------------------------------------------------------------
# metamorphic variants (on the abstract program)


def permute(p, rng):
    q = copy.deepcopy(p)
    rng.shuffle(q.methods)
    # cross-method statements stay with the method that hosts them (they are part of its text)
    return q


def rename(p, mode):
    """consistent renaming of every local variable (injective also modulo letter case)"""
    q = copy.deepcopy(p)

    def rho(n):
        if mode == 0:
            return "x_" + n
        if mode == 1:
            return n + "Q9"
        return n[0] + "Zz" + n[1:]
    names = set()
    for m in q.methods:
        for v in m.locals:
            names.add(v.name)
    for m in q.methods:
        for v in m.locals:
            v.name = rho(v.name)
        m.extra = [rename_stmt(s, names, rho) for s in m.extra]
    return q


def rename_stmt(s, names, rho):
    for n in names:
        if s == "%s = 1" % n:
            return "%s = 1" % rho(n)
        if s == "Purge(%s)" % n:
            return "Purge(%s)" % rho(n)
    return s


def recase(p, rng):
    q = copy.deepcopy(p)
    q.recase_uses = True
    q.rng = rng
    return q
