"""G-WS: generated workspaces for C10 / C11 / C17 (DESIGN §2.4).

A workspace is an inheritance forest of classes (depth <= 4) plus modules, with
overriding (also in another letter case), shadowing (locals / parameters named like members),
locals / params / fields / consts / types, module members, uses-graphs (cycles allowed) and
chained member access.  It is emitted as `.god` texts TOGETHER WITH

* the declaration map: for every identifier occurrence the declaration(s) the scoping rules of
  the property select (`expect` of a `d` query: list of `stem@selection-range`);
* the visibility sets: for every dot position (complete, partial, dangling) and every statement
  start the labels that must be proposed (`expect` of a `c` query: sorted label list).

Both are computed here from the abstract workspace by the PROPERTY's rules, never from the
implementation or the Lean model:

  plain identifier : local/param of the enclosing method, else member of the enclosing class,
                     else of the nearest ancestor declaring it, else a constant or type (incl.
                     the entity itself) of a used entity (uses order; its ancestors included)
  after a dot / a member's own declared name :
                     every declaration of the member in the operand's (enclosing) class and in
                     each ancestor that also declares it, nearest first
  completion after a dot : fields, procs, funcs of the operand's class and ancestors, each name
                     once (nearest spelling); elsewhere: params + locals + visible constants

Shapes beyond the plain ones (all inside the guard `WellFormedWs` of the theorems):

* a uses list may name entities that have no file in the workspace (`Ghost`), at any position — they
  declare nothing, the rule skips them and goes on with the next used entity;
* methods without a body (`proc P(a : T) external 'lib'`, `func F(i : T) return T forward`) in classes
  and modules: their parameters are visible nowhere else; other methods complete at statement starts /
  after dots and refer to names that only such a parameter carries (unresolvable there);
* a dangling `x.` in the middle of a body is followed by any kind of line: a keyword statement (`exit`,
  an `if` block), or a line that starts with an identifier (assignment, call, chain, possibly after an
  empty line).  Line ends separate nothing in Gold: `x.⏎name = 1` IS `x.name = 1`, so the identifiers of
  such a line are expected to resolve as the chain's next members (`continuation`), and a position
  between the dot and that name is a position after the dot.

* a name may be declared TWICE in one scope (w-scope4): a method announced by `proc X(...) forward` (once or twice) and defined
  further down in the same class or module, a method an ancestor only announces and a descendant defines, a field / constant
  declared twice, a local declared twice, a local named like a parameter — also in another letter case and (fields, locals)
  with another type.  The table of a scope holds a name once, its LATEST declaration: that one is the target of
  go-to-definition (one link per class of the chain), its spelling is the label, the name is offered once;
* `const` / `type` / `var` statements between the statements of a method body: they are the METHOD's — visible (go to
  definition, statement-start proposals: constants and variables, not types) in that method, also above their line, and
  in no other method of the class or of a descendant; a constant of the body may be named like a constant of the class
  chain (the method's is nearer).  Chains start only at variables declared above them (eval types are computed
  during the walk).

Every query carries `tags`: the scenario it exercises.  Tags that name a known deviation of the
implementation become part of the oracle signature, so that a recorded finding never hides an
unrelated failure.
"""

KEYWORDS = ["class", "module", "uses", "const", "type", "proc", "endproc", "func", "endfunc", "return", "var",
            "if", "endif", "else", "while", "endwhile", "refto", "exit", "override", "private", "inout", "break", "continue"]
NATIVES = ["int4", "cstring", "boolean", "num8", "int1", "text"]
FIELD_POOL = ["fAlpha", "fBeta", "fGamma", "fDelta", "fCount", "fNext", "fOwner", "fItem"]
METHOD_POOL = ["Init", "Update", "GetNext", "GetOwner", "Compute", "Reset", "Find", "Make"]
CONST_POOL = ["cMax", "cMin", "cName", "cLimit"]
TYPE_POOL = ["tRef", "tNum", "tLink", "tOwner"]
LOCAL_POOL = ["lTmp", "lCur", "lObj", "lIdx", "lRes"]
PARAM_POOL = ["pArg", "pSrc", "pDst", "pN"]
# declarations written as statements INSIDE a method body (`const`, `type`, `var` between the statements): they belong to
# that method.  Names of their own (the same pools in every method: another method's `cStep` is another declaration)
BODY_CONST_POOL = ["cStep", "cLocal", "cTmp"]
BODY_TYPE_POOL = ["tLocal", "tTmp", "tHere"]
BODY_VAR_POOL = ["lLate", "lMid", "lEnd"]
# parameters of body-less methods (`external '…'` / `forward`) also draw from these, so that a name that
# only such a method declares exists in most documents that have one
BODYLESS_PARAM_POOL = ["pFreq", "pDur", "pIdx", "pHandle"]
# entities a uses list may name although the workspace has no file for them (a library without
# source, a misspelt name): they declare nothing
GHOST_POOL = ["wSysLib", "aMissing", "wExtern", "aK9x"]
# keywords the parser also accepts as identifiers (`parse_ident_token`): as names of parameters (the only declarations
# that take them) and in expressions
KWID_POOL = ["type", "from", "order", "top", "by", "into"]
# type names nothing declares (a variable of such a type has no class: nothing after its dot)
UNRES_TYPE_POOL = ["tNowhere", "aNoSuchClass"]
# intrinsics: (name, call) — their results have no class
INTRINSICS = ["writeln", "concat", "write"]


def recase(rng, s, mode=None):
    mode = rng.below(5) if mode is None else mode
    if mode == 0:
        return s
    if mode == 1:
        return s.upper()
    if mode == 2:
        return s.lower()
    if mode == 3:
        return "".join(c.upper() if i % 2 == 0 else c.lower() for i, c in enumerate(s))
    return "".join(c.upper() if rng.below(2) else c.lower() for c in s)


class Decl:
    def __init__(self, name, kind, owner, ty=None):
        self.name, self.kind, self.owner, self.ty = name, kind, owner, ty   # ty: ('native', n) | ('class', Entity) | ('refto', Entity) | ('alias', Decl) | None
        self.sel = None   # (line, col, endcol) once rendered
        self.method = None
        self.late = False # declared by a statement in the middle of the method body (`const` / `type` / `var`)
        self.redecl = False   # a second declaration of a name in the same scope (the latest one counts)
        self.like = None  # "entity" | "keyword" | "method": the name is spelt like a class / module of the workspace, is a
                          # keyword the parser takes as identifier, is the name of a method of the class chain

    def key(self):
        return self.name.upper()

    def target(self):
        l, c, e = self.sel
        return "%s@%d:%d-%d:%d" % (self.owner.name, l, c, l, e)


class Entity:
    def __init__(self, name, kind):
        self.name, self.kind = name, kind
        self.parent = None
        self.uses = []            # the used entities that exist (what the rules look at)
        self.uses_written = []    # the uses list as written: entities and ghosts
        self.consts, self.types, self.fields, self.methods = [], [], [], []
        self.header = Decl(name, "class" if kind == "class" else "module", self)

    def members(self):
        return self.consts + self.types + self.fields + [m.decl for m in self.methods]

    def chain(self):
        out, e = [], self
        while e is not None and e not in out:
            out.append(e)
            e = e.parent
        return out

    def find(self, key, kinds=None):
        """declaration of `key` in this entity (header and `self` count as the entity's own type)"""
        if key == self.name.upper() or (key == "SELF" and self.kind == "class"):
            if kinds is None or "type" in kinds:
                return self.header
        # a name declared twice in one entity (forward declaration + definition, a duplicate) is the LATEST declaration
        for d in reversed(self.members()):
            if d.key() == key:
                return d if (kinds is None or d.kind in kinds) else None
        return None

    def own_members(self):
        """fields and methods of this entity, each name once: its latest declaration (declaration order)"""
        last = {}
        for d in self.fields + [m.decl for m in self.methods]:
            last[d.key()] = d
        return [d for d in self.fields + [m.decl for m in self.methods] if last[d.key()] is d]


class Ghost:
    """an entry of a uses list that names no file of the workspace"""
    kind = "ghost"

    def __init__(self, name):
        self.name = name


class Method:
    def __init__(self, decl):
        self.decl = decl
        self.params, self.locals, self.stmts = [], [], []
        self.untyped = set()
        self.bodyless = None      # None | "external" | "forward": declared without a body


def class_of(ty):
    """the entity a value of declared type `ty` belongs to (None: no members)"""
    if ty is None:
        return None
    if ty[0] in ("class", "refto"):
        return ty[1]
    if ty[0] == "alias":
        return class_of(ty[1].ty)
    if ty[0] == "module":
        return ty[1]
    return None


class Gen:
    """one workspace"""

    def __init__(self, rng, wid, deviations=(), recase_refs=True, recase_kw=True, size=None):
        self.r = rng
        self.id = wid
        self.dev = set(deviations)        # scenarios outside the agreed domain that may be generated
        self.recase_refs = recase_refs
        self.recase_kw = recase_kw
        self.entities = []
        self.queries = []
        self.size = size
        self.refmode = None               # forced casing mode of references (C17 variants)
        self.kwmode = None
        self.cr = type(rng)(rng.next() & 0xFFFFFFFF)   # casing decisions have their own stream: the structure
                                                       # of a workspace does not depend on how it is re-cased

    # ---- abstract workspace -------------------------------------------------------------
    def build(self):
        r = self.r
        ncls = self.size or (2 + r.below(6))
        nmod = r.below(3)
        classes = [Entity("aK%d" % i, "class") for i in range(ncls)]
        mods = [Entity("wM%d" % i, "module") for i in range(nmod)]
        # forest, depth <= 4 (root = depth 1)
        depth = {}
        for i, c in enumerate(classes):
            cands = [p for p in classes[:i] if depth[p] < 4]
            if cands and r.chance(3, 4):
                c.parent = r.choice(cands)
                depth[c] = depth[c.parent] + 1
            else:
                depth[c] = 1
        self.entities = classes + mods
        r.shuffle(self.entities)
        order = mods + sorted(classes, key=lambda c: depth[c])
        for c in classes:
            others = [e for e in self.entities if e is not c]
            r.shuffle(others)
            c.uses = others[:r.below(4)]
            c.uses_written = list(c.uses)
            if r.chance(1, 2):
                # names of entities that do not exist, anywhere in the list (also first, also twice)
                for g in [r.choice(GHOST_POOL) for _ in range(1 + r.below(2))]:
                    c.uses_written.insert(r.below(len(c.uses_written) + 1), Ghost(g))
        # phase 1: constants and types of every entity (what a later type reference resolves to must
        # not change afterwards); phase 2: fields and methods, ancestors first (overriding)
        for e in order:
            self.fill_consts_types(e, classes)
        for e in order:
            self.fill_members(e, classes, mods)
        for e in self.entities:
            for m in e.methods:
                self.fill_method(e, m, classes, mods)
        return self

    def taken(self, e):
        """names (folded) that may not be re-declared with another kind along e's chain or in e"""
        return {d.key(): d.kind for a in e.chain() for d in a.members()}

    def pick_name(self, e, pool, kind):
        """a name for a new member of `e`: fresh, or overriding an ancestor's member of the same kind
        (possibly spelled in another letter case)"""
        r = self.r
        own = {d.key() for d in e.members()}
        inherited = self.taken(e)
        groups = {"field": "field", "proc": "method", "func": "method", "const": "const", "type": "type"}
        cands = []
        for n in pool:
            k = n.upper()
            if k in own:
                continue
            if k in inherited and groups[inherited[k]] != groups[kind]:
                continue
            cands.append(n)
        if not cands:
            return None
        over = [n for n in cands if n.upper() in inherited]
        if over and r.chance(1, 2):
            n = r.choice(over)
            return recase(r, n) if r.chance(1, 2) else n
        return r.choice(cands)

    def pick_type(self, e, classes, allow_alias=True, other_than=None):
        """`other_than`: name a variable carries — its type is never the entity of that name (a variable spelt like
        an entity is interesting because it is NOT of that entity's type)"""
        r = self.r
        if other_than is not None:
            classes = [c for c in classes if c.name.upper() != other_than.upper()] or classes
        c = r.below(11)
        if c == 10:
            # a type name nothing declares, or the name of an entity without a file.  The implementation looks for such
            # a name in every used entity, i.e. analyses them at that moment: only where that cannot meet a half-built
            # table (the class uses modules only — entities that depend on nothing; see the assumption on alias types)
            if all(u.kind == "module" for u in e.uses):
                return ("unres", r.choice(UNRES_TYPE_POOL + GHOST_POOL))
            c = r.below(10)
        if c < 3 or not classes:
            return ("native", r.choice(NATIVES))
        if c < 7:
            return ("class", r.choice(classes))
        if c < 8:
            return ("refto", r.choice(classes))
        if allow_alias:
            al = self.visible_types(e)
            if al:
                return ("alias", r.choice(al))
        return ("class", r.choice(classes))

    def visible_types(self, e):
        """type declarations reachable from `e` by the plain rule (own chain, then used modules)"""
        out = [d for a in e.chain() for d in a.types]
        for u in e.uses:
            if u.kind == "module":
                out += u.types
        # only those the plain rule really resolves to (not hidden by a nearer declaration)
        return [d for d in out if self.resolve_plain(e, None, d.key()) == [d]]

    def fill_consts_types(self, e, classes):
        r = self.r
        for _ in range(r.below(3)):
            n = self.pick_name(e, CONST_POOL, "const")
            if n:
                e.consts.append(Decl(n, "const", e, ("native", "int4")))
        if e.consts and r.chance(1, 8):
            # the same constant declared twice (any letter case): offered once, the later declaration is the one that counts
            self.redeclare(e.consts, r.choice(e.consts))
        for _ in range(r.below(3)):
            n = self.pick_name(e, TYPE_POOL, "type")
            if n:
                k = r.below(3)
                ty = ("native", r.choice(NATIVES)) if k == 0 or not classes else (("class", r.choice(classes)) if k == 1 else ("refto", r.choice(classes)))
                e.types.append(Decl(n, "type", e, ty))

    def fill_members(self, e, classes, mods):
        r = self.r
        for _ in range(1 + r.below(4)):
            n = self.pick_name(e, FIELD_POOL, "field")
            if n:
                e.fields.append(Decl(n, "field", e, self.pick_type(e, classes)))
        if r.chance(1, 4):
            # a field spelt like a class / module of the workspace (any letter case) that is no relative of this
            # entity: it is a variable of its declared type, not the entity
            declared = {d.key() for a in e.chain() for d in a.members()}
            # … and whoever sees the members of `e` by the plain rule (its descendants, the entities that use it or a
            # descendant) does not list that entity in a uses list: what a uses ENTRY is when a variable of that name
            # is visible is not settled by the property (see notes/C10.md, discrepancies)
            seers = [y for y in self.entities if e in y.chain() or any(e in z.chain() for z in y.uses)]
            cands = [x for x in self.entities if x not in e.chain() and e not in x.chain() and x.name.upper() not in declared
                     and not any(x in y.uses for y in seers)]
            if cands:
                x = r.choice(cands)
                d = Decl(recase(r, x.name) if r.chance(1, 2) else x.name, "field", e, self.pick_type(e, classes, other_than=x.name))
                d.like = "entity"
                e.fields.insert(r.below(len(e.fields) + 1), d)
        for _ in range(1 + r.below(4)):
            kind = "func" if r.chance(1, 2) else "proc"
            n = self.pick_name(e, METHOD_POOL, kind)
            if n:
                d = Decl(n, kind, e, self.pick_type(e, classes) if kind == "func" else None)
                if kind == "func" and d.ty[0] == "refto":
                    d.ty = ("class", d.ty[1])      # `return` takes a basic type
                mm = Method(d)
                if r.chance(1, 5):
                    mm.bodyless = "external" if r.chance(1, 2) else "forward"
                e.methods.append(mm)
        # a method an ancestor only announces (`forward`) is defined here
        announced = [mm.decl for a in e.chain()[1:] for mm in a.methods if mm.bodyless == "forward"
                     and not any(x.decl.key() == mm.decl.key() for x in e.methods)
                     and self.resolve_member(e, mm.decl.key())[:1] == [mm.decl]]
        if announced and r.chance(1, 2):
            a = r.choice(announced)
            # same kind; the announced return type where its text means the same here (an alias / undeclared type name
            # is looked up from the class that writes it)
            ty = a.ty
            if ty is not None and ty[0] not in ("native", "class"):
                ty = self.pick_type(e, classes)
                if ty[0] == "refto":
                    ty = ("class", ty[1])
            d = Decl(recase(r, a.name) if r.chance(1, 3) else a.name, a.kind, e, ty)
            e.methods.insert(r.below(len(e.methods) + 1), Method(d))
        if r.chance(1, 6):
            # a field declared twice (the second declaration possibly with another type / in another letter case)
            plain = [f for f in e.fields if not f.like]
            if plain:
                f = self.redeclare(e.fields, r.choice(plain))
                f.ty = self.pick_type(e, classes)
        if e.methods and r.chance(1, 3):
            # a method announced by a forward declaration (sometimes two) and defined further down: the SAME name sits
            # twice in the entity's table.  Kind and return type agree, the parameters are the announcement's own.
            tgt = r.choice(e.methods)
            for _ in range(2 if r.chance(1, 4) else 1):
                at = r.below(e.methods.index(tgt) + 1)
                d = Decl(recase(r, tgt.decl.name) if r.chance(1, 3) else tgt.decl.name, tgt.decl.kind, e, tgt.decl.ty)
                d.redecl = True
                fw = Method(d)
                fw.bodyless = "forward"
                e.methods.insert(at, fw)
            tgt.decl.redecl = True

    def redeclare(self, lst, d):
        """declare `d`'s name once more in the same list, somewhere behind `d`"""
        r = self.r
        d2 = Decl(recase(r, d.name) if r.chance(1, 3) else d.name, d.kind, d.owner, d.ty)
        d2.method, d2.redecl = d.method, True
        d.redecl = True
        lst.insert(lst.index(d) + 1 + r.below(len(lst) - lst.index(d)), d2)
        return d2

    def fill_method(self, e, m, classes, mods):
        r = self.r
        used = set()

        def local_name(pool):
            cands = [n for n in pool if n.upper() not in used]
            # shadowing: a local / parameter named like a member visible in the class
            members = [d.name for a in e.chain() for d in a.fields + a.consts]
            if members and r.chance(1, 4):
                cands2 = [n for n in members if n.upper() not in used]
                if cands2:
                    n = r.choice(cands2)
                    return recase(r, n) if r.chance(1, 3) else n
            c = r.below(16)
            if c < 3:
                # spelt like a class / module of the workspace (the own class, a relative, a used or any other entity),
                # in any letter case
                cands2 = [x.name for x in self.entities if x.name.upper() not in used]
                if cands2:
                    n = r.choice(cands2)
                    like[0] = "entity"
                    return recase(r, n) if r.chance(1, 2) else n
            elif c < 4:
                # named like a method of the class or of an ancestor
                cands2 = [mm.decl.name for a in e.chain() for mm in a.methods if mm.decl.name.upper() not in used]
                if cands2:
                    n = r.choice(cands2)
                    like[0] = "method"
                    return recase(r, n) if r.chance(1, 3) else n
            elif c < 5 and pool is not LOCAL_POOL:
                # a keyword that is also an identifier (parameters only: `var` and fields take plain identifiers)
                cands2 = [n for n in KWID_POOL if n.upper() not in used]
                if cands2:
                    n = r.choice(cands2)
                    like[0] = "keyword"
                    return recase(r, n) if r.chance(1, 3) else n
            return r.choice(cands) if cands else None

        like = [None]
        nparams = (1 + r.below(3)) if m.bodyless else r.below(3)
        for _ in range(nparams):
            like[0] = None
            n = local_name(PARAM_POOL + BODYLESS_PARAM_POOL if m.bodyless else PARAM_POOL)
            if n:
                used.add(n.upper())
                d = Decl(n, "param", e, self.pick_type(e, classes, other_than=n))
                d.method = m
                d.like = like[0]
                if r.chance(1, 8):
                    d.ty = None
                    m.untyped.add(d)
                m.params.append(d)
        for _ in range(0 if m.bodyless else r.below(4)):
            like[0] = None
            n = local_name(LOCAL_POOL)
            if n:
                used.add(n.upper())
                d = Decl(n, "local", e, self.pick_type(e, classes, other_than=n))
                d.method = m
                d.like = like[0]
                m.locals.append(d)
        if m.bodyless:
            return
        if r.chance(1, 5):
            # a name declared twice in the method: a local declared twice, or a local named like a parameter
            plain = [d for d in m.params + m.locals if not d.like and d not in m.untyped]
            if plain:
                d = r.choice(plain)
                d2 = Decl(recase(r, d.name) if r.chance(1, 3) else d.name, "local", e, self.pick_type(e, classes, other_than=d.name))
                d2.method, d2.redecl = m, True
                d.redecl = True
                lo = m.locals.index(d) + 1 if d in m.locals else 0
                m.locals.insert(lo + r.below(len(m.locals) - lo + 1), d2)
        # declarations written between the statements of the body: constants, types, variables of the METHOD
        # (m.locals = all of them in textual order: the variables of the leading `var` block, then these)
        if r.chance(1, 2):
            for _ in range(1 + r.below(3)):
                k = r.below(3)
                if k == 0:
                    pool, kind = BODY_CONST_POOL, "const"
                    # now and then named like a constant of the class chain (same kind: the method's own one is nearer)
                    cc = [c.name for a in e.chain() for c in a.consts]
                    if cc and r.chance(1, 4):
                        pool = cc
                elif k == 1:
                    pool, kind = BODY_TYPE_POOL, "type"
                else:
                    pool, kind = BODY_VAR_POOL, "local"
                cands = [n for n in pool if n.upper() not in used]
                if not cands:
                    continue
                n = r.choice(cands)
                used.add(n.upper())
                if kind == "const":
                    ty = ("native", "int4")
                elif kind == "type":
                    j = r.below(3)
                    ty = ("native", r.choice(NATIVES)) if j == 0 or not classes else (("class", r.choice(classes)) if j == 1 else ("refto", r.choice(classes)))
                else:
                    # a variable of a type the body declared before it, or of any other type
                    lt = [x for x in m.locals if x.late and x.kind == "type"]
                    ty = ("alias", r.choice(lt)) if lt and r.chance(1, 2) else self.pick_type(e, classes, other_than=n)
                d = Decl(n, kind, e, ty)
                d.method, d.late = m, True
                m.locals.append(d)

    # ---- the property's rules ---------------------------------------------------------------
    NONVAR = ("const", "type", "proc", "func")

    def resolve_plain(self, e, m, key, novars=False):
        """[declaration] selected for a plain identifier, or [].  `novars`: the name stands in TYPE position (type
        reference): parameters, locals and fields are no candidates there — a variable is not a type"""
        kinds = self.NONVAR if novars else None
        if m is not None:
            # the latest declaration of the name in the method (parameters, `var`, and the `const` / `type` of its body)
            for d in reversed(m.params + m.locals):
                if d.key() == key:
                    if not novars or d.kind in self.NONVAR:
                        return [d]
                    break
        for a in e.chain():
            d = a.find(key, kinds)
            if d is not None:
                return [d]
        uses = e.uses
        for u in uses:
            for a in u.chain():
                d = a.find(key, kinds=("const", "type"))
                if d is not None:
                    return [d]
                if a.find(key, kinds) is not None:
                    break    # hidden by a nearer non-const/type declaration of the used entity
            else:
                continue
            # a member that is neither constant nor type: the rule does not select it; keep looking
        return []

    def ghost_tags(self, e, exp):
        """scenario tags of a plain reference that the rule resolves through the uses list"""
        if not exp or exp[0].method is not None or exp[0].owner in e.chain():
            return set()
        seen_ghost = False
        for u in (e.uses_written or e.uses):
            if u.kind == "ghost":
                seen_ghost = True
            elif exp[0].owner in u.chain():
                return {"via-uses", "uses-after-ghost"} if seen_ghost else {"via-uses"}
        return set()

    def bodyless_params(self, e):
        """names that parameters of body-less methods carry, in the class' chain and in what it uses"""
        ents = list(e.chain()) + [a for u in e.uses for a in u.chain()]
        return [p.name for a in ents for mm in a.methods if mm.bodyless for p in mm.params]

    def uses_member_hit(self, e, m, key):
        """True when the implementation's uses search would hit a declaration the rule does not select"""
        if self.resolve_plain(e, m, key):
            first = self.resolve_plain(e, m, key)[0]
            own = (m is not None and any(d.key() == key for d in m.params + m.locals)) or any(a.find(key) for a in e.chain())
            if own:
                return False
        for u in e.uses:
            for a in u.chain():
                d = a.find(key)
                if d is not None:
                    return d.kind not in ("const", "type", "class", "module")
        return False

    def resolve_member(self, ent, key):
        """every declaration of member `key` along ent's chain, nearest first"""
        out = []
        for a in ent.chain():
            for d in a.own_members():      # a name declared twice in one entity: its latest declaration
                if d.key() == key:
                    out.append(d)
        return out

    def visible_members(self, ent):
        seen, out = set(), []
        for a in ent.chain():
            for d in a.own_members():
                if d.key() not in seen:
                    seen.add(d.key())
                    out.append(d.name)
        return sorted(out)

    def visible_plain(self, e, m):
        seen, out = set(), []
        for d in m.params + m.locals:
            if d.key() in seen:
                out = [x for x in out if x.upper() != d.key()]
            seen.add(d.key())
            if d.kind != "type":      # variables and constants are offered; a type declared in the body only hides
                out.append(d.name)
        for a in e.chain():
            own = {}
            for d in a.members():
                own[d.key()] = d
            if a.kind == "class":
                own.setdefault("SELF", a.header)
            own.setdefault(a.name.upper(), a.header)
            for k, d in own.items():
                if k not in seen:
                    seen.add(k)
                    if d.kind == "const":
                        out.append(d.name)
        return sorted(out)

    # ---- rendering ----------------------------------------------------------------------------
    def kw(self, s):
        if not self.recase_kw:
            return s
        if self.kwmode is not None:
            return recase(self.cr, s, self.kwmode)
        return recase(self.cr, s) if self.cr.chance(1, 3) else s

    def ref(self, s):
        if not self.recase_refs:
            return s
        if self.refmode is not None:
            return recase(self.cr, s, self.refmode)
        return recase(self.cr, s) if self.cr.chance(1, 3) else s

    def render(self):
        self.files = []
        self.queries = []
        for fi, e in enumerate(self.entities):
            self.cur_file = fi
            self.lines = []
            self.render_entity(e)
            self.files.append((e.name, "\n".join(self.lines) + "\n"))
        return self

    def q(self, kind, line, col, expect, tags, what):
        self.queries.append({"f": self.cur_file, "kind": kind, "line": line, "col": col, "expect": expect,
                             "tags": sorted(tags), "what": what})

    def qdef(self, line, col, length, decls, tags, what):
        """definition query somewhere on a token [col, col+length]"""
        off = self.r.below(length + 1) if self.r.chance(1, 4) else self.r.below(max(1, length))
        self.q("d", line, col + off, list(decls), tags, what)

    class Line:
        def __init__(self, g, indent=0):
            self.g = g
            self.s = " " * indent
            self.pending = []   # callbacks run once the line number is known

        def add(self, text):
            self.s += text
            return self

        def col(self):
            return len(self.s)

        def emit(self):
            ln = len(self.g.lines)
            self.g.lines.append(self.s)
            for f in self.pending:
                f(ln)
            return ln

    def type_text(self, L, e, m, ty, tags=()):
        """write a type reference and queue its definition query"""
        if ty[0] == "native":
            L.add(self.ref(ty[1]))
            return
        if ty[0] == "unres":
            txt = self.ref(ty[1])
            col = L.col()
            L.add(txt)
            exp = self.resolve_plain(e, m, ty[1].upper())
            t = set(tags) | {"typeref", "unresolved-type"} | ({"unresolvable"} if not exp else set()) | ({"recased"} if txt != ty[1] else set())
            L.pending.append(lambda ln, col=col, n=len(txt), exp=exp, t=t, name=ty[1]: self.qdef(ln, col, n, exp, t, "type reference " + name + " (nothing declares it)"))
            return
        if ty[0] == "refto":
            L.add(self.kw("refto") + " ")
        name = ty[1].name
        txt = self.ref(name)
        col = L.col()
        L.add(txt)
        exp = self.resolve_plain(e, m, name.upper(), novars=True)
        t = set(tags) | {"typeref"} | self.ghost_tags(e, exp)
        if txt != name:
            t.add("recased")
        if self.resolve_plain(e, m, name.upper()) != exp:
            # a parameter / local / field spelt like the type is visible: the implementation answers with that variable
            # (recorded finding C10:…:typeref-shadowed; the node's eval type IS the class)
            if "typeref-shadowed" not in self.dev:
                return
            t.add("typeref-shadowed")
        if self.uses_member_hit(e, m, name.upper()):
            # a used entity declares a FIELD of that name (a field spelt like an entity): the recorded uses-member deviation
            if "uses-member" not in self.dev:
                return
            t.add("uses-member")
        L.pending.append(lambda ln, col=col, n=len(txt), exp=exp, t=t, name=name: self.qdef(ln, col, n, exp, t, "type reference " + name))

    def render_entity(self, e):
        r = self.r
        L = self.Line(self)
        L.add(self.kw("class" if e.kind == "class" else "module") + " ")
        col = L.col()
        L.add(e.name)
        e.header.sel = (len(self.lines), col, col + len(e.name))
        if e.parent is not None:
            L.add("(") if r.chance(1, 2) else L.add(" (")
            txt = self.ref(e.parent.name)
            pcol = L.col()
            L.add(txt + ")")
            par = e.parent
            L.pending.append(lambda ln, pcol=pcol, n=len(txt), par=par: self.qdef(ln, pcol, n, [par.header], {"parentref"}, "parent class " + par.name))
        L.emit()
        self.lines.append("")
        written = e.uses_written or e.uses
        if written:
            L = self.Line(self)
            L.add(self.kw("uses") + " ")
            for i, u in enumerate(written):
                if i:
                    L.add(", ")
                txt = self.ref(u.name)
                ucol = L.col()
                L.add(txt)
                if u.kind == "ghost":
                    # names no file: nothing to go to
                    L.pending.append(lambda ln, ucol=ucol, n=len(txt), u=u: self.qdef(ln, ucol, n, [], {"uses-entry", "ghost"}, "uses entry " + u.name + " (no such entity)"))
                else:
                    L.pending.append(lambda ln, ucol=ucol, n=len(txt), u=u: self.qdef(ln, ucol, n, [u.header], {"uses-entry"}, "uses entry " + u.name))
            L.emit()
            self.lines.append("")
        for d in e.consts:
            L = self.Line(self)
            L.add(self.kw("const") + " ")
            d.sel = (len(self.lines), L.col(), L.col() + len(d.name))
            L.add(d.name + " = " + str(1 + r.below(90)))
            L.emit()
        for d in e.types:
            L = self.Line(self)
            L.add(self.kw("type") + " ")
            d.sel = (len(self.lines), L.col(), L.col() + len(d.name))
            L.add(d.name + " : ")
            self.type_text(L, e, None, d.ty)
            L.emit()
        for d in e.fields:
            L = self.Line(self)
            if r.chance(1, 6):
                # a `memory` field is a field like any other: same visibility, same resolution
                L.add(self.kw("memory") + " ")
                self.count("memory-field") if hasattr(self, "count") else None
            d.sel = (len(self.lines), L.col(), L.col() + len(d.name))
            L.add(d.name + " : ")
            self.type_text(L, e, None, d.ty)
            over = len(self.resolve_member(e, d.key())) > 1
            if over and r.chance(1, 2):
                L.add(" " + self.kw("override"))
            L.emit()
        self.lines.append("")
        # own declared names of fields (queries need every selection range, so they are queued at the end)
        for m in e.methods:
            self.render_method(e, m)
            self.lines.append("")

    def finish_own_names(self):
        """own declared names of fields and methods: all declarations along the chain, nearest first"""
        for fi, e in enumerate(self.entities):
            self.cur_file = fi
            for d in e.fields + [m.decl for m in e.methods]:
                l, c, ec = d.sel
                self.qdef(l, c, ec - c, self.resolve_member(e, d.key()), {"own-name", "own-" + ("field" if d.kind == "field" else "method")} | self.decl_tags(d), "own declared name " + d.name)

    # ---- method bodies ---------------------------------------------------------------------------
    def render_method(self, e, m):
        r = self.r
        d = m.decl
        self.m_index = e.methods.index(m)
        L = self.Line(self)
        L.add(self.kw("proc" if d.kind == "proc" else "func") + " ")
        d.sel = (len(self.lines), L.col(), L.col() + len(d.name))
        L.add(d.name)
        if m.params:
            L.add("(")
            for i, p in enumerate(m.params):
                if i:
                    L.add(", ")
                if r.chance(1, 6):
                    L.add(self.kw("inout") + " ")
                p.sel = (len(self.lines), L.col(), L.col() + len(p.name))
                L.add(p.name)
                if p.ty is not None:
                    L.add(" : ") if r.chance(1, 2) else L.add(": ")
                    self.type_text(L, e, m, p.ty)
            L.add(")")
        if d.kind == "func":
            L.add(" " + self.kw("return") + " ")
            self.type_text(L, e, m, d.ty, tags={"rettype"})
        over = len(self.resolve_member(e, d.key())) > 1 and r.chance(1, 2)
        if m.bodyless:
            # no body, no end keyword: the declaration ends with the modifiers
            mod = self.kw("external") + " 'lib%d.%s'" % (r.below(9), d.name) if m.bodyless == "external" else self.kw("forward")
            mods = [mod] + ([self.kw("override")] if over else [])
            if r.chance(1, 2):
                mods.reverse()
            L.add(" " + " ".join(mods))
            L.emit()
            return
        if over:
            L.add(" " + self.kw("override"))
        L.emit()
        # what the method's table holds while a statement is walked: a chain may only start at a variable that is
        # declared above it (eval types are computed during the walk)
        self.live = {id(v) for v in m.params + m.locals if not v.late}
        for v in m.locals:
            if not v.late:
                self.local_decl(e, m, v, start_query=False)
        late = [v for v in m.locals if v.late]
        for _ in range(2 + r.below(5)):
            while late and r.chance(1, 2):
                self.local_decl(e, m, late.pop(0))
            self.statement(e, m, 3, 0)
        while late:
            self.local_decl(e, m, late.pop(0))
            if late or r.chance(1, 2):
                self.statement(e, m, 3, 0)
        if r.chance(1, 3):
            self.dangling(e, m, 3, last=True)
        self.lines.append(self.kw("endproc" if d.kind == "proc" else "endfunc"))

    def local_decl(self, e, m, v, start_query=True):
        """a `var` / `const` / `type` line of a method body"""
        L = self.Line(self, 3)
        if start_query:
            self.stmt_start_query(e, m, L, {"decl-line"})
        L.add(self.kw({"local": "var", "const": "const", "type": "type"}[v.kind]) + " ")
        v.sel = (len(self.lines), L.col(), L.col() + len(v.name))
        if v.kind == "const":
            L.add(v.name + " = " + str(1 + self.r.below(90)))
        else:
            L.add(v.name + " : ")
            self.type_text(L, e, m, v.ty)
        L.emit()
        self.live.add(id(v))

    def not_yet(self, e, near):
        """the method `near` of the class under annotation `e` is declared below the method whose body is being walked,
        and nothing above announces it (a forward declaration of that name: same kind, same return type, stands in)"""
        mm = self.method_of(e, near)
        if mm is None or e.methods.index(mm) <= self.m_index:
            return False
        return not any(x.decl.key() == near.key() for x in e.methods[:self.m_index + 1])

    def shadowed(self, e, m, ent, key=None):
        """member lookups in the request's own class go through the method scope in the implementation:
        a local / parameter named like a member interferes (scenario `shadow-self`)"""
        if ent is not e or m is None:
            return False
        loc = {x.key() for x in m.params + m.locals}
        if key is not None:
            return key in loc
        return any(d.key() in loc for a in e.chain() for d in a.fields + [mm.decl for mm in a.methods])

    def starts(self, e, m):
        """first elements of a chain: (name, type, expected, tags, is function, deviations of its eval type)"""
        out = []
        if e.kind == "class":
            out.append(("self", ("class", e), [e.header], {"self"}, False, set()))
        for d in m.params + m.locals:
            if d.kind in ("param", "local") and id(d) in self.live and self.resolve_plain(e, m, d.key()) == [d]:
                t = {"local"} | self.like_tags(d) | self.decl_tags(d)
                if any(a.find(d.key()) for a in e.chain()):
                    t.add("shadowing")
                out.append((d.name, d.ty, [d], t, False, set()))
        for a in e.chain():
            for f in a.fields:
                if self.resolve_plain(e, m, f.key()) == [f]:
                    out.append((f.name, f.ty, [f], {"member" if a is e else "inherited"} | self.like_tags(f) | self.decl_tags(f), False, set()))
            for mm in a.methods:
                if mm.decl.kind == "func" and self.resolve_plain(e, m, mm.decl.key()) == [mm.decl]:
                    bad = {"forward"} if (a is e and self.not_yet(e, mm.decl)) else set()
                    out.append((mm.decl.name, mm.decl.ty, [mm.decl], {"member" if a is e else "inherited", "call"} | self.decl_tags(mm.decl), True, bad))
        for u in e.uses:
            if u.kind == "module" and self.resolve_plain(e, m, u.name.upper()) == [u.header]:
                out.append((u.name, ("module", u), [u.header], {"module"}, False, set()))
        return out

    LIKE_TAGS = {"entity": "entity-named", "keyword": "kw-named", "method": "method-named"}

    def like_tags(self, d):
        return {self.LIKE_TAGS[d.like]} if getattr(d, "like", None) else set()

    def decl_tags(self, d):
        """scenario tags of a reference that the rule resolves to `d`"""
        t = set()
        if d.redecl:
            t.add("redeclared")          # the name is declared more than once in that scope: `d` is the latest
        if d.late:
            t.add("body-decl")           # declared by a statement inside the method body
        return t

    def classless_starts(self, e, m):
        """first elements of a chain that have no class at all: names nothing declares (also keywords used as
        identifiers, names of entities without a file), procedures, intrinsics"""
        out = []
        names = ["zzNothing", "qUnknown"] + KWID_POOL[:3] + [u.name for u in e.uses_written if u.kind == "ghost"]
        for n in names:
            if not self.resolve_plain(e, m, n.upper()) and not self.uses_member_hit(e, m, n.upper()):
                out.append((n, None, [], {"unresolvable"}, False, set()))
        for a in e.chain():
            for mm in a.methods:
                if mm.decl.kind == "proc" and self.resolve_plain(e, m, mm.decl.key()) == [mm.decl]:
                    # declared further down in the class under annotation: not in its table yet when the call is typed
                    bad = {"forward"} if (a is e and self.not_yet(e, mm.decl)) else set()
                    out.append((mm.decl.name, None, [mm.decl], {"member" if a is e else "inherited", "call", "proc-result"} | self.decl_tags(mm.decl), True, bad))
        for n in INTRINSICS:
            if not self.resolve_plain(e, m, n.upper()) and not self.uses_member_hit(e, m, n.upper()):
                out.append((n, None, [], {"intrinsic", "call", "unresolvable"}, True, set()))
        return out

    def chain(self, e, m, maxlen=3, want_entity=False):
        """a dotted chain: list of elements {name, exp, tags, call, ty, ctx, bad}; `bad` = deviations
        that affect the element's eval type (hence everything after the next dot)"""
        r = self.r
        st = self.starts(e, m)
        if want_entity:
            st = [s for s in st if class_of(s[1]) is not None]
        elif r.chance(1, 8):
            st = self.classless_starts(e, m) or st
        if not st:
            return None
        # variables spelt like an entity / a keyword / a method are rare among the candidates: prefer them now and then
        special = [s for s in st if s[3] & {"entity-named", "kw-named", "method-named"}]
        name, ty, exp, tags, isfunc, bad = r.choice(special) if special and r.chance(1, 3) else r.choice(st)
        elems = [{"name": name, "exp": exp, "tags": set(tags), "call": isfunc, "ty": ty, "ctx": "left", "bad": set(bad)}]
        n = 1 + r.below(maxlen)
        for i in range(1, n):
            prev = elems[-1]
            ent = class_of(prev["ty"])
            if ent is None:
                # an operand of native / unknown type: whatever is written after its dot resolves to nothing
                if want_entity or not r.chance(1, 2):
                    break
                own = [f.name for a in e.chain() for f in a.fields] + [mm.decl.name for a in e.chain() for mm in a.methods]
                nm = r.choice(own) if own and r.chance(1, 2) else r.choice(FIELD_POOL + METHOD_POOL + KWID_POOL[:3])
                elems.append(self.member_elem(e, m, prev, nm, i, r.chance(1, 4)))
                continue
            cands = [f for a in ent.chain() for f in a.fields] + [mm.decl for a in ent.chain() for mm in a.methods]
            if not cands:
                break
            d = r.choice(cands)
            near = self.resolve_member(ent, d.key())[0]
            call = near.kind in ("proc", "func") and r.chance(2, 3)
            elems.append(self.member_elem(e, m, prev, near.name, i, call))
        return elems

    def member_elem(self, e, m, prev, name, i, call):
        """the chain element `name` written after a dot whose left operand is the element `prev`, by the rule for
        a name after a dot: every declaration of the member in the operand's class and its ancestors, nearest
        first; the element has the nearest declaration's type.  No such member / operand without a class:
        nothing, and nothing for whatever follows."""
        ent = class_of(prev["ty"])
        t = {"dotted"} | prev["bad"]
        bad = set(prev["bad"])
        if i >= 2:
            t.add("chained")
        decls = self.resolve_member(ent, name.upper()) if ent is not None else []
        t |= self.operand_tags(prev)
        if not decls:
            t.add("unknown-operand" if ent is None else "no-such-member")
            return {"name": name, "exp": [], "tags": t, "call": call, "ty": None, "ctx": "right", "bad": bad}
        near = decls[0]
        if len(decls) > 1:
            t.add("overridden")
        if prev["ty"][0] == "module":
            t.add("module-member")
        if prev["ty"][0] == "alias":
            t.add("alias")
        if self.shadowed(e, m, ent, near.key()):
            t.add("shadow-self")
            bad.add("shadow-self")
        # the class under annotation shows only the methods declared so far, also to lookups that
        # reach it through a descendant's chain
        if near.kind in ("func", "proc") and near.owner is e and self.not_yet(e, near):
            bad.add("forward")
        t |= self.decl_tags(near)
        if call and prev["ty"][0] == "module":
            bad.add("modcall")
        nty = near.ty if near.kind in ("field", "func") else None
        return {"name": name, "exp": decls, "tags": t, "call": call, "ty": nty, "ctx": "right", "bad": bad}

    def operand_tags(self, left):
        """scenario tags a position after a dot inherits from its left operand"""
        t = set()
        if left["tags"] & {"entity-named", "after-entity-named"}:
            t.add("after-entity-named")
        if left["tags"] & {"kw-named", "method-named"}:
            t.add("after-odd-named")
        ty = left["ty"]
        if ty is None:
            t.add("operand-untyped")          # untyped parameter, procedure, intrinsic, a name nothing declares, no such member
        elif class_of(ty) is None:
            t.add("operand-" + ty[0])         # native, unres, alias (of a native type)
        return t

    def method_of(self, e, decl):
        for mm in e.methods:
            if mm.decl is decl:
                return mm
        return None

    # scenarios generated only on demand (recorded findings).  `modcall` and `shadow-self` were deviations until the
    # implementation was repaired; they are ordinary shapes now (the tags stay, as scenario names)
    DEVS = ("forward",)

    def allowed(self, elems):
        for el in elems:
            for t in el["tags"] | el["bad"]:
                if t in self.DEVS and t not in self.dev:
                    return False
        return True

    def pick_chain(self, e, m, maxlen=3, want_entity=False, want_classless=False):
        """`want_entity`: the chain's value has a class (members exist after its dot); `want_classless`: it has
        none (native / unresolved type, untyped, unresolvable, procedure, intrinsic, no such member)"""
        for _ in range(12 if want_classless else 8):
            elems = self.chain(e, m, maxlen, want_entity)
            if not elems or not self.allowed(elems):
                continue
            has = class_of(elems[-1]["ty"]) is not None
            if (want_entity and not has) or (want_classless and has):
                continue
            return elems
        return None

    def pick_operand(self, e, m):
        """the chain left of a dangling / partial dot: one in three has no class"""
        elems = None
        if self.r.chance(1, 3):
            elems = self.pick_chain(e, m, maxlen=2, want_classless=True)
        return elems or self.pick_chain(e, m, maxlen=2, want_entity=True)

    def write_chain(self, L, e, m, elems):
        """write the chain, queue one definition query per element and one completion query per dot"""
        for i, el in enumerate(elems):
            if i:
                L.add(".")
                self.dot_query(L, e, m, elems[i - 1], {"complete"})
            self.write_elem(L, e, m, el)

    def write_elem(self, L, e, m, el):
        txt = self.ref(el["name"])
        col = L.col()
        L.add(txt)
        if el["call"]:
            L.add("(")
            for k in range(self.r.below(3)):
                if k:
                    L.add(", ")
                self.plain_ref(L, e, m)
            L.add(")")
        tags = set(el["tags"]) | {el["ctx"]}
        if txt != el["name"]:
            tags.add("recased")
        L.pending.append(lambda ln, col=col, n=len(txt), el=el, tags=tags: self.qdef(ln, col, n, el["exp"], tags, "chain element " + el["name"]))

    def dot_query(self, L, e, m, left, tags, width=0):
        """completion right after a dot whose left operand is `left` (position anywhere in [col, col+width])"""
        ent = class_of(left["ty"])
        exp = self.visible_members(ent) if ent is not None else []
        tags = {"dot"} | set(tags) | left["bad"] | self.operand_tags(left)
        if left["ty"] is not None and left["ty"][0] in ("module", "alias"):
            tags.add(left["ty"][0])
        if ent is None:
            tags.add("unknown-operand")
        if ent is not None and self.shadowed(e, m, ent):
            tags.add("shadow-self")
        if ent is not None and any(d.redecl for a in ent.chain() for d in a.fields + [x.decl for x in a.methods]):
            tags.add("redeclared-member")      # a member name sits twice in a table of the operand's chain
        if any(t in self.DEVS and t not in self.dev for t in tags):
            return
        col = L.col()
        L.pending.append(lambda ln, col=col, exp=exp, tags=tags, width=width: self.q("c", ln, col + self.r.below(width + 1), exp, tags, "after dot"))

    def plain_ref(self, L, e, m, literal_ok=True):
        """a plain identifier (or literal) with its definition query: a local / parameter / field / constant (also
        one spelt like an entity, a keyword, a method), a constant of a used entity, an entity's name, a name only a
        body-less method's parameter carries, a name nothing declares (also a keyword that is an identifier)"""
        r = self.r
        c = r.below(10)
        if c < 2 and literal_ok:
            L.add(str(r.below(100)))
            return
        blp = self.bodyless_params(e)
        special = [d.name for d in m.params + m.locals if d.like] + [f.name for a in e.chain() for f in a.fields if f.like]
        tags = set()
        if c < 3:
            name = r.choice(["zzNothing", "qUnknown", "lMissing"] + [u.name for u in e.uses_written if u.kind == "ghost"] + KWID_POOL[:3])
        elif blp and r.chance(1, 6):
            # a name a parameter of a body-less method carries: visible in no other method (it resolves
            # only when this method, the class chain or a used entity declares the name too)
            name = r.choice(blp)
            tags = {"bodyless-param"}
        elif special and r.chance(1, 4):
            name = r.choice(special)
        elif self.other_method_names(e, m) and r.chance(1, 5):
            # a constant / type / variable that ANOTHER method of the class chain declares in its body, or declares twice:
            # it is that method's (resolves here only when this method, the class chain or a used entity declares the name too)
            name = r.choice(self.other_method_names(e, m))
            tags = {"other-method-decl"}
        elif r.chance(1, 12):
            # the name of a class / module: the entity when it is an ancestor or used and no variable hides it
            name = r.choice(self.entities).name
            tags = {"entity-name"}
        else:
            cands = []
            for d in m.params + m.locals:
                cands.append((d.name, set()))
            for a in e.chain():
                for d in a.fields + a.consts:
                    cands.append((d.name, set()))
            for u in e.uses:
                for a in u.chain():
                    for d in a.consts:
                        cands.append((d.name, {"uses-const"}))
                    if "uses-member" in self.dev:
                        for d in a.fields:
                            cands.append((d.name, {"uses-field"}))
            name, tags = r.choice(cands) if cands else ("zzNothing", set())
            tags = set(tags)
        exp = self.resolve_plain(e, m, name.upper())
        if self.uses_member_hit(e, m, name.upper()):
            if "uses-member" not in self.dev:
                name, exp, tags = "zzNothing", [], set()
            else:
                tags.add("uses-member")
        tags |= self.plain_tags(e, m, name, exp)
        txt = self.ref(name)
        col = L.col()
        L.add(txt)
        tags = tags | {"plain"} | self.ghost_tags(e, exp)
        if txt != name:
            tags.add("recased")
        L.pending.append(lambda ln, col=col, n=len(txt), exp=exp, tags=tags, name=name: self.qdef(ln, col, n, exp, tags, "plain identifier " + name))

    def other_method_names(self, e, m):
        return [d.name for a in e.chain() for mm in a.methods if mm is not m for d in mm.locals if d.late or d.redecl]

    def plain_tags(self, e, m, name, exp):
        """scenario tags of a plain reference `name` that the rule resolves to `exp`"""
        if not exp:
            return {"unresolvable"}
        d = exp[0]
        t = self.like_tags(d) | self.decl_tags(d)
        if d.method is not None:
            t.add("local")
            if any(a.find(name.upper()) for a in e.chain()):
                t.add("shadowing")
        elif d.kind in ("class", "module"):
            t.add("entity")
        elif d.owner in e.chain():
            t.add("member" if d.owner is e else "inherited")
        return t

    def stmt_start_query(self, e, m, L, tags=()):
        col = L.col()
        exp = self.visible_plain(e, m)
        tags = {"stmt-start"} | set(tags)
        if any(d.redecl for d in m.params + m.locals) or any(d.redecl for a in e.chain() for d in a.consts):
            tags.add("redeclared-name")        # a parameter / local / constant declared twice is in sight
        if any(d.late for d in m.locals):
            tags.add("body-decl")
        if any(d.late for a in e.chain() for mm in a.methods if mm is not m for d in mm.locals):
            tags.add("other-method-body-decl") # another method of the class chain declares names in its body
        L.pending.append(lambda ln, col=col, exp=exp, tags=tags: self.q("c", ln, col, exp, tags, "statement start"))

    def statement(self, e, m, indent, depth, force=None, start_query=True):
        r = self.r
        c = r.below(14) if force is None else force
        L = self.Line(self, indent)
        if start_query:
            self.stmt_start_query(e, m, L)
        if c < 5:
            elems = self.pick_chain(e, m)
            if not elems:
                return self.plain_stmt(L, e, m)
            self.write_chain(L, e, m, elems)
            if r.chance(1, 3) and not elems[-1]["call"]:
                L.add(" = ")
                self.plain_ref(L, e, m)
            L.emit()
        elif c < 7:
            self.plain_stmt(L, e, m)
        elif c < 8:
            L.add(self.ref("writeln") + "(")
            self.plain_ref(L, e, m)
            L.add(")")
            L.emit()
        elif c < 9 and depth < 2:
            L.add(self.kw("if") + " ")
            self.plain_ref(L, e, m)
            L.add(" = ")
            self.plain_ref(L, e, m)
            L.emit()
            for _ in range(1 + r.below(2)):
                self.statement(e, m, indent + 3, depth + 1)
            if r.chance(1, 3):
                self.lines.append(" " * indent + self.kw("else"))
                self.statement(e, m, indent + 3, depth + 1)
            self.lines.append(" " * indent + self.kw("endif"))
        elif c == 13 and depth < 2:
            L.add(self.kw("while") + " ")
            self.plain_ref(L, e, m)
            L.add(" < ")
            self.plain_ref(L, e, m)
            L.emit()
            for _ in range(1 + r.below(2)):
                self.statement(e, m, indent + 3, depth + 1)
            self.lines.append(" " * indent + self.kw("endwhile"))
        elif c == 13:
            self.plain_stmt(L, e, m)
        elif c < 10:
            # partial member name after a dot
            elems = self.pick_operand(e, m)
            if not elems:
                return self.plain_stmt(L, e, m)
            self.write_chain(L, e, m, elems)
            L.add(".")
            ent = class_of(elems[-1]["ty"])
            vis = self.visible_members(ent) if ent is not None else []
            if ent is None and r.chance(1, 2):
                vis = [f.name for a in e.chain() for f in a.fields]      # a prefix of a name that exists elsewhere
            pre = (r.choice(vis)[:1 + r.below(3)] if vis and r.chance(3, 4) else "zq")
            if pre.upper() in [v.upper() for v in vis]:
                pre = pre + "Zq"
            if pre.upper() in ("IN", "IS", "OR", "AND", "NOT", "TO", "AS", "IF", "OF", "ON") or pre.lower() in KEYWORDS:
                # `x.In` (of `Init`) is `x.` + the OPERATOR `in`: the following line would become its right operand (a `type`
                # declaration on it — `type` is also an identifier — was swallowed: thorough tier, w1638)
                pre = pre[:1]
            if r.chance(1, 8):
                # the letters typed so far spell a keyword that can neither continue the expression nor start a statement
                # (`item.To` on the way to `item.Total`): still a partial member name — the members of the operand's class
                pre = r.choice(["to", "To", "TO", "of", "Of", "step", "Step", "downto", "DownTo"])
            self.dot_query(L, e, m, elems[-1], {"partial"}, width=len(pre))
            col = L.col()
            L.add(pre)
            if True:
                L.pending.append(lambda ln, col=col: self.q("d", ln, col, [], {"partial", "unresolvable", "right"}, "partial member name"))
            L.emit()
        elif c < 11:
            L.emit()      # blank line: statement start with nothing on it
        elif c < 12:
            # dangling dot in the middle of a body, followed by any kind of line
            left = self.dangling(e, m, indent, last=False)
            if left:
                self.after_dangling(e, m, indent, depth, left)
        else:
            self.plain_stmt(L, e, m)

    def plain_stmt(self, L, e, m):
        r = self.r
        if r.chance(1, 3):
            # the nearest declaration of every method name of the chain; when a local / parameter carries the name the
            # rule selects that variable (scenario `method-named`)
            cands = []
            for a in e.chain():
                for mm in a.methods:
                    exp = self.resolve_plain(e, m, mm.decl.key())
                    if exp and (exp == [mm.decl] or exp[0].kind in ("param", "local")):
                        cands.append((mm.decl, exp))
            if cands:
                d, exp = r.choice(cands)
                txt = self.ref(d.name)
                col = L.col()
                L.add(txt + "(")
                for k in range(r.below(3)):
                    if k:
                        L.add(", ")
                    self.plain_ref(L, e, m)
                L.add(")")
                tags = {"plain", "call"} | self.plain_tags(e, m, d.name, exp)
                if txt != d.name:
                    tags.add("recased")
                L.pending.append(lambda ln, col=col, n=len(txt), d=d, exp=exp, tags=tags: self.qdef(ln, col, n, exp, tags, "plain call " + d.name))
                L.emit()
                return
        self.plain_ref(L, e, m, literal_ok=False)
        L.add(" = ")
        self.plain_ref(L, e, m)
        L.emit()

    def dangling(self, e, m, indent, last):
        """`x.` with nothing after the dot (the line the user is typing); -> the element left of the dot"""
        elems = self.pick_operand(e, m)
        if not elems:
            return None
        L = self.Line(self, indent)
        self.stmt_start_query(e, m, L)
        self.write_chain(L, e, m, elems)
        L.add(".")
        self.dot_query(L, e, m, elems[-1], {"dangling", "dangling-last" if last else "dangling-mid"})
        L.emit()
        elems[-1]["depth"] = len(elems)
        return elems[-1]

    def after_dangling(self, e, m, indent, depth, left):
        """the line that follows a dangling `x.` in the middle of a body.  A keyword cannot be an operand: the
        dot keeps an empty right operand (no statement-start position is queried on that keyword: for the
        parser it still lies inside the dot expression).  An identifier can: the line continues the chain."""
        r = self.r
        k = r.below(8)
        if k == 0:
            self.lines.append(" " * indent + self.kw("exit"))
        elif k == 1 and depth < 2:
            self.statement(e, m, indent, depth, force=8, start_query=False)      # an `if` block
        elif k == 6 and depth < 2:
            self.statement(e, m, indent, depth, force=13, start_query=False)     # a `while` block
        elif k == 7:
            j = r.below(3)
            if j < 2:
                self.lines.append(" " * indent + self.kw(("break", "continue")[j]))
            else:
                L = self.Line(self, indent)
                L.add(self.kw("return") + " ")
                self.plain_ref(L, e, m)
                L.emit()
        else:
            gap = (k == 5)
            if not self.continuation(e, m, indent, left, r.below(3), gap):
                self.lines.append(" " * indent + self.kw("exit"))

    def member_safe(self, ent, key):
        """`key` after a dot on an operand of class `ent` is a field / method name or nothing at all (constants,
        types, `self` and entity names after a dot are outside the generator's domain)"""
        if ent is None:
            return True       # an operand without a class has no members at all: any name resolves to nothing
        for a in ent.chain():
            d = a.find(key)
            if d is not None and d.kind not in ("field", "proc", "func"):
                return False
        return True

    def continuation(self, e, m, indent, left, form, gap):
        """`x.` ⏎ `name …`: line ends separate nothing, so this IS `x.name …` — the first identifier of the line
        is the member `name` of x's class (all its declarations along the chain; usually there is none and the
        answer is empty), what follows it after further dots goes on from that member's type, and a position
        between the dot and the name (start of the line, an empty line in between) is a position after the dot.
        form 0: `name = ref`, 1: `name(args)`, 2: `name.member… [= ref]`"""
        r = self.r
        ent = class_of(left["ty"])
        own_fields = [f.name for a in e.chain() for f in a.fields]
        own_methods = [mm.decl.name for a in e.chain() for mm in a.methods]
        ent_fields = [f.name for a in ent.chain() for f in a.fields] if ent is not None else []
        ent_methods = [mm.decl.name for a in ent.chain() for mm in a.methods] if ent is not None else []
        if form == 1:
            names = own_methods + ent_methods + ["writeln", "WriteLn"]
        else:
            names = [d.name for d in m.params + m.locals] + own_fields + ent_fields + ["zzNothing"]
            if form == 2:
                names += ["self"] + [u.name for u in e.uses if u.kind == "module"]      # `self.x = 1`, `wM0.Find()` as next line
        names = [n for n in names if self.member_safe(ent, n.upper())]
        if not names:
            return False
        depth0 = left.get("depth", 1)
        name = r.choice(names)
        decls = self.resolve_member(ent, name.upper()) if ent is not None else []
        is_method = bool(decls) and decls[0].kind in ("proc", "func")
        call = (form == 1) or (form == 2 and is_method and r.chance(2, 3))
        elems = [self.member_elem(e, m, left, name, depth0, call)]
        if form == 2:
            for j in range(1 + r.below(2)):
                prev = elems[-1]
                nent = class_of(prev["ty"])
                if nent is not None:
                    cands = [f for a in nent.chain() for f in a.fields] + [mm.decl for a in nent.chain() for mm in a.methods]
                    if not cands:
                        break
                    near = self.resolve_member(nent, r.choice(cands).key())[0]
                    nm, ncall = near.name, near.kind in ("proc", "func") and r.chance(2, 3)
                else:
                    nm, ncall = r.choice(FIELD_POOL + METHOD_POOL), r.chance(1, 4)
                elems.append(self.member_elem(e, m, prev, nm, depth0 + 1 + j, ncall))
        for el in elems:
            el["tags"].add("continued")
        if not self.allowed(elems):
            return False
        if gap:
            # an empty line between the dot and the name: still after the dot
            G = self.Line(self, indent)
            self.dot_query(G, e, m, left, {"dangling", "continued-gap"})
            G.emit()
        L = self.Line(self, indent)
        # start of the line = start of the member name after the dot
        self.dot_query(L, e, m, left, {"dangling", "continued-start"}, width=0)
        for i, el in enumerate(elems):
            if i:
                L.add(".")
                self.dot_query(L, e, m, elems[i - 1], {"complete", "continued"})
            self.write_elem(L, e, m, el)
        if form == 0 or (form == 2 and not elems[-1]["call"] and r.chance(1, 2)):
            L.add(" = ")
            self.plain_ref(L, e, m)
        L.emit()
        return True

def generate(rng, wid, deviations=(), recase_refs=True, recase_kw=True, size=None):
    g = Gen(rng, wid, deviations, recase_refs, recase_kw, size).build().render()
    g.finish_own_names()
    for q in g.queries:
        if q["kind"] == "d":
            q["expect"] = [d.target() for d in q["expect"]]
    return g


MODES = {"as-written": 0, "upper": 1, "lower": 2, "alternating": 3, "random": 4}


def generate_variants(rng, wid, modes=("as-written", "upper", "lower", "alternating", "random"), deviations=(), size=None):
    """the SAME workspace rendered once per casing mode of its keywords and references (declarations
    as written): [(mode, files, queries)]; positions and expectations are identical in all variants"""
    g = Gen(rng, wid, deviations, True, True, size).build()
    snap = rng.s
    out = []
    for mode in modes:
        rng.s = snap
        g.refmode = g.kwmode = MODES[mode]
        g.cr = type(rng)(0xC17 + MODES[mode])
        g.render()
        g.finish_own_names()
        for q in g.queries:
            if q["kind"] == "d":
                q["expect"] = [d.target() for d in q["expect"]]
        out.append((mode, list(g.files), list(g.queries)))
    return out
