"""G-TOKS: token-sequence generators for the parser correspondences (wire form of harness/src/dump.rs)."""
import itertools

from ..core import esc

# kind -> a representative lexeme
LEX = {
    "Identifier": "x", "NumericLiteral": "1", "StringLiteral": "s", "Proc": "proc", "EndProc": "endproc", "End": "end",
    "Func": "func", "EndFunc": "endfunc", "Return": "return", "If": "if", "EndIf": "endif", "Else": "else",
    "ElseIf": "elseif", "OBracket": "(", "CBracket": ")", "OSqrBracket": "[", "CSqrBracket": "]", "Comma": ",",
    "Dot": ".", "Equals": "=", "Plus": "+", "Minus": "-", "Asterisk": "*", "Var": "var", "Colon": ":",
    "Comment": ";c", "Class": "class", "Module": "module", "Uses": "uses", "Const": "const", "Type": "type",
    "For": "for", "EndFor": "endfor", "To": "to", "While": "while", "EndWhile": "endwhile", "Loop": "loop",
    "EndLoop": "endloop", "Repeat": "repeat", "Until": "until", "Switch": "switch", "When": "when",
    "EndWhen": "endwhen", "EndSwitch": "endswitch", "ForEach": "foreach", "In": "in", "And": "and", "Or": "or",
    "Not": "not", "Increment": "++", "Forward": "forward", "External": "external", "Override": "override",
    "Private": "private", "RefTo": "refto", "Record": "record", "EndRecord": "endrecord", "Pound": "#",
    "OQL": "oql", "Select": "select", "From": "from", "Where": "where", "Fetch": "fetch", "Into": "into",
    "Using": "using", "Step": "step", "DownTo": "downto", "Absolute": "absolute", "Memory": "memory",
    "Inherited": "inherited", "Exit": "exit", "Nil": "nil", "BooleanTrue": "true", "LessThan": "<",
    "Array": "array", "Of": "of", "InstanceOf": "instanceof", "Inverse": "inverse", "ListOf": "listof",
    "MultiLang": "multilang", "Top": "top", "Distinct": "distinct", "Order": "order", "By": "by",
    "Descending": "descending", "Break": "break", "Continue": "continue", "Sequence": "sequence",
    "Modulus": "%", "Divide": "/", "BAnd": "band", "BOr": "bor", "LeftShift": "<<", "Like": "like",
    "Xor": "xor", "DeepAssign": ":=", "IncrementAssign": "+=", "Decrement": "--", "AddressOf": "@",
    "StringConcat": "&", "Conditional": "conditional", "AllVersionsOf": "allversionsof", "Protected": "protected",
    "Final": "final", "BNot": "bnot",
}

ALPHA16 = ["Identifier", "NumericLiteral", "Proc", "EndProc", "End", "If", "EndIf", "Else", "OBracket", "CBracket",
           "Comma", "Dot", "Equals", "Plus", "Var", "Colon"]


def line_of(kinds, values=None, per_line=6):
    """wire line for a kind sequence: tokens laid out left to right, `per_line` per source line"""
    out = ["parse"]
    col = 0
    line = 0
    for i, k in enumerate(kinds):
        v = values[i] if values else LEX.get(k, k.lower())
        if i and i % per_line == 0:
            line += 1
            col = 0
        out.append("%s:%s:%d:%d:%d:%d" % (k, esc(v), line, col, line, col + len(v)))
        col += len(v) + 1
    return " ".join(out)


def exhaustive(alpha, maxlen, prefix=(), suffix=()):
    for L in range(0, maxlen + 1):
        for seq in itertools.product(alpha, repeat=L):
            yield list(prefix) + list(seq) + list(suffix)
