"""G-PROG/WF: grammar-directed generator of WELL-FORMED Gold programs that emits the text
together with the tree the grammar prescribes (kind, name, children — the C06 oracle).

An abstract node is (kind, ident, [children]).  `Emit` turns the abstract program into tokens
(strings) and the expected tree at the same time; layout (newlines, indentation, comments
between statements, letter case of keywords) is chosen at random afterwards and does not
influence the expected tree (comments become `comment` nodes where the grammar keeps them).
"""

LEVELS = [
    ["*", "/", "%"],
    ["+", "-", "&", "&&"],
    ["bAnd"],
    ["bOr", "bXor"],
    ["<<", ">>"],
    ["=", "<>", "<", "<=", ">", ">=", "in", "like"],
    ["and"],
    ["or", "xor"],
]
KEYWORDS = {"band", "bor", "bxor", "in", "like", "and", "or", "xor", "not", "bnot", "inherited", "if", "elseif", "else", "endif",
            "for", "to", "downto", "step", "endfor", "foreach", "using", "while", "endwhile", "loop", "endloop", "switch",
            "when", "endwhen", "endswitch", "repeat", "until", "var", "return", "exit", "break", "continue", "const", "type",
            "class", "module", "uses", "proc", "endproc", "func", "endfunc", "refto", "listof", "inverse", "record",
            "endrecord", "array", "sequence", "of", "instanceof", "private", "protected", "final", "override", "forward",
            "external", "memory", "absolute", "oql", "select", "from", "where", "order", "by", "descending", "fetch", "into",
            "top", "distinct", "true", "false", "nil", "inout", "multilang", "conditional", "allversionsof", "phantomstoo"}


# literals / comments holding multi-byte characters (3- and 4-byte code points, 2-byte letters): many more bytes than characters
WIDE_STRINGS = ["'漢漢漢漢'", "'😀😀😀'", "'ééééééé'", "'漢 字 😀'", "'ß'", "'x漢y'"]
COMMENTS = ["; a comment\n", "; a comment\n", "; 漢漢漢 コメント 😀\n", ";é\n"]
TOP_COMMENTS = ["; top comment\n", "; top comment\n", "; 見出し 漢漢漢漢\n"]


def N(kind, ident, kids=()):
    return (kind, ident, list(kids))


class Emit:
    def __init__(self, rng):
        self.r = rng
        self.k = 0

    # ---- names ---------------------------------------------------------------------------
    def name(self, p="v"):
        return "%s%d" % (p, self.r.below(7))

    def lit(self):
        c = self.r.below(5)
        if c == 0:
            v = str(self.r.below(100))
            return [v], N("terminal", v)
        if c == 1:
            # string literals also with multi-byte characters: columns count CHARACTERS, the literal must not reach over
            # the operator / operand that follows it on the line (the lexer once ended it at start + length in BYTES)
            if self.r.chance(1, 3):
                return [self.r.choice(WIDE_STRINGS)], N("terminal", "s%d" % 0)
            return ["'s%d'" % self.r.below(9)], N("terminal", "s%d" % 0)   # ident fixed up by caller (string value)
        if c == 2:
            return ["true"], N("terminal", "true")
        if c == 3:
            return ["false"], N("terminal", "false")
        return ["nil"], N("terminal", "nil")

    def literal(self):
        t, n = self.lit()
        if t[0].startswith("'"):
            n = N("terminal", t[0][1:-1])
        return t, n

    # ---- expressions -----------------------------------------------------------------------
    def dot_op(self, d):
        c = self.r.below(6)
        if c == 0 and d > 0:
            nm = self.name("m")
            toks, kids = [nm, "("], []
            for i in range(self.r.below(3)):
                if i:
                    toks.append(",")
                t, n = self.expr(d - 1)
                toks += t
                kids.append(n)
            return toks + [")"], N("method_call", nm, kids)
        if c == 1 and d > 0:
            nm = self.name("a")
            t, n = self.expr(d - 1)
            return [nm, "["] + t + ["]"], N("array_access", nm, [N("terminal", nm), n])
        nm = self.name()
        return [nm], N("terminal", nm)

    def dot_ops(self, d):
        t, n = self.dot_op(d)
        for _ in range(self.r.below(3) if self.r.chance(1, 2) else 0):
            t2, n2 = self.dot_op(d)
            t, n = t + ["."] + t2, N("bin_op", ".", [n, n2])
        return t, n

    def primary(self, d):
        c = self.r.below(10)
        if c == 0 and d > 0:
            t, n = self.expr(d - 1)
            return ["("] + t + [")"], n
        if c == 1 and d > 0:
            op = self.r.choice(["not", "bNot", "@", "inherited", "-"])
            t, n = self.primary(d - 1)
            return [op] + t, N("unary_op", op, [n])
        if c == 2:
            t, n = self.dot_ops(d)
            op = self.r.choice(["++", "--"])
            return t + [op], N("unary_op", op, [n])
        if c == 3:
            return self.literal()
        if c == 4 and d > 0:
            toks, kids = ["["], []
            for i in range(self.r.below(3)):
                if i:
                    toks.append(",")
                t, n = self.primary(d - 1)
                toks += t
                kids.append(n)
            return toks + ["]"], N("set_literal", "set_literal", kids)
        return self.dot_ops(d)

    def level(self, lv, d, force=None):
        if lv < 0:
            return self.primary(d)
        t, n = self.level(lv - 1, d)
        k = 0
        while d > 0 and k < 3 and self.r.chance(1, 4):
            op = self.r.choice(LEVELS[lv])
            t2, n2 = self.level(lv - 1, d - 1)
            t, n = t + [op] + t2, N("bin_op", op, [n, n2])
            k += 1
        return t, n

    def expr(self, d):
        return self.level(len(LEVELS) - 1, d)

    # ---- types --------------------------------------------------------------------------------
    def tbasic(self):
        nm = self.r.choice(["int", "tFoo", "aBar", "Text", "tVarByteArray", "cstring", "boolean"])
        return [nm], N("type_basic", nm)

    def params(self, d):
        toks, kids = ["("], []
        for i in range(self.r.below(4)):
            if i:
                toks.append(",")
            if self.r.chance(1, 3):
                toks.append(self.r.choice(["const", "var", "inout"]))
            nm = self.name("p") if not self.r.chance(1, 10) else self.r.choice(["top", "order", "into", "from", "by", "where"])
            toks.append(nm)
            if self.r.chance(3, 4):
                t, n = self.type_(max(d - 1, 0))
                toks += [":"] + t
                kids.append(N("param_decl", nm, [n]))
            else:
                kids.append(N("param_decl", nm, []))
        return toks + [")"], N("param_decl_list", "param_decls", kids)

    def type_(self, d):
        c = self.r.below(13) if d > 0 else self.r.below(3)
        if c == 0:
            return self.tbasic()
        if c == 1:
            return ["cstring", "(", "10", ")"], N("type_sized", "cstring")
        if c == 2:
            toks = [self.r.choice(["refTo", "listOf"])]
            if self.r.chance(1, 2):
                toks += ["[", "P"] + ([",", "A"] if self.r.chance(1, 2) else []) + ["]"]
            toks += ["aBar"]
            if self.r.chance(1, 3):
                toks += ["inverse", self.name("f")]
            return toks, N("type_ref", "aBar")
        if c == 3:
            a, b = self.name("e"), self.name("e")
            return ["(", a, ",", b, ")"], N("type_enum", "type_enum", [N("enum_member", a), N("enum_member", b)])
        if c == 4:
            return ["1", "to", "9"], N("type_range", "type_range", [N("terminal", "1"), N("terminal", "9")])
        if c == 5:
            t, n = self.tbasic()
            return ["["] + t + ["]"], N("type_set", n[1], [n])
        if c == 6:
            toks, kids = ["record"], []
            if self.r.chance(1, 3):
                toks += ["(", "tBase", ")"]
                kids.append(N("terminal", "tBase"))
            for _ in range(self.r.below(3)):
                nm = self.name("f")
                t, n = self.type_(d - 1)
                toks += [nm, ":"] + t
                kids.append(N("type_record_field", nm, [n]))
            return toks + ["endRecord"], N("type_record", "type_record", kids)
        if c == 7:
            t, n = self.tbasic()
            return ["."] + t, N("type_pointer", "type_pointer", [n])
        if c == 8:
            toks = [self.r.choice(["array", "sequence"]), "["]
            if self.r.chance(1, 2):
                t, n = self.tbasic()
            else:
                t, n = ["1", "to", "9"], N("type_range", "type_range", [N("terminal", "1"), N("terminal", "9")])
            toks += t + ["]"]
            kids = [n]
            if self.r.chance(1, 3):
                t, n = self.tbasic()
                toks += ["["] + t + ["]"]
                kids.append(n)
            t, n = self.tbasic()
            return toks + ["of"] + t, N("type_array", "type_array", kids + [n])
        if c == 9:
            if self.r.chance(1, 2):
                t, n = self.params(d - 1)
                return ["proc"] + t, N("type_proc", "type_proc", [n])
            return ["proc"], N("type_proc", "type_proc", [])
        if c == 10:
            kids, toks = [], ["func"]
            if self.r.chance(1, 2):
                t, n = self.params(d - 1)
                toks += t
                kids.append(n)
            t, n = self.tbasic()
            return toks + ["return"] + t, N("type_func", "type_func", kids + [n])
        if c == 11:
            t, n = self.tbasic()
            return ["instanceOf"] + t, N("type_instanceof", n[1], [n])
        a = self.name("e")
        t, n = self.tbasic()
        return t + ["+", "(", a, ")"], N("bin_op", "+", [n, N("type_enum", "type_enum", [N("enum_member", a)])])

    # ---- statements ------------------------------------------------------------------------------
    def block(self, d, n=None):
        toks, kids = [], []
        for _ in range(self.r.below(4) if n is None else n):
            t, k = self.stmt(d)
            toks += ["\n"] + t
            kids.append(k)
        return toks + ["\n"], kids

    def cond_block(self, cond, stmts):
        return N("cond_block", "cond_block", ([cond] if cond else []) + stmts)

    def oql(self, d):
        if self.r.chance(1, 3):
            t, n = self.dot_ops(0)
            toks, kids = ["OQL", "fetch", "into"] + t, [n]
            if self.r.chance(1, 2):
                t, n = self.dot_ops(0)
                toks += [","] + t
                kids.append(n)
            if self.r.chance(1, 2):
                u = self.name("c")
                toks += ["using", u]
                kids.append(N("terminal", u))
            return toks, N("oql_fetch", "oql_fetch", kids)
        toks, kids = ["OQL", "select"], []
        if self.r.chance(1, 4):
            toks += ["top", "5"]
            kids.append(N("terminal", "5"))
        if self.r.chance(1, 4):
            toks += ["distinct"]
        c = self.r.below(3)
        if c == 0:
            toks += ["*"]
            kids.append(N("terminal", "*"))
        elif c == 1:
            nm = self.name("m")
            toks += [nm, "(", "*", ")"]
            kids.append(N("method_call", nm, [N("terminal", "*")]))
        else:
            t, n = self.dot_ops(0)
            toks += t
            kids.append(n)
        alias, src = self.name("x"), self.name("a")
        toks += ["from"]
        if self.r.chance(1, 4):
            toks += ["conditional"]
        toks += [alias, "in", src]
        if self.r.chance(1, 3):
            toks += ["++"]
        fkids = [N("terminal", src)]
        if self.r.chance(1, 4):
            t, n = self.level(5, 0)
            toks += ["outerJoinOn"] + t
            fkids.append(N("oql_join_node", "outerJoinOn", [n]))
        kids.append(N("oql_from_node", alias, fkids))
        if self.r.chance(1, 2):
            t, n = self.expr(d)
            toks += ["where"] + t
            kids.append(n)
        if self.r.chance(1, 3):
            t, n = self.dot_ops(0)
            toks += ["order", "by"] + t
            if self.r.chance(1, 2):
                toks += ["descending"]
            kids.append(N("oql_order_by_node", "oql_order_by_node", [n]))
        if self.r.chance(1, 3):
            u = self.name("c")
            toks += ["using", u]
            kids.append(N("terminal", u))
        return toks, N("oql_select", "oql_select", kids)

    def stmt(self, d):
        c = self.r.below(18) if d > 0 else 8 + self.r.below(10)
        if c == 0:
            t, cond = self.expr(d - 1)
            b, ks = self.block(d - 1)
            toks = ["if"] + t + b
            blocks = [self.cond_block(cond, ks)]
            for _ in range(self.r.below(2)):
                t, cond = self.expr(d - 1)
                b, ks = self.block(d - 1)
                toks += ["elseif"] + t + b
                blocks.append(self.cond_block(cond, ks))
            if self.r.chance(1, 2):
                b, ks = self.block(d - 1)
                toks += ["else"] + b
                blocks.append(self.cond_block(None, ks))
            return toks + ["endIf"], N("if", "if", blocks)
        if c == 1:
            i = self.name("i")
            t1, a = self.expr(0)
            op = self.r.choice(["to", "downto"])
            t2, b = self.expr(0)
            toks, kids = ["for", i, "="] + t1 + [op] + t2, [N("bin_op", op, [a, b])]
            if self.r.chance(1, 3):
                t, s = self.expr(0)
                toks += ["step"] + t
                kids.append(s)
            b, ks = self.block(d - 1)
            return toks + b + ["endFor"], N("for", "for", kids + ks)
        if c == 2:
            v = self.name("c")
            t, src = self.dot_ops(0)
            toks, kids = ["forEach", v, "in"] + t, [N("bin_op", "in", [N("terminal", v), src])]
            if self.r.chance(1, 4):
                toks += ["downto"]
            if self.r.chance(1, 3):
                u = self.name("u")
                toks += ["using", u]
                kids.append(N("terminal", u))
            b, ks = self.block(d - 1)
            return toks + b + ["endFor"], N("foreach", "foreach", kids + ks)
        if c == 3:
            t, cond = self.expr(d - 1)
            b, ks = self.block(d - 1)
            return ["while"] + t + b + ["endWhile"], N("while", "while", [self.cond_block(cond, ks)])
        if c == 4:
            b, ks = self.block(d - 1)
            return ["loop"] + b + ["endLoop"], N("loop", "loop", ks)
        if c == 5:
            t, e = self.expr(0)
            toks, kids = ["switch"] + t, [e]
            lc = lambda: (["\n", self.r.choice(COMMENTS)] if self.r.chance(1, 4) else [])   # a comment line in front of a block keyword
            for _ in range(self.r.below(3)):
                toks += lc() + ["\n", "when"]
                if self.r.chance(1, 3):
                    toks += ["1", "to", "5"]
                    w = N("bin_op", "to", [N("terminal", "1"), N("terminal", "5")])
                else:
                    t, l = self.literal()
                    toks += t
                    items = [l]
                    if self.r.chance(1, 2):
                        nm = self.name("c")
                        toks += [",", nm]
                        items.append(N("terminal", nm))
                    w = N("set_literal", "set_literal", items)
                b, ks = self.block(d - 1)
                toks += b + ["endWhen"]
                kids.append(N("when", "when_block", [w] + ks))
            if self.r.chance(1, 2):
                b, ks = self.block(d - 1)
                toks += lc() + ["\n", "else"] + b
                kids.append(N("when", "when_block", ks))
            return toks + lc() + ["\n", "endSwitch"], N("switch", "switch", kids)
        if c == 6:
            b, ks = self.block(d - 1)
            t, cond = self.expr(d - 1)
            return ["repeat"] + b + ["until"] + t, N("repeat", "repeat", [self.cond_block(cond, ks)])
        if c == 7:
            return self.oql(d - 1)
        if c == 8:
            nm = self.name("l")
            t, ty = self.type_(1)
            return ["var", nm, ":"] + t, N("lvar_decl", nm, [ty])
        if c == 9:
            t, e = self.expr(d)
            return ["return"] + t, N("return", "return", [e])
        if c == 10:
            k = self.r.choice(["exit", "break", "continue"])
            return [k], N("terminal", k)
        if c == 11:
            return [self.r.choice(COMMENTS)], N("comment", "comment")
        if c == 12:
            nm = self.name("c")
            return ["const", nm, "=", "3"], N("const_decl", nm)
        if c in (13, 14, 15, 16):
            t1, l = self.dot_ops(d)
            op = self.r.choice(["=", "-=", "+=", ":="])
            t2, r = self.expr(d)
            return t1 + [op] + t2, N("bin_op", op, [l, r])
        # a call statement
        nm = self.name("m")
        t, a = self.expr(0)
        return [nm, "("] + t + [")"], N("method_call", nm, [a])

    # ---- declarations -------------------------------------------------------------------------------
    def method(self, d):
        is_func = self.r.chance(1, 2)
        nm = self.name("M")
        if self.r.chance(1, 8):
            # a method named like one of the keywords the grammar accepts as identifiers
            nm = self.r.choice(["Top", "Fetch", "Order", "Into", "Select", "Where", "From", "By", "Using", "Distinct", "Descending"])
        toks = ["func" if is_func else "proc", nm]
        name_node = N("terminal", nm)
        ident = nm
        if self.r.chance(1, 8):
            ev = self.name("ev")
            toks += ["#", ev]
            ident = nm + "#" + ev
            name_node = N("method_name_w_event", ident, [N("terminal", nm), N("terminal", ev)])
        kids = [name_node]
        ps = None
        if self.r.chance(3, 4):
            t, ps = self.params(1)
            toks += t
        ret = None
        if is_func:
            t, ret = self.tbasic()
            toks += ["return"] + t
            kids.append(ret)
        if ps:
            kids.append(ps)
        for m in ("private", "protected", "final", "override"):
            if self.r.chance(1, 6):
                toks.append(m)
        nobody = False
        if self.r.chance(1, 10):
            toks.append("forward")
            nobody = True
        elif self.r.chance(1, 12):
            toks += ["external", "'lib.dll'"]
            nobody = True
        if not nobody:
            b, ks = self.block(d, self.r.below(5))
            toks += b + ["endFunc" if is_func else "endProc"]
            kids.append(N("method_body", "method_body", ks))
        return toks, N("func_decl" if is_func else "proc_decl", ident, kids)

    def decl(self, d):
        c = self.r.below(8)
        if c == 0:
            nm = self.name("c")
            v = self.r.choice(["7", "'s'", "'漢漢漢'"])
            return ["const", nm, "=", v] + (["multiLang"] if self.r.chance(1, 5) else []), N("const_decl", nm)
        if c == 1:
            nm = self.name("t")
            t, ty = self.type_(2)
            return ["type", nm, ":"] + t, N("type_decl", nm, [ty])
        if c == 2:
            nm = self.name("f")
            t, ty = self.type_(1)
            toks = (["memory"] if self.r.chance(1, 6) else []) + [nm, ":"] + t
            for m in ("private", "protected", "final", "override"):
                if self.r.chance(1, 6):
                    toks.append(m)
            return toks, N("gvar_decl", nm, [ty])
        if c == 3:
            return [self.r.choice(TOP_COMMENTS)], N("comment", "comment")
        if c == 4:
            nm = self.name("t")
            t, ty = self.tbasic()
            return ["[", "anno", "]", "type", nm, ":"] + t, N("type_decl", nm, [ty])
        return self.method(d)

    def program(self, d=3):
        toks, kids = [], []
        c = self.r.below(4)
        if c == 0:
            toks += ["class", "aFoo"] + (["(", "aBase", ")"] if self.r.chance(1, 2) else [])
            kids.append(N("class", "aFoo"))
        elif c == 1:
            toks += ["module", "mFoo"]
            kids.append(N("module", "mFoo"))
        if self.r.chance(1, 2):
            toks += ["\n", "uses", "aBar"] + ([",", "aBaz"] if self.r.chance(1, 2) else [])
            kids.append(N("uses", "uses"))
        for _ in range(self.r.below(6)):
            t, n = self.decl(d)
            toks += ["\n"] + t
            kids.append(n)
        return toks, N("root", "", kids)


def render(rng, toks):
    """random layout: newlines / indentation / blanks between tokens, random letter case of keywords.
    Comments are whole tokens ending in a newline; explicit "\\n" tokens are statement breaks."""
    out = []
    for t in toks:
        if t == "\n":
            out.append("\r\n" if rng.chance(1, 6) else "\n")
            out.append(" " * rng.below(5))
            continue
        w = t
        if w.lower() in KEYWORDS and not w.startswith("'"):
            c = rng.below(4)
            if c == 0:
                w = w.upper()
            elif c == 1:
                w = w.lower()
            elif c == 2:
                w = "".join(ch.upper() if i % 2 else ch.lower() for i, ch in enumerate(w))
        out.append(w)
        if not w.endswith("\n"):
            out.append(" " if not rng.chance(1, 10) else ("\n" + " " * rng.below(4)))
    return "".join(out)


def shape(n):
    """expected tree as a nested tuple (kind, ident, kids) -> canonical string"""
    return "(%s %s%s)" % (n[0], n[1], "".join(" " + shape(k) for k in n[2]))
