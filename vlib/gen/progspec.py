"""random abstract PROGRAMS for the SPECIFICATION side of the program round trip
(lean/GoldModel/Props/C06Prog.lean): declarations (class, const, field, proc, func with parameters) and
statements (assignment, expression statement, return, exit/break/continue, local variable, if/elseif/else,
while, loop, for with optional step, foreach, repeat/until, switch/when/else) nested to a random depth are printed to words; the prefix form with
word indices (`#i`) is later filled with the implementation's own tokens and handed to the Lean spec
(`progspec` driver mode), whose `Prog.tree` is compared with the tree the implementation built.
Expressions come from `exspec` (the prefix form of the `exspec` mode), so the tie follows `Ex` as it grows."""
from . import exspec
from .wf import KEYWORDS

NAMES = ["a", "b", "x", "y", "count", "Foo_1", "zz9", "tmp", "i", "n"]
KW_NAMES = ["top", "order", "into", "by", "fetch", "from", "where", "select", "using", "distinct"]   # accepted as identifiers
TYPES = ["Int", "aFoo", "tBar", "CString", "Num4"]
TLITS = ["1", "9", "'a'", "'z'", "0"]
LITS = ["12", "3.5", "'s t'", "true", "FALSE", "nil", "0"]
ASSIGN = ["=", "=", "=", "-=", "+=", ":="]


def not_assign(t):
    """mirror of `Ex.naB` on the abstract tree printed WITHOUT redundant parentheses"""
    if t[0] != "bin":
        return True
    l = t[3]
    if exspec.level(l) > t[1]:          # printed in parentheses
        return True
    if l[0] == "chain":
        return t[2] != "="
    if l[0] == "atom":
        return t[2] != "=" or l[1] not in exspec.IDENTS
    return not_assign(l)


class Gen:
    def __init__(self, r, edepth=3):
        self.r = r
        self.edepth = edepth
        self.words, self.prefix = [], []
        self.counts = {}

    def count(self, k):
        self.counts[k] = self.counts.get(k, 0) + 1

    # ---- primitives ------------------------------------------------------------------------
    def w(self, text):
        self.prefix.append("#%d" % len(self.words))
        self.words.append(text)

    def tag(self, t):
        self.prefix.append(t)

    def name(self):
        return self.r.choice(KW_NAMES) if self.r.chance(1, 8) else self.r.choice(NAMES)

    def put(self, t, redundant=True):
        """append the expression `t` (an abstract tree of `exspec`)"""
        words, prefix = exspec.render(self.r, t, redundant)
        off = len(self.words)
        self.prefix += ["#%d" % (int(w[1:]) + off) if w.startswith("#") else w for w in prefix]
        self.words += words

    def ex(self, redundant=True):
        self.put(exspec.gen(self.r, self.r.below(self.edepth + 1)), redundant)

    def lhs(self):
        """an assignment target: a member-access chain (identifiers, calls, indexings joined by `.`)"""
        t = exspec.gen_chain(self.r, self.r.below(self.edepth))
        self.count("lhs:chain%d" % min(len(t[1]), 3))
        self.put(t, False)

    def ex_stmt(self):
        """an expression that may stand as a statement: `parse_assignment` must not take it (not `chain = …` at its
        left end) and its first token must be one no earlier statement parser — and no preceding expression — reacts to"""
        for _ in range(50):
            c = self.r.below(4)
            if c == 0:
                t = exspec.gen_chain(self.r, 1 + self.r.below(self.edepth))      # calls, `a.b.c(1)`
            elif c == 1:
                t = ("post", exspec.gen_chain(self.r, self.r.below(self.edepth)), self.r.choice(exspec.POST))
            else:
                t = exspec.gen(self.r, self.r.below(self.edepth + 1))
            words, _ = exspec.render(self.r, t, False)
            if words[0] in ("-", "(", "[") or not not_assign(t):
                continue
            self.count("expr-stmt:" + t[0])
            self.put(t, False)
            return
        self.put(("atom", "12"), False)

    # ---- statements ------------------------------------------------------------------------
    def stmts(self, depth, lo=0, hi=4):
        self.tag("[")
        for _ in range(lo + self.r.below(hi - lo + 1)):
            self.stmt(depth)
        self.tag("]")

    def stmt(self, depth):
        c = self.r.below(17 if depth > 0 else 9)
        if depth > 0 and c >= 7:
            c = c if c >= 9 else self.r.below(9)
        if c <= 2:
            self.count("assign")
            self.tag("SA"); self.lhs(); self.w(self.r.choice(ASSIGN)); self.ex()
        elif c == 3:
            self.count("expr-stmt")
            self.tag("SE"); self.ex_stmt()
        elif c == 4:
            self.count("return")
            self.tag("SR"); self.w("return"); self.ex()
        elif c == 5:
            self.count("control")
            self.tag("SC"); self.w(self.r.choice(["exit", "break", "continue"]))
        elif c == 6:
            self.count("lvar")
            if self.r.chance(1, 5):
                self.count("type-stmt")
                self.tag("ST"); self.typedecl()
            else:
                self.tag("SV"); self.w("var"); self.w(self.r.choice(NAMES)); self.w(":"); self.tyx()
                self.absolute()
        elif c == 7:
            self.count("uses-stmt")
            self.tag("SS"); self.uses()
        elif c == 8:
            self.count("const-stmt")
            self.tag("SK"); self.const()
        elif c in (9, 10):
            self.count("if")
            self.tag("SI"); self.w("if"); self.ex(); self.stmts(depth - 1)
            for _ in range(self.r.below(3)):
                self.count("elseif")
                self.tag("TF"); self.w("elseif"); self.ex(); self.stmts(depth - 1)
            if self.r.chance(1, 2):
                self.count("else")
                self.tag("TL"); self.w("else"); self.stmts(depth - 1); self.w("endif")
            else:
                self.tag("TE"); self.w("endif")
        elif c == 11:
            self.count("while")
            self.tag("SW"); self.w("while"); self.ex(); self.stmts(depth - 1); self.w("endwhile")
        elif c == 12:
            self.count("loop")
            self.tag("SL"); self.w("loop"); self.stmts(depth - 1); self.w("endloop")
        elif c == 13:
            self.count("foreach")
            self.tag("SX"); self.w("foreach")
            if self.r.chance(2, 3):
                self.put(("bin", 6, "in", ("atom", self.r.choice(NAMES)), exspec.gen_primary(self.r, self.r.below(2))), False)
            else:
                self.ex()
            at = len(self.words)
            self.stmts(depth - 1); self.w("endfor")
            if self.words[at].lower() == "using":      # `using` right after the header belongs to the header
                self.words[at] = "tmp"
        elif c == 14:
            self.count("repeat")
            self.tag("SU"); self.w("repeat"); self.stmts(depth - 1); self.w("until"); self.ex()
        elif c == 16:
            self.count("switch")
            self.tag("SZ"); self.w("switch"); self.ex(); self.tag("{")
            for _ in range(self.r.below(4)):
                self.count("when")
                self.tag("W"); self.w("when")
                if self.r.chance(1, 4):
                    self.tag("VR"); self.w(self.r.choice(TLITS)); self.w("to"); self.w(self.r.choice(TLITS))
                else:
                    self.tag("VL"); self.w(self.r.choice(TLITS + NAMES))
                    for _ in range(self.r.below(3)):
                        self.tag(","); self.w(","); self.w(self.r.choice(TLITS + NAMES))
                    self.tag(".")
                self.stmts(depth - 1); self.w("endwhen")
            self.tag("}")
            if self.r.chance(1, 2):
                self.count("switch-else")
                self.tag("+"); self.w("else"); self.stmts(depth - 1)
            else:
                self.tag("-"); self.tag("["); self.tag("]")
            self.w("endswitch")
        else:
            self.count("for")
            self.tag("SF"); self.w("for"); self.w(self.r.choice(NAMES)); self.w("="); self.ex()
            self.w(self.r.choice(["to", "downto"])); self.ex()
            if self.r.chance(1, 3):
                self.count("for-step")
                self.tag("+"); self.w("step"); self.ex()
            else:
                self.tag("-")
            self.stmts(depth - 1); self.w("endfor")

    # ---- pieces shared by statements and declarations ---------------------------------------
    def idx(self):
        if self.r.chance(1, 2):
            self.tag("IB"); self.w("["); self.w(self.r.choice(TYPES)); self.w("]")
        else:
            self.tag("IR"); self.w("["); self.w(self.r.choice(TLITS)); self.w("to"); self.w(self.r.choice(TLITS)); self.w("]")

    def evar(self):
        if self.r.chance(1, 3):
            self.tag("EV"); self.w(self.r.choice(NAMES)); self.w("="); self.w(self.r.choice(["0", "1", "17"]))
        else:
            self.tag("EN"); self.w(self.r.choice(NAMES))

    def cop(self):
        c = self.r.below(5)
        if c <= 1:
            self.tag("CB"); self.w(self.r.choice(TYPES))
        elif c == 2:
            self.count("type:enum-empty")
            self.tag("CE"); self.w("("); self.w(")")
        else:
            self.count("type:enum")
            self.tag("CL"); self.w("("); self.evar()
            for _ in range(self.r.below(3)):
                self.tag(","); self.w(","); self.evar()
            self.tag("."); self.w(")")

    def tyx(self):
        c = self.r.below(10)
        if c == 0:
            self.count("type:record")
            self.tag("XR"); self.w("record")
            if self.r.chance(1, 3):
                self.tag("+"); self.w("("); self.w(self.r.choice(TYPES)); self.w(")")
            else:
                self.tag("-")
            self.tag("{")
            for _ in range(self.r.below(4)):
                self.tag("F"); self.w(self.r.choice(NAMES)); self.w(":"); self.ty()
            self.tag("}"); self.w("endrecord")
        elif c == 1:
            self.count("type:proc")
            self.tag("XP"); self.w("proc"); self.params()
        elif c == 2:
            self.count("type:func")
            self.tag("XF"); self.w("func"); self.params(); self.w("return"); self.w(self.r.choice(TYPES))
        else:
            self.ty()

    def ty(self):
        c = self.r.below(14)
        if c >= 12:
            self.count("type:composed")
            self.tag("YC"); self.cop()
            for _ in range(self.r.below(3)):
                self.tag("+"); self.w("+"); self.cop()
            self.tag(".")
        elif c <= 3:
            self.count("type:basic")
            self.tag("YB"); self.w(self.r.choice(TYPES))
        elif c == 4:
            self.count("type:sized")
            self.tag("YS"); self.w(self.r.choice(TYPES)); self.w("("); self.w(self.r.choice(["1", "20", "255"])); self.w(")")
        elif c in (5, 6):
            self.count("type:ref")
            self.tag("YR"); self.w(self.r.choice(["refTo", "listOf"]))
            if self.r.chance(1, 4):
                self.count("type:ref-options")
                self.tag("O"); self.w("["); self.w(self.r.choice(NAMES))
                for _ in range(self.r.below(3)):
                    self.tag(","); self.w(","); self.w(self.r.choice(NAMES))
                self.tag("."); self.w("]")
            else:
                self.tag("-")
            self.w(self.r.choice(TYPES))
            if self.r.chance(1, 3):
                self.tag("+"); self.w("inverse"); self.w(self.r.choice(NAMES))
            else:
                self.tag("-")
        elif c == 7:
            self.count("type:range")
            self.tag("YG"); self.w(self.r.choice(TLITS)); self.w("to"); self.w(self.r.choice(TLITS))
        elif c == 8:
            self.count("type:set")
            self.tag("YE"); self.w("["); self.w(self.r.choice(TYPES)); self.w("]")
        elif c == 9:
            self.count("type:pointer")
            self.tag("YP"); self.w("."); self.w(self.r.choice(TYPES))
        elif c == 10:
            self.count("type:array")
            self.tag("YA"); self.w(self.r.choice(["array", "sequence"])); self.idx()
            if self.r.chance(1, 3):
                self.tag("+"); self.idx()
            else:
                self.tag("-")
            self.w("of"); self.w(self.r.choice(TYPES))
        else:
            self.count("type:instanceof")
            self.tag("YI"); self.w("instanceOf"); self.w(self.r.choice(TYPES))

    def typedecl(self):
        self.w("type"); self.w(self.r.choice(TYPES)); self.w(":"); self.tyx()

    def absolute(self):
        if self.r.chance(1, 4):
            self.count("absolute")
            self.tag("+"); self.w("absolute"); self.w(self.name())
        else:
            self.tag("-")

    def uses(self):
        self.w("uses"); self.w(self.r.choice(NAMES))
        for _ in range(self.r.below(3)):
            self.tag(","); self.w(","); self.w(self.r.choice(NAMES))
        self.tag(".")

    def const(self):
        self.w("const"); self.w(self.r.choice(NAMES)); self.w("="); self.w(self.r.choice(["12", "3.5", "'s t'", "''"]))
        if self.r.chance(1, 4):
            self.count("multilang")
            self.tag("+"); self.w("multiLang")
        else:
            self.tag("-")

    # ---- declarations ----------------------------------------------------------------------
    def param(self):
        if self.r.chance(1, 3):
            self.tag("M"); self.w(self.r.choice(["const", "var", "inout"]))
        else:
            self.tag("N")
        self.w(self.name()); self.w(":"); self.ty()

    def params(self):
        c = self.r.below(4)
        if c == 0:
            self.tag("-")
        elif c == 1:
            self.count("params-empty")
            self.tag("E"); self.w("("); self.w(")")
        else:
            self.count("params")
            self.tag("L"); self.w("("); self.param()
            for _ in range(self.r.below(3)):
                self.tag(","); self.w(","); self.param()
            self.tag("."); self.w(")")

    def mname(self):
        if self.r.chance(1, 6):
            self.count("event-name")
            self.tag("V"); self.w(self.name()); self.w("#"); self.w(self.name())
        else:
            self.tag("N"); self.w(self.name())

    def mods(self):
        """modifiers; returns whether the method has a body"""
        self.tag("{")
        body = True
        for _ in range(self.r.choice([0, 0, 0, 1, 1, 2, 3])):
            c = self.r.below(7)
            if c == 5:
                self.count("forward")
                self.tag("M"); self.w("forward"); body = False
            elif c == 6:
                self.count("external")
                self.tag("X"); self.w("external"); self.w(self.r.choice(["'user32.dll'", "'a b'"])); body = False
            else:
                self.count("modifier")
                self.tag("M"); self.w(["private", "protected", "final", "override", "override"][c])
        self.tag("}")
        return body

    def body(self, has, depth, end):
        if has:
            self.tag("+"); self.stmts(depth); self.w(end)
        else:
            self.count("no-body")
            self.tag("-")

    def ann_body(self):
        self.w("["); self.tag("{")
        for _ in range(self.r.below(5)):
            self.w(self.r.choice(NAMES + ["12", "(", ")", ",", "'s t'", "[", "=", "class", "proc"]))
        self.tag("}"); self.w("]")

    def ann(self):
        if self.r.chance(1, 4):
            self.count("annotation")
            self.tag("+"); self.ann_body()
        else:
            self.tag("-")

    def decl(self, depth, after_ann=False):
        """returns whether the declaration is an annotation on its own (what follows must not take it)"""
        c = self.r.below(12)
        if after_ann and c in (6, 7, 8, 10):       # field, class, module, type would take the annotation
            c = self.r.choice([0, 3, 5, 9, 11])
        if c == 11:
            self.count("annotation-alone")
            self.tag("DA"); self.ann_body()
            return True
        if c == 10:
            self.count("type-decl")
            self.tag("DT"); self.ann(); self.typedecl()
            return False
        if c == 8:
            self.count("module")
            self.tag("DM"); self.ann(); self.w("module"); self.w("aMod")
            return False
        if c == 9:
            self.count("uses")
            self.tag("DU"); self.uses()
            return False
        if c <= 2:
            self.count("proc")
            self.tag("DP"); self.w("proc"); self.mname(); self.params(); self.body(self.mods(), depth, "endproc")
        elif c <= 4:
            self.count("func")
            self.tag("DF"); self.w("func"); self.mname(); self.params(); self.w("return"); self.w(self.r.choice(TYPES))
            self.body(self.mods(), depth, "endfunc")
        elif c == 5:
            self.count("const")
            self.tag("DC"); self.const()
        elif c == 6:
            self.count("field")
            self.tag("DV"); self.ann()
            if self.r.chance(1, 5):
                self.count("memory")
                self.tag("+"); self.w("memory")
            else:
                self.tag("-")
            self.w(self.r.choice(NAMES)); self.w(":"); self.tyx()
            self.tag("{")
            for _ in range(self.r.choice([0, 0, 0, 1, 2])):
                self.count("field-modifier")
                self.w(self.r.choice(["private", "protected", "final", "override"]))
            self.tag("}")
            self.absolute()
        else:
            self.count("class")
            self.tag("DK"); self.ann()
            if self.r.chance(1, 2):
                self.tag("+"); self.w("class"); self.w("aFoo"); self.w("("); self.w("aBase"); self.w(")")
            else:
                self.tag("-"); self.w("class"); self.w("aFoo")
        return False

    def program(self, depth):
        after = False
        for _ in range(self.r.below(5)):
            after = self.decl(depth, after)


def layout(r, words):
    """random blanks / newlines between the words, random letter case of keywords"""
    out = []
    for w in words:
        if w.lower() in KEYWORDS and not w.startswith("'"):
            c = r.below(4)
            if c == 0:
                w = w.upper()
            elif c == 1:
                w = w.capitalize()
        out.append(w)
        out.append(r.choice([" ", " ", "  ", "\n", "\n  ", "\r\n", " \n\t"]))
    return "".join(out)


def case(r, depth, edepth=3):
    g = Gen(r, edepth)
    g.program(depth)
    return g.words, g.prefix, g.counts
