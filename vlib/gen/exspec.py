"""random abstract expressions for the SPECIFICATION side of the expression round trip
(lean/GoldModel/Props/C06Expr.lean): a tree over the full expression grammar of `parse_expr` — atoms, parentheses,
the 23 binary operators, prefix operators, postfix `++`/`--`, member-access chains of identifiers / calls / indexings,
set literals — is printed with the parentheses its shape needs (plus random redundant ones where the grammar allows an
expression); the prefix form with token indices is later filled with the implementation's own tokens and handed to the
Lean spec (`exspec` driver mode), whose `Ex.tree` is compared with the tree the implementation built."""
from .wf import LEVELS

IDENTS = ["a", "b", "Foo_1", "zz9", "x", "top", "order", "into", "conditional", "m", "obj"]
LITERALS = ["12", "3.5", "'s t'", "true", "FALSE", "nil", "'漢漢漢漢'", "'é 😀😀'"]
ATOMS = IDENTS + LITERALS
PRE = ["not", "bNot", "@", "inherited", "-"]
POST = ["++", "--"]


def gen_elem(r, depth):
    """element of a chain: ('id', name) | ('call', name, [args]) | ('idx', name, e)"""
    c = r.below(5) if depth > 0 else 0
    if c == 3:
        return ("call", r.choice(IDENTS), [gen(r, depth - 1) for _ in range(r.below(4))])
    if c == 4:
        return ("idx", r.choice(IDENTS), gen(r, depth - 1))
    return ("id", r.choice(IDENTS))


def gen_chain(r, depth):
    return ("chain", [gen_elem(r, depth) for _ in range(1 + r.below(3))])


def gen_primary(r, depth):
    """something `parse_primary` accepts without parentheses"""
    if depth == 0:
        return ("atom", r.choice(ATOMS))
    c = r.below(8)
    if c == 0:
        return ("pre", r.choice(PRE), gen_primary(r, depth - 1))
    if c == 1:
        return ("post", gen_chain(r, depth - 1), r.choice(POST))
    if c == 2:
        return ("set", [gen(r, depth - 1) for _ in range(r.below(4))])
    if c in (3, 4):
        return gen_chain(r, depth)
    return ("atom", r.choice(ATOMS))


def gen(r, depth):
    """abstract tree: ('atom', text) | ('bin', level(1..8), op, l, r) | ('pre', op, e) | ('post', chain, op) |
    ('chain', [elements]) | ('set', [items])"""
    if depth == 0 or r.chance(1, 4):
        return gen_primary(r, depth)
    if r.chance(1, 2):
        lv = 1 + r.below(len(LEVELS))
        return ("bin", lv, r.choice(LEVELS[lv - 1]), gen(r, depth - 1), gen(r, depth - 1))
    return gen_primary(r, depth)


def level(t):
    return t[1] if t[0] == "bin" else 0


def constructors(t, acc):
    """the set of constructors of `Ex` the tree uses"""
    k = t[0]
    if k == "atom":
        acc.add("atom")
    elif k == "bin":
        acc.add("bin")
        constructors(t[3], acc)
        constructors(t[4], acc)
    elif k == "pre":
        acc.add("pre")
        constructors(t[2], acc)
    elif k == "post":
        acc.add("post")
        constructors(t[1], acc)
    elif k == "set":
        acc.add("set%d" % min(len(t[1]), 2))
        for x in t[1]:
            constructors(x, acc)
    elif k == "chain":
        if len(t[1]) > 1:
            acc.add("dot")
        for e in t[1]:
            if e[0] == "id":
                acc.add("atom")
            elif e[0] == "call":
                acc.add("call%d" % min(len(e[2]), 2))
                for x in e[2]:
                    constructors(x, acc)
            else:
                acc.add("index")
                constructors(e[2], acc)
    return acc


class Out:
    def __init__(self, r, redundant):
        self.r, self.redundant = r, redundant
        self.words, self.prefix, self.parens = [], [], 0

    def tok(self, w):
        self.prefix.append("#%d" % len(self.words))
        self.words.append(w)

    def args(self, items, ctx):
        """`N` | `O ex` | `M ex , args`"""
        if not items:
            self.prefix.append("N")
            return
        for i, x in enumerate(items):
            last = i == len(items) - 1
            self.prefix.append("O" if last else "M")
            self.expr(x, ctx)
            if not last:
                self.tok(",")

    def elem(self, e):
        if e[0] == "id":
            self.prefix.append("A")
            self.tok(e[1])
        elif e[0] == "call":
            self.prefix.append("C")
            self.tok(e[1])
            self.tok("(")
            self.args(e[2], 8)
            self.tok(")")
        else:
            self.prefix.append("I")
            self.tok(e[1])
            self.tok("[")
            self.expr(e[2], 8)
            self.tok("]")

    def chain(self, t):
        elems = t[1]
        self.prefix += ["D"] * (len(elems) - 1)
        self.elem(elems[0])
        for e in elems[1:]:
            self.tok(".")
            self.elem(e)

    def expr(self, t, ctx):
        """append the words of `t` printed in a context that allows level ≤ ctx"""
        need = level(t) > ctx
        if need or (self.redundant and self.r.chance(1, 12)):
            if not need:
                self.parens += 1
            self.prefix.append("P")
            self.tok("(")
            self.expr(t, 8)
            self.tok(")")
            return
        k = t[0]
        if k == "atom":
            self.prefix.append("A")
            self.tok(t[1])
        elif k == "bin":
            _, lv, op, l, rr = t
            self.prefix.append("B")
            self.expr(l, lv)
            self.tok(op)
            self.expr(rr, lv - 1)
        elif k == "pre":
            self.prefix.append("U")
            self.tok(t[1])
            self.expr(t[2], 0)
        elif k == "post":
            self.prefix.append("Q")
            self.chain(t[1])
            self.tok(t[2])
        elif k == "chain":
            self.chain(t)
        elif k == "set":
            self.prefix.append("S")
            self.tok("[")
            self.args(t[1], 0)
            self.tok("]")
        else:
            raise ValueError(k)


def render(r, t, redundant=True):
    o = Out(r, redundant)
    o.expr(t, 8)
    return o.words, o.prefix


def case(r, depth):
    t = gen(r, depth)
    words, prefix = render(r, t)
    cons = constructors(t, set())
    if "P" in prefix:
        cons.add("paren")
    return words, prefix, cons
