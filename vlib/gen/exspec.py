"""random abstract expressions for the SPECIFICATION side of the expression round trip
(lean/GoldModel/Props/C06Expr.lean): a tree over the 23 binary operators, atoms and parentheses is
printed with the parentheses its shape needs (plus random redundant ones); the prefix form with
token indices is later filled with the implementation's own tokens and handed to the Lean spec
(`exspec` driver mode), whose `Ex.tree` is compared with the tree the implementation built."""
from .wf import LEVELS

ATOMS = ["a", "b", "Foo_1", "zz9", "x", "12", "3.5", "'s t'", "true", "FALSE", "nil", "top", "order", "into", "conditional"]


def gen(r, depth):
    """abstract tree: ('atom', text) | ('bin', level(1..8), op, l, r)"""
    if depth == 0 or r.chance(1, 4):
        return ("atom", r.choice(ATOMS))
    lv = 1 + r.below(len(LEVELS))
    return ("bin", lv, r.choice(LEVELS[lv - 1]), gen(r, depth - 1), gen(r, depth - 1))


def level(t):
    return t[1] if t[0] == "bin" else 0


def render(r, t, ctx, words, prefix, redundant=True):
    """append the words of `t` printed in a context that allows level ≤ ctx; `prefix` receives the prefix form
    with `#i` = index of the word in `words`"""
    need = level(t) > ctx
    if need or (redundant and r.chance(1, 12)):
        prefix += ["P", "#%d" % len(words)]
        words.append("(")
        render(r, t, 8, words, prefix, redundant)
        prefix.append("#%d" % len(words))
        words.append(")")
        return
    if t[0] == "atom":
        prefix += ["A", "#%d" % len(words)]
        words.append(t[1])
        return
    _, lv, op, l, rr = t
    prefix.append("B")
    render(r, l, lv, words, prefix, redundant)
    prefix.append("#%d" % len(words))
    words.append(op)
    render(r, rr, lv - 1, words, prefix, redundant)


def case(r, depth):
    t = gen(r, depth)
    words, prefix = [], []
    render(r, t, 8, words, prefix)
    return words, prefix
