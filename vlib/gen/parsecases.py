"""the standard battery of parser cases (wire lines `parse <tok>…`) shared by C04/C06/C07/C08/C09/C12"""
import glob
import os

from .. import core
from . import prog, toks

ALPHA17 = ["a", "B", "_", "1", ".", " ", "\n", "\r", "'", '"', ";", "#", "<", "=", "+", "&", "$"]


def corpus(prop):
    p = os.path.join(core.VERIF, "corpus", prop, "cases.txt")
    if os.path.exists(p):
        return [l.strip() for l in open(p) if l.strip() and not l.startswith("#")]
    return []


def fixture_texts():
    out = []
    for f in sorted(glob.glob(os.path.join(core.REPO, "test", "**", "*.god"), recursive=True)):
        try:
            out.append(open(f, encoding="utf-8", errors="replace").read())
        except OSError:
            pass
    return out


def texts_to_lines(ctx, texts):
    """real lexer -> wire lines; when the lexer does not return a token list (panic / hang / crash) the line is
    `LEXFAIL:<what> toks <escaped text>` so that the failing input is not lost"""
    cases = ["toks " + core.esc(t) for t in texts]
    out = ctx.run_harness("toks", cases)
    # `<skipped …>`: the shard was given up after several hangs (each already reported) — not a case
    return [o if o.startswith("parse") else "LEXFAIL:%s %s" % (o.split(" ")[0], c) for o, c in zip(out, cases) if not o.startswith("<skipped")]


def towers(depth):
    T = prog.T
    out = []
    x = [T("Identifier", "x")]
    # ((((x))))
    out.append([T("OBracket")] * depth + x + [T("CBracket")] * depth)
    # f(f(f(x)))
    t = []
    for _ in range(depth):
        t += [T("Identifier", "f"), T("OBracket")]
    out.append(t + x + [T("CBracket")] * depth)
    # a[a[a[x]]]
    t = []
    for _ in range(depth):
        t += [T("Identifier", "a"), T("OSqrBracket")]
    out.append(t + x + [T("CSqrBracket")] * depth)
    # [[[x]]] set literals
    out.append([T("OSqrBracket")] * depth + x + [T("CSqrBracket")] * depth)
    # nested ifs / loops / whiles
    out.append(([T("If", "if")] + x) * depth + x + [T("EndIf", "endif")] * depth)
    out.append([T("Loop", "loop")] * depth + x + [T("EndLoop", "endloop")] * depth)
    out.append(([T("While", "while")] + x) * depth + [T("EndWhile", "endwhile")] * depth)
    # unary chains, dot chains, operator chains
    out.append([T("Not", "not")] * depth + x)
    out.append((x + [T("Dot", ".")]) * depth + x)
    out.append((x + [T("Plus", "+")]) * depth + x)
    # mixed towers: 1 + f(1 + f(…)),  -f(-f(…)),  a.f(a.f(…))
    t = []
    for _ in range(depth):
        t += [T("NumericLiteral", "1"), T("Plus", "+"), T("Identifier", "f"), T("OBracket")]
    out.append(t + x + [T("CBracket")] * depth)
    t = []
    for _ in range(depth):
        t += [T("Minus", "-"), T("Identifier", "f"), T("OBracket")]
    out.append(t + x + [T("CBracket")] * depth)
    t = []
    for _ in range(depth):
        t += [T("Identifier", "a"), T("Dot", "."), T("Identifier", "f"), T("OBracket")]
    out.append(t + x + [T("CBracket")] * depth)
    # unterminated towers
    out.append([T("OBracket")] * depth + x)
    out.append(([T("If", "if")] + x) * depth)
    return [[T("Proc", "proc"), T("Identifier", "P")] + b + [T("EndProc", "endproc")] for b in out] + \
           [[T("Type", "type"), T("Identifier", "t"), T("Colon", ":")] + [T("Record", "record"), T("Identifier", "f"), T("Colon", ":")] * depth + [T("Identifier", "int")] + [T("EndRecord", "endrecord")] * depth]


def long_lists(n):
    T = prog.T
    x = T("Identifier", "x")
    sep = lambda item, k: sum([[T("Comma")] + item for _ in range(k - 1)], list(item))
    out = [
        [T("Proc", "proc"), T("Identifier", "P"), T("OBracket")] + sep([x, T("Colon"), T("Identifier", "int")], n) + [T("CBracket"), T("EndProc", "endproc")],
        [T("Proc", "proc"), T("Identifier", "P"), T("Identifier", "f"), T("OBracket")] + sep([x], n) + [T("CBracket"), T("EndProc", "endproc")],
        [T("Proc", "proc"), T("Identifier", "P"), x, T("Equals", "="), T("OSqrBracket")] + sep([x], n) + [T("CSqrBracket"), T("EndProc", "endproc")],
        [T("Proc", "proc"), T("Identifier", "P")] + [x, T("Equals", "="), T("NumericLiteral", "1")] * n + [T("EndProc", "endproc")],
        [T("Uses", "uses")] + sep([T("Identifier", "aBar")], n),
        [T("Type", "type"), T("Identifier", "t"), T("Colon"), T("OBracket")] + sep([T("Identifier", "cE")], n) + [T("CBracket")],
        [T("Const", "const"), T("Identifier", "c"), T("Equals", "="), T("NumericLiteral", "1")] * n,
    ]
    return out


def battery(ctx, prop, exh_len, n_prog, n_soup, tower_depth=128, list_len=2000, text_len=0, n_text=0, in_body=True):
    """returns (lines, labels) ; every random choice from ctx.rng"""
    lines, labels = [], []

    def add(l, lab):
        lines.append(l)
        labels.append(lab)
        ctx.count(lab)

    for l in corpus(prop):
        add(l, "corpus")
    for l in texts_to_lines(ctx, fixture_texts()):
        add(l, "fixture")
    for s in toks.exhaustive(toks.ALPHA16, exh_len):
        add(toks.line_of(s), "exhaustive-toplevel")
    if in_body:
        for s in toks.exhaustive(toks.ALPHA16, exh_len, prefix=["Proc", "Identifier"], suffix=["EndProc"]):
            add(toks.line_of(s), "exhaustive-in-body")
    kinds = list(toks.LEX.keys())
    for i in range(n_prog):
        g = prog.Gen(ctx.rng)
        p = g.program(3)
        if i % 3:
            p = prog.mutate(ctx.rng, p, kinds)
            add(prog.wire(p), "program-mutated")
        else:
            add(prog.wire(p), "program-wellformed")
    for i in range(n_soup):
        L = 1 + ctx.rng.below(30)
        seq = [ctx.rng.choice(kinds) for _ in range(L)]
        if ctx.rng.chance(1, 2):
            seq = ["Proc", "Identifier"] + seq + ["EndProc"]
        add(toks.line_of(seq), "keyword-soup")
    for t in towers(tower_depth):
        add(prog.wire(t, per_line=12), "tower")
    for t in long_lists(list_len):
        add(prog.wire(t, per_line=12), "long-list")
    if n_text:
        import itertools
        texts = []
        for L in range(0, text_len + 1):
            for s in itertools.product(ALPHA17, repeat=L):
                texts.append("".join(s))
        uni = 'aB_1. \n\r\'";#<=+&$éß漢🙂\t  {}[]()²½٣①Ⅷ๓жΩאَ́\u200b\u202e\ufeff\xa0'   # incl. non-ASCII numerics, other scripts, combining / zero-width / bidi
        words = ["proc", "EndProc", "IF", "endif", "var", "x", "Class", "uses", "const", "oql", "select", "refTo"]
        for _ in range(n_text):
            n = 1 + ctx.rng.below(60)
            texts.append("".join(ctx.rng.choice(words) + " " if ctx.rng.chance(1, 3) else ctx.rng.choice(uni) for _ in range(n)))
        # declarations and statements carrying LONG literals / comments with multi-byte characters at every byte offset
        # (anything that slices, truncates or measures a token value in bytes meets a character boundary here),
        # and files that start with a byte order mark
        lit = 'ab zé漢🙂ßж②'
        for _ in range(max(40, n_text // 20)):
            n = 20 + ctx.rng.below(80)
            v = "".join(ctx.rng.choice(lit) for _ in range(n))
            k = ctx.rng.below(6)
            if k == 0:
                t = "const cLong = '%s'\n" % v
            elif k == 1:
                t = "class aFoo\n\nconst cLong = \"%s\"\nfName : int\n" % v
            elif k == 2:
                t = "proc P\n x = '%s' + y\n WriteLn('%s', x)\nendproc\n" % (v, v[: n // 2])
            elif k == 3:
                t = "; %s\nconst c = 1 ; %s\nproc %s\nendproc\n" % (v, v, "P")
            elif k == 4:
                t = "\ufeffclass aFoo\n\nconst cBom = '%s'\nproc P\n x = 1\nendproc\n" % v[:10]
            else:
                t = "\ufeff" + v
            texts.append(t)
        # very many syntax errors in one file, then a declaration that must still be parsed (no cap on diagnostics)
        for n in (300, 1000, 1001, 1500, 2500):
            texts.append(") " * n + "\nconst cLast = 1\n")
            texts.append("proc P\n" + " x = )\n" * n + "endproc\nconst cLast = 1\n")
        # numeric and #-literals at and beyond every machine-integer boundary
        for big in ("255", "256", "65535", "65536", "4294967295", "4294967296", "18446744073709551615", "18446744073709551616",
                    "99999999999999999999999999", "0" * 40, "1e400", "0x" + "F" * 20, "1." + "9" * 30):
            texts += ["#%s" % big, "x = #%s + %s" % (big, big), "const c = %s" % big, "proc P\n a[#%s] = '%s'\nendproc" % (big, big)]
        for l in texts_to_lines(ctx, texts):
            add(l, "text")
    return lines, labels
