"""Shared by the checks C10 / C11 / C17: generated workspaces -> case lines for the harness mode
`scope` (real ProjectManager over the materialised files) and the driver mode `scope` (parser
model -> scope model), and the canonical answers of both, aligned with the generator's queries."""
import glob
import json
import os

from . import core
from .gen import ws

# scenarios in which the implementation is known / expected to deviate from the property's rule;
# a query tagged with one of them gets the tag appended to its oracle signature
DEVIATIONS = ["typeref-shadowed", "forward", "uses-member", "uses-entry", "rettype"]


class Case:
    """one workspace with its queries (generated or from the corpus)"""

    def __init__(self, wid, files, queries, origin="generated"):
        self.id, self.files, self.queries, self.origin = wid, files, queries, origin

    def to_json(self):
        return {"id": self.id, "files": [[s, t] for s, t in self.files], "queries": self.queries}

    @staticmethod
    def from_json(d, origin="corpus"):
        return Case(d.get("id", "corpus"), [(s, t) for s, t in d["files"]], d["queries"], origin)


def corpus_cases(prop):
    out = []
    for p in sorted(glob.glob(os.path.join(core.VERIF, "corpus", prop, "*.json"))):
        d = json.load(open(p))
        for c in (d if isinstance(d, list) else [d]):
            c = Case.from_json(c)
            c.id = os.path.basename(p)[:-5] + "-" + str(c.id)
            out.append(c)
    return out


def generated(ctx, n, deviations=(), prefix="w", **kw):
    out = []
    for i in range(n):
        g = ws.generate(ctx.rng, "%s%d" % (prefix, i), deviations=deviations, **kw)
        out.append(Case(g.id, g.files, g.queries))
    return out


def tokens(ctx, cases):
    """tokens of every file, from the REAL lexer (harness mode `toks`)"""
    texts = [t for c in cases for _, t in c.files]
    outs = run_lines([core.HARNESS_BIN, "toks"], ["toks " + core.esc(t) for t in texts], chunk=400)
    res, k = [], 0
    for c in cases:
        per = []
        for _ in c.files:
            o = outs[k]
            k += 1
            per.append(o.split(" ")[1:] if o.startswith("parse") else None)
        res.append(per)
    return res


def lines(case, toks, kinds=None):
    qs = [q for q in case.queries if kinds is None or q["kind"] in kinds]
    hw, dw = ["scope", case.id], ["scope", case.id]
    for (stem, text), tk in zip(case.files, toks):
        hw += ["F", core.esc(stem), core.esc(text)]
        dw += ["F", core.esc(stem), str(len(tk))] + tk
    q = []
    for x in qs:
        q += ["Q", str(x["f"]), x["kind"], str(x["line"]), str(x["col"])]
    return " ".join(hw + warmups(case) + q), " ".join(dw + q), qs


def warmups(case):
    """`W …` words (harness only; the model has no history): in one workspace out of three every manager first serves a few
    requests about OTHER places — outlines of files, then definition / completion requests taken from the case's own
    query list — so that what a query answers is also checked after other documents were parsed / half-analysed.
    Chosen by a checksum of the workspace id (replays regenerate the same line)."""
    import zlib
    h = zlib.crc32(case.id.encode())
    if h % 3 or not case.queries:
        return []
    if any("forward" in x["tags"] for x in case.queries):
        # what a chain through a method declared further down answers depends on which documents were analysed before
        # (notes/C10.md, history dependence: the table a descendant's parent pointer refers to) — the model has no
        # history, so workspaces with that recorded deviation are asked on fresh managers only
        return []
    w = []
    nf = len(case.files)
    for j in range(1 + h % 2):
        w += ["W", str((h // 7 + j * 3) % nf), "o", "0", "0"]
    for j in range(1 + (h // 5) % 3):
        x = case.queries[(h // 11 + j * 17) % len(case.queries)]
        w += ["W", str(x["f"]), x["kind"], str(x["line"]), str(x["col"])]
    return w


def run_lines(argv, lines, chunk=60, par=12, timeout=1800):
    """one process per chunk of workspaces, `par` at a time.  Workspace lines are heavy (whole texts,
    hundreds of requests each), so chunks are small and every process is short-lived.  A chunk whose
    process died without output (killed from outside, crashed) is re-run once line by line, so that
    only the offending case keeps the `<no-output …>` mark — a deterministic crash is still reported."""
    import subprocess
    from concurrent.futures import ThreadPoolExecutor

    def work(chunk_lines):
        try:
            p = subprocess.run(argv, input="\n".join(chunk_lines) + "\n", capture_output=True, text=True, timeout=timeout)
            out, rc = p.stdout, p.returncode
        except subprocess.TimeoutExpired as e:
            out, rc = (e.stdout or ""), "timeout"
            if isinstance(out, bytes):
                out = out.decode(errors="replace")
        ol = out.split("\n")
        if ol and ol[-1] == "":
            ol.pop()
        while len(ol) < len(chunk_lines):
            ol.append("<no-output rc=%s>" % rc)
        return ol[:len(chunk_lines)]

    chunks = [lines[i:i + chunk] for i in range(0, len(lines), chunk)]
    with ThreadPoolExecutor(max_workers=par) as ex:
        res = list(ex.map(work, chunks))
    out = [o for r in res for o in r]
    missing = [i for i, o in enumerate(out) if o.startswith("<no-output")]
    for i in missing:
        out[i] = work([lines[i]])[0]
    return out


def file_words(case, toks):
    """the `F <stem> <n> <tokens…>` part of a driver line"""
    w = []
    for (stem, _), tk in zip(case.files, toks):
        w += ["F", core.esc(stem), str(len(tk))] + tk
    return w


def run(ctx, cases, kinds=None, model=True):
    """-> list of (case, queries, impl answers, model answers)"""
    toks = tokens(ctx, cases)
    hl, dl, qss = [], [], []
    for c, tk in zip(cases, toks):
        if any(t is None for t in tk):
            raise RuntimeError("lexer output missing for workspace " + c.id)
        h, d, qs = lines(c, tk, kinds)
        hl.append(h)
        dl.append(d)
        qss.append(qs)
    impl = run_lines([core.HARNESS_BIN, "scope"], hl)
    mod = run_lines([core.DRIVER_BIN], dl) if model else [None] * len(hl)
    out = []
    for c, qs, a, b, h, d in zip(cases, qss, impl, mod, hl, dl):
        aw = a.split(" ") if qs else []
        bw = (b.split(" ") if qs else []) if b is not None else None
        if len(aw) != len(qs):
            aw = ["<" + a[:60] + ">"] * len(qs)
        if bw is not None and len(bw) != len(qs):
            bw = ["<" + b[:60] + ">"] * len(qs)
        out.append((c, qs, aw, bw, h, d))
    return out


def value(ans):
    return ans.split("=", 1)[1] if "=" in ans else ans


def links(ans):
    """definition answer -> [(stem@selection, target-range)]"""
    v = value(ans)
    if v in ("err", "panic") or v.startswith("<"):
        return None
    out = []
    for w in (v.split(",") if v else []):
        a, _, b = w.partition("/")
        out.append((a, b))
    return out


def labels(ans):
    v = value(ans)
    if v in ("err", "panic") or v.startswith("<"):
        return None
    return v.split(",") if v else []


def deviation_suffix(tags):
    d = [t for t in DEVIATIONS if t in tags]
    return (":" + d[0]) if d else ""


def is_subseq(a, b):
    it = iter(b)
    return all(x in it for x in a)


def inside(sel, rng):
    """`l:c-l:c` selection inside `l:c-l:c` range"""
    def p(s):
        a, b = s.split("-")
        return tuple(map(int, a.split(":"))), tuple(map(int, b.split(":")))
    try:
        (ss, se), (rs, re_) = p(sel), p(rng)
    except Exception:
        return False
    return rs <= ss and se <= re_


def classify_definition(expect, got):
    """kind of disagreement between the declaration map and a definition response"""
    if got is None:
        return "request-failed"
    g = [a for a, _ in got]
    if g == expect:
        return None
    if len(g) == len(expect):
        # right declarations, wrong selection range?
        ok = True
        for e, (a, full) in zip(expect, got):
            es, _, esel = e.partition("@")
            gs, _, gsel = a.partition("@")
            if es != gs or not (gsel == esel or inside(esel, full) or gsel.split("-")[0] == esel.split("-")[0]):
                ok = False
        return "selection-range" if ok else "wrong-target"
    if len(g) < len(expect) and is_subseq(g, expect):
        return "missing"
    if len(g) > len(expect) and is_subseq(expect, g):
        return "spurious"
    return "wrong-target"


def classify_completion(expect, got):
    if got is None:
        return ["request-failed"]
    if got == expect:
        return []
    kinds = []
    up = [x.upper() for x in got]
    if len(set(up)) != len(up):
        kinds.append("duplicate-name")
    eu = {x.upper() for x in expect}
    gu = set(up)
    if eu - gu:
        kinds.append("missing-name")
    if gu - eu:
        kinds.append("extra-name")
    if not kinds:
        kinds.append("wrong-spelling")      # same names, but not the nearest declaration's spelling
    return kinds
