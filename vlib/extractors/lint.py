"""E8_LintConsts / E9_FoldSites: the constant tables and the case-folding sites of the analyzers.

E8_LintConsts  -> namespace Gold.E8 : flagged return types (key, message) in source order, the
                  method names of the inherited rule, `PASS`, the inherited operator kind,
                  `TVARBYTEARRAY`, `PURGE`, naming prefixes, every message text, severities, tags,
                  which analyzers manager/mod.rs registers (and in which order) on the plain AST
                  and on the annotated AST, whether the unused-var analyzer looks at `for` counters.
E9_FoldSites   -> namespace Gold.E9 : for every name-keyed map / set / constant comparison of these
                  files whether the key is case-folded (`to_uppercase`) where it is inserted AND
                  where it is looked up, and whether the per-method state is reset at a method node.

Tokenizer-level patterns; every pattern that no longer matches raises (fail closed).
"""
import re

from .. import extract
from ..extract import lean_str


def _one(pat, src, what, flags=re.S):
    m = re.findall(pat, src, flags)
    if len(m) != 1:
        raise ValueError("%s: expected exactly one match, found %d" % (what, len(m)))
    return m[0]


def _paren_arg(src, i):
    """src[i] == '(' -> text of the balanced parenthesis group (without the outer parens)"""
    assert src[i] == "("
    d = 0
    j = i
    while j < len(src):
        if src[j] == '"':
            j += 1
            while src[j] != '"':
                if src[j] == "\\":
                    j += 1
                j += 1
        elif src[j] == "(":
            d += 1
        elif src[j] == ")":
            d -= 1
            if d == 0:
                return src[i + 1:j]
        j += 1
    raise ValueError("unbalanced parentheses")


def _call_args(src, recv, meth):
    """first argument text of every `recv.meth(` call"""
    out = []
    for m in re.finditer(r"%s\s*\.\s*%s\s*\(" % (re.escape(recv), re.escape(meth)), src):
        arg = _paren_arg(src, m.end() - 1)
        # first top-level argument
        d = 0
        first = arg
        for k, c in enumerate(arg):
            if c in "([{":
                d += 1
            elif c in ")]}":
                d -= 1
            elif c == "," and d == 0:
                first = arg[:k]
                break
        out.append(re.sub(r"\s+", "", first))
    return out


def _folded(expr):
    return ".to_uppercase()" in expr



def _inherited_keys(inh):
    """names put into `methods_to_check`: by `insert("…")` calls, from an array literal, or from a const array it is collected from"""
    keys = re.findall(r'methods_to_check\.insert\(\s*"([^"]+)"\s*\)', inh)
    if keys:
        if len(keys) != len(re.findall(r"methods_to_check\s*\.\s*insert\s*\(", inh)):
            raise ValueError("inherited: an insert into methods_to_check is not a string literal")
        return keys
    m = re.search(r"let\s+(?:mut\s+)?methods_to_check\b[^=;]*=\s*([^;]+);", inh)
    if not m:
        return []
    rhs = m.group(1)
    lit = re.search(r"\[([^\]]*)\]", rhs)
    if lit and re.search(r"HashSet\s*::\s*from\s*\(|\.\s*(into_iter|iter)\s*\(\s*\)", rhs):
        return re.findall(r'"([^"]+)"', lit.group(1))
    c = re.match(r"\s*([A-Z_][A-Z0-9_]*)\s*\.\s*(?:iter|into_iter)\s*\(\s*\)\s*(?:\.\s*(?:copied|cloned)\s*\(\s*\)\s*)?\.\s*collect\s*(?:::\s*<[^;]*>)?\s*\(\s*\)\s*$", rhs)
    if c:
        d = re.search(r"(?:const|static)\s+%s\s*:\s*[^=]+=\s*&?\s*\[([^\]]*)\]\s*;" % c.group(1), inh)
        if d:
            return re.findall(r'"([^"]+)"', d.group(1))
    return []


def _ret_chain(ret):
    """[(KEY, SEVERITY, message)] of the return-type checker in source order: the `tok_val == KEY` if-chain, or the same
    decision written as `let msg = match tok_val.as_str() { KEY => message, …, _ => return }` followed by one push"""
    chain = re.findall(r'tok_val\s*==\s*"([^"]+)"\s*\{\s*self\.diagnostics\.push\(\s*self\.create_diagnostic\(\s*'
                       r'return_type_node\s*,\s*lsp_types::DiagnosticSeverity::([A-Z]+)\s*,\s*"([^"]*)"', ret)
    n_cmp = len(re.findall(r"tok_val\s*==", ret))
    if chain and len(chain) == n_cmp:
        return chain
    if n_cmp:
        raise ValueError("return-type chain: %d arms matched of %d" % (len(chain), n_cmp))
    m = re.search(r"let\s+(\w+)\s*=\s*match\s+tok_val\s*\.\s*as_str\s*\(\s*\)\s*(?=\{)", ret)
    if not m:
        raise ValueError("return-type chain: neither an if-chain nor a match on tok_val")
    end = extract.match_brace(ret, m.end())
    from .lexer import match_arms
    arms = match_arms(ret[m.end() + 1:end - 1])
    push = re.search(r"self\.diagnostics\.push\(\s*self\.create_diagnostic\(\s*return_type_node\s*,\s*"
                     r"lsp_types::DiagnosticSeverity::([A-Z]+)\s*,\s*%s\s*\)" % m.group(1), ret[end:])
    if not push or len(re.findall(r"self\.diagnostics\.push", ret)) != 1:
        raise ValueError("return-type match: the single push after it not recognised")
    out, default = [], False
    for pat, expr in arms:
        pat, expr = pat.strip(), expr.strip().rstrip(",").strip()
        if pat == "_":
            if not re.fullmatch(r"return\s*(\(\s*\))?;?", expr):
                raise ValueError("return-type match: default arm does more than return")
            default = True
            continue
        k = re.fullmatch(r'"([^"]+)"', pat)
        if not k or default:
            raise ValueError("return-type match: arm %r not recognised" % pat)
        lit = re.fullmatch(r'"([^"]*)"', expr)
        if lit:
            msg = lit.group(1)
        else:
            c = re.search(r'(?:const|static)\s+%s\s*:\s*&\s*(?:\'static\s+)?str\s*=\s*"([^"]*)"\s*;' % re.escape(expr), ret)
            if not re.fullmatch(r"\w+", expr) or not c:
                raise ValueError("return-type match: message of %s not recognised" % pat)
            msg = c.group(1)
        out.append((k.group(1), push.group(1), msg))
    if not out or not default:
        raise ValueError("return-type match: no arms / no default")
    return out


def _folded_in(src):
    """like _folded, but a key that is a plain local (`get_mut(&var_key)`) is traced to its `let` bindings in `src`:
    every binding of that name must fold"""
    def f(expr):
        if _folded(expr):
            return True
        name = expr.lstrip("&*")
        if re.fullmatch(r"\w+", name):
            binds = re.findall(r"let\s+(?:mut\s+)?%s\s*(?::[^=;]*)?=\s*([^;]*);" % re.escape(name), src)
            return bool(binds) and all(_folded(b) for b in binds)
        return False
    return f



def _loop_key(body, map_name, what):
    """name of the KEY variable of the report loop over `self.<map_name>` — `for (k, v) in self.m.iter()` / `in &self.m` — or ""
    when the loop runs over the values only (`self.m.values()…`: the message cannot name the key then)"""
    m = re.search(r"for\s*\((\w+)\s*,\s*\w+\)\s*in\s*(?:&\s*self\.%s\b|self\.%s\.iter\(\))" % (map_name, map_name), body)
    if m:
        return m.group(1)
    if re.search(r"(?:for\s+\w+\s+in\s+|=\s*)self\.%s\.values\(\)" % map_name, body):
        return ""
    raise ValueError("%s: expected exactly one match, found 0" % what)


def _fmt(src, what):
    """`format!("pre{}post", arg)` -> (pre, post, arg)"""
    m = re.findall(r'format!\(\s*"([^"]*)"\s*,\s*([^)]*?)\s*\)', src, re.S)
    if len(m) != 1 or m[0][0].count("{}") != 1:
        raise ValueError("%s: expected one format! with one placeholder" % what)
    pre, post = m[0][0].split("{}")
    return pre, post, re.sub(r"\s+", "", m[0][1])


def _sev(src, what):
    m = set(re.findall(r"DiagnosticSeverity::([A-Z]+)", src))
    if len(m) != 1:
        raise ValueError("%s: expected one severity, found %s" % (what, sorted(m)))
    s = m.pop()
    if s not in ("ERROR", "WARNING", "INFORMATION", "HINT"):
        raise ValueError("%s: unknown severity %s" % (what, s))
    return s[0]


def _sources(repo):
    r = lambda p: extract.strip_comments(extract.read(repo, p))
    return {
        "unused": r("analyzers/unused_var_analyzer.rs"),
        "ret": r("analyzers/function_return_type_checker.rs"),
        "inh": r("analyzers_v2/inherited_checker.rs").split("#[cfg(test)]")[0],
        "unp": r("analyzers_v2/unpurged_varbytearray_checker.rs").split("#[cfg(test)]")[0],
        "nam": r("analyzers_v2/naming_convention_checker.rs").split("#[cfg(test)]")[0],
        "mgr": r("manager/mod.rs").split("#[cfg(test)]")[0],
        "utl": r("utils.rs"),
    }


def _arm_body(src, fn, ty):
    """body of the `Some(..) => { … }` / `Some(..) => expr,` arm that follows
    `downcast_ref::<ty>()` inside fn `fn`"""
    body = extract.fn_body(src, fn)
    m = re.search(r"downcast_ref::<\s*%s\s*>\(\)\s*\{\s*Some\([^)]*\)\s*=>\s*" % ty, body)
    if not m:
        # the same arm written as `if let Some(..) = ….downcast_ref::<ty>() { … }` or `if ….downcast_ref::<ty>().is_some() { … }`
        for pat in (r"if\s+let\s+Some\([^)]*\)\s*=\s*[^{;]*downcast_ref::<\s*%s\s*>\(\)\s*(?=\{)" % ty,
                    r"if\s+[^{;]*downcast_ref::<\s*%s\s*>\(\)\s*\.\s*is_some\s*\(\s*\)\s*(?=\{)" % ty):
            m2 = re.search(pat, body)
            if m2:
                return body[m2.end():extract.match_brace(body, m2.end())]
        raise ValueError("fn %s: no arm for %s" % (fn, ty))
    if body[m.end()] == "{":
        return body[m.end():extract.match_brace(body, m.end())]
    d = 0
    for j in range(m.end(), len(body)):
        c = body[j]
        if c in "([{":
            d += 1
        elif c in ")]}":
            d -= 1
        if (c == "," and d == 0) or d < 0:
            return body[m.end():j]
    raise ValueError("fn %s: arm for %s not delimited" % (fn, ty))


@extract.item("E8_LintConsts")
def lint_consts(repo):
    S = _sources(repo)
    L = ["namespace Gold.E8", ""]
    detail = []

    def d(name, ty, val, doc=None):
        if doc:
            L.append("/-- %s -/" % doc)
        L.append("def %s : %s := %s" % (name, ty, val))

    def strs(l):
        return "[" + ", ".join(lean_str(x) for x in l) + "]"

    # ---- function_return_type_checker.rs ---------------------------------------------------
    ret = S["ret"]
    chain = _ret_chain(ret)
    if len({c[1] for c in chain}) != 1:
        raise ValueError("return-type chain: mixed severities")
    if "self.notify_param_decl_node(node)" not in _arm_body(ret, "visit", "AstFunction"):
        raise ValueError("return-type checker no longer triggers on AstFunction")
    if not re.search(r"return_type\.as_any\(\)\.downcast_ref::<AstTypeBasic>\(\)", ret) or \
            not re.search(r"token\.token_type\s*==\s*TokenType::Identifier", ret):
        raise ValueError("return-type checker: guard on AstTypeBasic / Identifier changed")
    d("returnTypes", "List (String × String)",
      "[" + ", ".join("(%s, %s)" % (lean_str(k), lean_str(m)) for k, _, m in chain) + "]",
      "function_return_type_checker.rs: the `tok_val == KEY` chain in source order, with the message")
    d("sevReturnType", "String", lean_str(chain[0][1][0]))
    detail.append("returnTypes=%s" % [c[0] for c in chain])

    # ---- inherited_checker.rs -----------------------------------------------------------------
    inh = S["inh"]
    names = _inherited_keys(inh)
    if not names:
        raise ValueError("inherited: no methods_to_check.insert")
    d("inheritedMethods", "List String", strs(names), "inherited_checker.rs: `methods_to_check`")
    passn = _one(r'token\.get_value\(\)\.to_uppercase\(\)\.as_str\(\)\s*==\s*"([^"]+)"', inh, "inherited: pass comparison")
    d("passName", "String", lean_str(passn))
    opk = _one(r"unary_op\.op_token\.token_type\s*==\s*TokenType::(\w+)", inh, "inherited: operator kind")
    d("inheritedOpKind", "String", lean_str(opk))
    if not re.search(r"expr_node\.as_any\(\)\.downcast_ref::<AstBinaryOp>\(\)", inh):
        raise ValueError("inherited: operand is no longer required to be an AstBinaryOp")
    pre, post, arg = _fmt(extract.fn_body(inh, "check_inherited_called"), "inherited message")
    d("inheritedMsgPre", "String", lean_str(pre))
    d("inheritedMsgPost", "String", lean_str(post))
    d("sevInherited", "String", lean_str(_sev(extract.fn_body(inh, "check_inherited_called"), "inherited severity")))
    detail.append("inherited=%s pass=%s" % (names, passn))

    # ---- unpurged_varbytearray_checker.rs ---------------------------------------------------------
    unp = S["unp"]
    bat = _one(r'type_node\.get_identifier\(\)\.to_uppercase\(\)\.as_str\(\)\s*==\s*"([^"]+)"', unp, "unpurged: type name")
    pur = _one(r'method_call\.get_identifier\(\)\.to_uppercase\(\)\.as_str\(\)\s*==\s*"([^"]+)"', unp, "unpurged: purge name")
    d("byteArrayType", "String", lean_str(bat))
    d("purgeName", "String", lean_str(pur))
    pre, post, arg = _fmt(extract.fn_body(unp, "generate_diags_for_unpurged"), "unpurged message")
    d("unpurgedMsgPre", "String", lean_str(pre))
    d("unpurgedMsgPost", "String", lean_str(post))
    d("sevUnpurged", "String", lean_str(_sev(extract.fn_body(unp, "generate_diags_for_unpurged"), "unpurged severity")))
    kv = _loop_key(extract.fn_body(unp, "generate_diags_for_unpurged"), "byte_array_seen", "unpurged: report loop")
    d("unpurgedMsgArgIsKey", "Bool", "true" if arg == kv else "false", "the name inside the message is the map key (else: the declared spelling)")
    if not re.search(r"children\.first\(\)", extract.fn_body(unp, "handle_method_call")):
        raise ValueError("unpurged: Purge no longer looks at the first argument")

    # ---- unused_var_analyzer.rs ---------------------------------------------------------------------
    unu = S["unused"]
    # a diagnostic may be built by a private constructor helper: one level of helpers is inlined (arguments substituted)
    cu = extract.inline_helpers(unu, extract.fn_body(unu, "check_unused_vars"))
    pre, post, arg = _fmt(cu, "unused message")
    d("unusedMsgPre", "String", lean_str(pre))
    d("unusedMsgPost", "String", lean_str(post))
    d("sevUnused", "String", lean_str(_sev(cu, "unused severity")))
    kv = _loop_key(cu, "cur_local_vars", "unused: report loop")
    d("unusedMsgArgIsKey", "Bool", "true" if arg == kv else "false", "the name inside the message is the map key (else: the declared spelling)")
    d("tagsUnused", "Nat", str(len(re.findall(r"DiagnosticTag::\w+", cu))))
    if not re.search(r"val\.use_count\s*==\s*0", cu):
        raise ValueError("unused: report condition is no longer `use_count == 0`")
    nl = extract.inline_helpers(unu, extract.fn_body(unu, "notify_local_var_node"))
    d("dupMsg", "String", lean_str(_one(r'"([^"]*)"\.to_string\(\)', nl.replace('"gold".to_string()', ""), "duplicate-declaration message")))
    d("sevDup", "String", lean_str(_sev(nl, "duplicate severity")))
    d("tagsDup", "Nat", str(len(re.findall(r"DiagnosticTag::\w+", nl))))
    forc = "AstForBlock" in unu and "counter_token" in unu
    if forc:
        fa = _arm_body(unu, "visit", "AstForBlock")
        fn_ = re.search(r"self\.(\w+)\(", fa)
        fb = extract.fn_body(unu, fn_.group(1)) if fn_ else fa
        direct = re.search(r"cur_local_vars\s*\.\s*get_mut\(\s*&?node\.counter_token", fb)
        via = re.search(r"cur_local_vars\s*\.\s*get_mut\(\s*&?(\w+)\s*\)", fb)
        via_ok = bool(via and re.search(r"let\s+%s\s*=\s*node\.counter_token" % re.escape(via.group(1)), fb))   # key bound to a local first
        if not (direct or via_ok) or not re.search(r"use_count\s*(?:\+=\s*1|=\s*[\w\.]*use_count\s*\+\s*1)", fb):
            raise ValueError("unused: handling of AstForBlock not recognised")
    ta = _arm_body(unu, "visit", "AstTerminal")
    if "self.notify_terminal_node(node)" not in ta:
        raise ValueError("unused: terminal arm not recognised")
    guards = re.findall(r"token\.token_type\s*(!=|==)\s*TokenType::(\w+)", ta)
    if guards not in ([], [("!=", "StringLiteral")]):
        raise ValueError("unused: unknown guard on terminals %s" % guards)
    d("unusedSkipsStringLiterals", "Bool", "true" if guards else "false",
      "string-literal terminals are not looked up in the unused-var map")
    d("unusedCountsForCounter", "Bool", "true" if forc else "false",
      "does the unused-var analyzer treat the counter of a `for` block as a mention")
    detail.append("forCounter=%s" % forc)

    # ---- naming_convention_checker.rs ------------------------------------------------------------------
    nam = S["nam"]
    mp = extract.fn_body(nam, "handle_member_and_param_decl")
    chunks = re.split(r"downcast_ref::<\s*(\w+)\s*>\(\)", mp)
    got = {}
    for k in range(1, len(chunks), 2):
        ms = re.findall(r'"([^"]*)"\.to_string\(\)', chunks[k + 1])
        if len(ms) != 1:
            raise ValueError("naming: %s has %d messages" % (chunks[k], len(ms)))
        got[chunks[k]] = ms[0]
    want = {"AstProcedure": "namingProcMsg", "AstFunction": "namingFuncMsg",
            "AstGlobalVariableDeclaration": "namingFieldMsg", "AstParameterDeclaration": "namingParamMsg"}
    if set(got) != set(want):
        raise ValueError("naming: member/param kinds are now %s" % sorted(got))
    for k, n in want.items():
        d(n, "String", lean_str(got[k]))
    if len(re.findall(r"!is_overriding_member\(node\)", mp)) != 3 or len(re.findall(r"!is_overriding_member\(&gparent_node\)", mp)) != 1:
        raise ValueError("naming: override exemptions changed")
    if len(re.findall(r"handle_check_uppercase_first_char\(", mp)) != 4:
        raise ValueError("naming: capital-letter checks changed")
    hc = extract.fn_body(nam, "handle_check_uppercase_first_char")
    if not re.search(r"!self\.is_underscore_first_char\(id\)\s*&&\s*!self\.is_uppercase_first_char\(id\)", hc):
        raise ValueError("naming: capital rule changed")
    # a warning may be built by a private helper: one level of helpers is inlined (the predicates on the first character stay calls)
    PRED = ("is_underscore_first_char", "is_uppercase_first_char", "is_first_char", "is_overriding_member")
    lv = extract.inline_helpers(nam, extract.fn_body(nam, "handle_local_var_decl"), skip=PRED)
    if not re.search(r"!self\.is_underscore_first_char\(id\)\s*&&\s*self\.is_uppercase_first_char\(id\)", lv):
        raise ValueError("naming: local rule changed")
    d("namingLocalMsg", "String", lean_str(_one(r'message:\s*"([^"]*)"\.to_string\(\)', lv, "naming local message")))
    td = extract.inline_helpers(nam, extract.fn_body(nam, "handle_type_decl"), skip=PRED)
    d("namingTypeMsg", "String", lean_str(_one(r'message:\s*"([^"]*)"\.to_string\(\)', td, "naming type message")))
    d("typePrefix", "Char", "'%s'" % _one(r"!self\.is_first_char\(type_decl\.get_identifier\(\),\s*'(.)'\)", td, "type prefix"))
    cd = extract.inline_helpers(nam, extract.fn_body(nam, "handle_constant_decl"), skip=PRED)
    d("namingConstMsg", "String", lean_str(_one(r'message:\s*"([^"]*)"\.to_string\(\)', cd, "naming const message")))
    cm = re.search(r"if\s*!self\.is_first_char\(const_decl\.get_identifier\(\),\s*'(.)'\)\s*&&\s*!const_decl\.get_identifier\(\)\.starts_with\(\"([^\"]+)\"\)\s*\{", cd)
    if not cm:
        raise ValueError("naming: constant rule changed")
    d("constPrefix", "Char", "'%s'" % cm.group(1))
    d("constPrefixStr", "String", lean_str(cm.group(2)))
    d("exemptChar", "Char", "'%s'" % _one(r"\b\w+\s*==\s*'(.)'", extract.inline_helpers(nam, extract.fn_body(nam, "is_underscore_first_char")), "underscore char"))
    d("sevNaming", "String", lean_str(_sev(nam, "naming severity")))
    # is_overriding_member = get_member_modifiers().is_override, else false
    om = extract.fn_body(S["utl"], "is_overriding_member")
    if not re.search(r"get_member_modifiers\(\)\s*\{\s*return\s+modifiers\.is_override;\s*\}\s*return\s+false;", om):
        raise ValueError("is_overriding_member changed")

    # ---- manager/mod.rs: who runs ------------------------------------------------------------------------
    mgr = S["mgr"]
    aa = extract.fn_body(mgr, "analyze_ast")
    v1 = [x.split("::")[-1] for x in re.findall(r"Rc::new\(RefCell::new\(\s*([\w:]+)::new\(\)\s*\)\)", aa)]
    if len(v1) != len(re.findall(r"Rc::new\(", aa)) or not re.search(r"ast_walker\.register_visitors\(&analyzers\)", aa) \
            or len(re.findall(r"register_visitor", aa)) != 1:
        raise ValueError("manager: analyze_ast registers analyzers in a form that is not recognised")
    g = extract.fn_body(mgr, "generate_diags_on_annotated_ast")
    decl = {k: v.split("::")[-1] for k, v in
            re.findall(r"let\s+(\w+)\s*:\s*Box<dyn IAnnotatedNodeVisitor>\s*=\s*Box::new\(\s*([\w:]+)::new\(", g)}
    order = re.findall(r"walker\.register_visitor\(\s*(\w+)\s*\)", g)
    if not v1 or not order or any(o not in decl for o in order) or len(order) != len(re.findall(r"register_visitor", g)) \
            or len(decl) != len(re.findall(r"Box::new\(", g)):
        raise ValueError("manager: analyzer registration not recognised")
    d("v1Analyzers", "List String", strs(v1), "manager/mod.rs `analyze_ast`: analyzers on the plain AST, in order")
    d("v2Analyzers", "List String", strs([decl[o] for o in order]),
      "manager/mod.rs `generate_diags_on_annotated_ast`: visitors on the annotated AST, in order")
    gd = extract.fn_body(mgr, "generate_diagnostics")
    i1, i2 = gd.find("get_analyzer_diagnostics"), gd.find("generate_diags_on_annotated_ast")
    if not (0 < i1 < i2):
        raise ValueError("manager: order of the two analyzer groups changed")
    ga = extract.fn_body(mgr, "get_analyzer_diagnostics")
    d("v1Cached", "Bool", "true" if "set_analyzer_diagnostics(Some(" in ga and "get_analyzer_diagnostics()" in ga else "false",
      "plain-AST analyzer results are stored on the document and reused by later requests")
    detail.append("v1=%s v2=%s" % (v1, [decl[o] for o in order]))
    L += ["", "end Gold.E8", ""]
    return "\n".join(L), "; ".join(detail)


@extract.item("E9_FoldSites")
def fold_sites(repo):
    """every site is read on its own; a site whose pattern no longer matches is recorded as NOT folded /
    NOT reset (fail closed per site), so that only the theorems that depend on it stop checking"""
    S = _sources(repo)
    sites = []   # (name, insertFolded, lookupFolded, doc)
    resets = []  # (name, bool)
    unreadable = []

    def site(name, f):
        try:
            a, b, doc = f()
        except Exception as e:  # fail closed for this site
            a, b, doc = False, False, "NOT READABLE (%s) - treated as not folded" % str(e).replace("\n", " ")
            unreadable.append(name)
        sites.append((name, bool(a), bool(b), doc))

    def reset(name, f):
        try:
            v = bool(f())
        except Exception:
            v = False
            unreadable.append("reset:" + name)
        resets.append((name, v))

    unu, unp, inh, ret = S["unused"], S["unp"], S["inh"], S["ret"]

    def unused_map():
        ins = _call_args(unu, "self.cur_local_vars", "insert")
        look = _call_args(unu, "self.cur_local_vars", "get_mut") + _call_args(unu, "self.cur_local_vars", "get")
        if len(ins) != 1 or len(look) < 2:
            raise ValueError("unused-var map: %d inserts, %d lookups" % (len(ins), len(look)))
        return all(map(_folded_in(unu), ins)), all(map(_folded_in(unu), look)), \
            "unused_var_analyzer.rs `cur_local_vars`: insert=%s lookups=%s" % (ins, look)
    site("unusedVarMap", unused_map)

    def unused_reset():
        rs = True
        for ty in ("AstProcedure", "AstFunction"):
            b = _arm_body(unu, "visit", ty)
            rs = rs and "check_unused_vars()" in b and re.search(r"self\.cur_local_vars\s*=\s*HashMap::new\(\)", b) is not None
        return rs
    reset("unusedVarMap", unused_reset)

    def unpurged_map():
        ins = _call_args(unp, "self.byte_array_seen", "insert")
        look = _call_args(unp, "self.byte_array_seen", "get_mut") + _call_args(unp, "self.byte_array_seen", "get")
        if len(ins) != 1 or len(look) != 1:
            raise ValueError("unpurged map: %d inserts, %d lookups" % (len(ins), len(look)))
        return all(map(_folded_in(unp), ins)), all(map(_folded_in(unp), look)), \
            "unpurged_varbytearray_checker.rs `byte_array_seen`: insert=%s lookup=%s" % (ins, look)
    site("unpurgedMap", unpurged_map)

    def unpurged_reset():
        rs = True
        for ty in ("AstProcedure", "AstFunction"):
            b = extract.inline_helpers(unp, _arm_body(unp, "handle_method_decl", ty), skip=("generate_diags_for_unpurged",))
            rs = rs and "generate_diags_for_unpurged()" in b and "byte_array_seen.clear()" in b
        return rs
    reset("unpurgedMap", unpurged_reset)

    def inh_set():
        keys = _inherited_keys(inh)
        look = _call_args(inh, "self.methods_to_check", "contains")
        if not keys or len(look) != 1:
            raise ValueError("inherited: method set not recognised")
        return all(k == k.upper() for k in keys), all(map(_folded_in(inh), look)), \
            "inherited_checker.rs `methods_to_check`: keys=%s lookup=%s" % (keys, look)
    site("inheritedMethodSet", inh_set)

    def inh_call():
        cmp_ = re.search(r"if\s+bin_op\.right_node\.get_identifier\(\)(\.to_uppercase\(\))?\s*==\s*cur_method\.read\(\)\.unwrap\(\)\.get_identifier\(\)(\.to_uppercase\(\))?\s*\{", inh)
        if not cmp_:
            raise ValueError("inherited: comparison of the called name not recognised")
        return cmp_.group(1) is not None, cmp_.group(2) is not None, "inherited_checker.rs: right operand vs current method name"
    site("inheritedCallName", inh_call)

    def inh_reset():
        hm = extract.fn_body(inh, "handle_method_node")
        ok = "self.check_inherited_called()" in hm and re.search(r"self\.is_inherited_called\s*=\s*false", hm) is not None \
            and re.search(r"self\.current_method\s*=\s*Some\(node\.clone\(\)\)", hm) is not None
        for ty in ("AstProcedure", "AstFunction"):
            ok = ok and "self.handle_method_node(node, context)" in _arm_body(inh, "visit_w_context", ty)
        return ok
    reset("inheritedFlag", inh_reset)

    def pass_name():
        pm = re.search(r'token\.get_value\(\)(\.to_uppercase\(\))?\.as_str\(\)\s*==\s*"([^"]+)"', inh)
        if not pm:
            raise ValueError("inherited: pass comparison not recognised")
        return pm.group(2) == pm.group(2).upper(), pm.group(1) is not None, "inherited_checker.rs: terminal value vs PASS"
    site("passName", pass_name)

    def ret_name():
        keys = [c[0] for c in _ret_chain(ret)]
        tv = re.search(r"let\s+tok_val\s*=\s*token\.get_value_as_str\(\)(\.to_uppercase\(\))?\s*;", ret)
        if not keys or not tv:
            raise ValueError("return type: comparison not recognised")
        return all(k == k.upper() for k in keys), tv.group(1) is not None, "function_return_type_checker.rs: tok_val vs %s" % keys
    site("returnTypeName", ret_name)

    def ba_name():
        m1 = re.search(r'type_node\.get_identifier\(\)(\.to_uppercase\(\))?\.as_str\(\)\s*==\s*"([^"]+)"', unp)
        if not m1:
            raise ValueError("unpurged: type comparison not recognised")
        return m1.group(2) == m1.group(2).upper(), m1.group(1) is not None, "unpurged checker: local type vs %s" % m1.group(2)
    site("byteArrayTypeName", ba_name)

    def purge_name():
        m2 = re.search(r'method_call\.get_identifier\(\)(\.to_uppercase\(\))?\.as_str\(\)\s*==\s*"([^"]+)"', unp)
        if not m2:
            raise ValueError("unpurged: call-name comparison not recognised")
        return m2.group(2) == m2.group(2).upper(), m2.group(1) is not None, "unpurged checker: call name vs %s" % m2.group(2)
    site("purgeName", purge_name)

    L = ["namespace Gold.E9", "", "/-- name-keyed maps, sets and constant comparisons of the analyzers -/", "inductive Site where"]
    L += ["  | %s" % s[0] for s in sites]
    L += ["deriving DecidableEq, Repr", "", "def Site.all : List Site := [" + ", ".join("." + s[0] for s in sites) + "]", ""]
    L += ["/-- the key (or the constant) is case-folded where it is stored -/", "def foldsInsert : Site → Bool"]
    L += ["  | .%s => %s   -- %s" % (s[0], "true" if s[1] else "false", s[3]) for s in sites]
    L += ["", "/-- the name is case-folded where it is looked up / compared -/", "def foldsLookup : Site → Bool"]
    L += ["  | .%s => %s" % (s[0], "true" if s[2] else "false") for s in sites]
    L += ["", "def foldsCase (s : Site) : Bool := foldsInsert s && foldsLookup s", ""]
    L += ["/-- per-method state is reported and reset when a procedure / function node is entered -/", "inductive StateSite where"]
    L += ["  | %s" % r[0] for r in resets]
    L += ["deriving DecidableEq, Repr", "", "def resetsAtMethod : StateSite → Bool"]
    L += ["  | .%s => %s" % (r[0], "true" if r[1] else "false") for r in resets]
    L += ["", "end Gold.E9", ""]
    detail = "; ".join("%s=%s/%s" % (s[0], s[1], s[2]) for s in sites) + "; resets " + ",".join("%s=%s" % r for r in resets)
    if unreadable:
        detail += "; UNREADABLE (recorded as false): " + ",".join(unreadable)
    return "\n".join(L), detail
