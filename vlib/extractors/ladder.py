"""E5_OperatorLadder: the binary-operator levels of src/parser/body_parser.rs
   (function, operator token kinds in order, operand parser) -> Gold.Gen.ladder"""
import re

from .. import extract

LEVEL_FNS = ["parse_dot_ops", "parse_factors", "parse_terms", "parse_bit_ops_1", "parse_bit_ops_2", "parse_shifts",
             "parse_compare", "parse_logical_and", "parse_logical_or"]


@extract.item("E5_OperatorLadder")
def ladder(repo):
    src = extract.strip_comments(extract.read(repo, "parser/body_parser.rs"))
    rows = []
    for fn in LEVEL_FNS:
        body = extract.fn_body(src, fn)
        ops = re.findall(r"exp_token\(\s*TokenType::(\w+)\s*\)", body)
        m = re.search(r"parse_binary_ops_w_context\(\s*input\s*,\s*&\s*\w+\s*,\s*&\s*(\w+)\s*,\s*context\s*\)", body)
        if not ops or not m:
            raise ValueError("level function %s has an unexpected shape" % fn)
        rows.append((fn, ops, m.group(1)))
    # parse_expr must enter the ladder at its top, parse_primary must be what the lowest level calls
    pe = extract.fn_body(src, "parse_expr")
    top = re.search(r"let\s+parser\s*=\s*\[\s*(\w+)\s*,?\s*\]", pe)
    if not top:
        raise ValueError("parse_expr: entry of the ladder not found")
    L = extract.lean_str
    out = ["import GoldModel.Gen.E1_TokenKind", "namespace Gold.Gen", "",
           "/-- (level function, its operators, its operand parser), lowest (tightest) level first -/",
           "def ladder : List (String × List Kind × String) := ["]
    for i, (fn, ops, operand) in enumerate(rows):
        out.append("  (%s, [%s], %s)%s" % (L(fn), ", ".join("Kind.%s" % o for o in ops), L(operand), "," if i + 1 < len(rows) else ""))
    out += ["]", "", "/-- what `parse_expr` calls -/", "def ladderTop : String := %s" % L(top.group(1)), "",
            "def opsOf (fn : String) : List Kind := ((ladder.find? (fun r => r.1 == fn)).map (fun r => r.2.1)).getD []", "",
            "end Gold.Gen", ""]
    return "\n".join(out), "; ".join("%s:%s->%s" % (f, "/".join(o), p) for f, o, p in rows) + "; top=" + top.group(1)
