"""E1_TokenKind: `enum TokenType` of src/lexer/tokens.rs -> `inductive Gold.Kind` (+ name / ofName)."""
import re

from .. import extract


@extract.item("E1_TokenKind")
def token_kind(repo):
    src = extract.strip_comments(extract.read(repo, "lexer/tokens.rs"))
    m = re.search(r"pub enum TokenType\s*\{", src)
    if not m:
        raise ValueError("enum TokenType not found")
    body = src[m.end():extract.match_brace(src, m.end() - 1) - 1]
    names = [x.strip() for x in body.split(",") if x.strip()]
    for n in names:
        if not re.fullmatch(r"[A-Z][A-Za-z0-9]*", n):
            raise ValueError("unexpected variant syntax: %r" % n)
    if len(set(names)) != len(names) or len(names) < 100:
        raise ValueError("suspicious variant list (%d)" % len(names))
    out = ["namespace Gold", "", "/-- `TokenType` of src/lexer/tokens.rs -/", "inductive Kind where"]
    out += ["  | %s" % n for n in names]
    out += ["deriving DecidableEq, Repr, Inhabited", "", "def Kind.all : List Kind := ["]
    out += ["  " + ", ".join(".%s" % n for n in names), "]", ""]
    out += ["/-- the `Debug` rendering of the variant -/", "def Kind.name : Kind → String"]
    out += ['  | .%s => "%s"' % (n, n) for n in names]
    out += ["", "def Kind.ofName (s : String) : Option Kind := Kind.all.find? (fun k => k.name == s)", "", "end Gold", ""]
    return "\n".join(out), "%d token kinds" % len(names)
