"""E8_ScopeConsts: the constant tables and case-folding sites of name resolution / completion
(`analyzers_v2/type_resolver.rs`, `manager/document_service.rs`, `manager/completion_service.rs`,
`analyzers_v2/symbol_table.rs`) -> `Gold.ScopeGen` (consumed by Model/Scope.lean and Props/C17.lean).

* native type names: the string arms of `resolve_type_basic`'s `match id.to_uppercase()`;
* intrinsic methods: the string arms of `resolve_method_call`'s `match method_id`;
* which `SymbolType`s the two completion filters keep / drop;
* fold sites: every place where an identifier meets a map or a string table, and whether the
  identifier goes through `to_uppercase()` there.  Fails closed when a pattern no longer matches.
"""
import re

from .. import extract


def arms_before_catchall(body, scrutinee_re):
    m = re.search(r"match\s+" + scrutinee_re + r"\s*\{", body)
    if not m:
        raise ValueError("match on %s not found" % scrutinee_re)
    blk = body[m.end() - 1:extract.match_brace(body, m.end() - 1)]
    return m, blk


@extract.item("E8_ScopeConsts")
def scope_consts(repo):
    tr = extract.strip_comments(extract.read(repo, "analyzers_v2/type_resolver.rs"))
    sites = []

    # ---- resolve_type_basic ---------------------------------------------------------------
    body = extract.fn_body(tr, "resolve_type_basic")
    m, blk = arms_before_catchall(body, r"node\.get_identifier\(\)(\.to_uppercase\(\))?\.as_str\(\)")
    sites.append(("type_resolver::resolve_type_basic: native-type match scrutinee", m.group(1) is not None))
    natives = []
    for arm in re.finditer(r'((?:"[^"]*"\s*\|\s*)*"[^"]*")\s*=>\s*Some\(EvalType::Native', blk):
        natives += re.findall(r'"([^"]*)"', arm.group(1))
    if len(natives) < 8 or len(set(natives)) != len(natives):
        raise ValueError("suspicious native type list %r" % natives)
    if not re.search(r"\bid\s*=>", blk):
        raise ValueError("catch-all arm of resolve_type_basic not found")
    # every string pattern of the match must have been read as a native type (an arm of another shape fails closed)
    if sorted(re.findall(r'"([^"]*)"\s*(?:\||=>)', blk)) != sorted(natives):
        raise ValueError("resolve_type_basic: not every string pattern of the match was read as a native type")
    # the catch-all binds the upper-cased id; the class index and the tables are asked with it
    sites.append(("type_resolver::resolve_type_basic: class index asked with the folded id", bool(re.search(r"get_uri_for_class\(&id\.to_string\(\)\)", blk))))

    # ---- resolve_terminal -----------------------------------------------------------------
    body = extract.fn_body(tr, "resolve_terminal")
    sites.append(("type_resolver::resolve_terminal: identifier", bool(re.search(r"let\s+id\s*=\s*node\.get_identifier\(\)\.to_uppercase\(\)", body))))

    # ---- resolve_method_call (type resolver) ----------------------------------------------
    body = extract.fn_body(tr, "resolve_method_call")
    sites.append(("type_resolver::resolve_method_call: method id", bool(re.search(r"let\s+method_id\s*=\s*method_node\.get_identifier\(\)\.to_uppercase\(\)", body))))
    m, blk = arms_before_catchall(body, r"method_id\.as_str\(\)")
    procs, nats = [], []
    for arm in re.finditer(r'((?:"[^"]*"\s*\|\s*)*"[^"]*")\s*=>\s*return\s+Some\(EvalType::(\w+)', blk):
        (procs if arm.group(2) == "Proc" else nats).extend(re.findall(r'"([^"]*)"', arm.group(1)))
    if not procs or not nats:
        raise ValueError("intrinsic arms not found")
    # every string pattern of the match must have been read (an arm of another shape fails closed)
    head = blk[:re.search(r"\b_\s*=>", blk).start()] if re.search(r"\b_\s*=>", blk) else blk
    if sorted(re.findall(r'"([^"]*)"\s*(?:\||=>)', head)) != sorted(procs + nats):
        raise ValueError("intrinsic arms: not every string pattern of the match was read")

    # ---- class index --------------------------------------------------------------------------
    ds = extract.strip_comments(extract.read(repo, "manager/document_service.rs"))
    body = extract.fn_body(ds, "get_uri_for_class")
    key = extract.first_arg_of(body, r"class_uri_map\s*\.\s*read\(\)\s*\.\s*unwrap\(\)\s*\.\s*get\(")
    if key is None:
        raise ValueError("get_uri_for_class: class_uri_map lookup not found")
    sites.append(("document_service::get_uri_for_class: lookup key", extract.folded_in(body)(key)))
    body = extract.fn_body(ds, "index_files")
    key = extract.first_arg_of(body, r"class_uri_map\s*\.\s*write\(\)\s*\.\s*unwrap\(\)\s*\.\s*insert\(")
    if key is None:
        raise ValueError("class_uri_map insert not found")
    sites.append(("document_service::index_files: insert key", extract.folded_in(body)(key)))

    # ---- symbol table ---------------------------------------------------------------------------
    st = extract.strip_comments(extract.read(repo, "analyzers_v2/symbol_table.rs"))
    for fn in ("get_symbol_info", "search_symbol_info_wparent", "search_all_symbol_info", "search_symbol_info"):
        body = extract.fn_body(st[st.index("impl ISymbolTable for SymbolTable"):], fn)
        KEY = r"hash_map\s*\.\s*get\("
        g, where = extract.first_arg_of(body, KEY), body
        if g is None:
            # the lookup may sit in a private helper the function calls (`self.local_index_of(id)`): follow one level
            for h in re.findall(r"self\.(\w+)\(", body):
                try:
                    hb = extract.fn_body(st, h)
                except Exception:
                    continue
                g, where = extract.first_arg_of(hb, KEY), hb
                if g is not None:
                    break
        if g is None:
            raise ValueError("hash_map.get not found in " + fn)
        sites.append(("symbol_table::%s: lookup key" % fn, extract.folded_in(where)(g)))
    body = extract.fn_body(st[st.index("impl ISymbolTable for SymbolTable"):], "insert_symbol_info")
    g = extract.first_arg_of(body, r"hash_map\s*\.\s*insert\(")
    if g is None:
        raise ValueError("hash_map.insert not found")
    sites.append(("symbol_table::insert_symbol_info: insert key", extract.folded_in(body)(g)))

    # ---- completion filters ---------------------------------------------------------------------
    cs = extract.strip_comments(extract.read(repo, "manager/completion_service.rs"))
    variants = re.findall(r"^\s*(\w+)\s*,?\s*$", re.sub(r"#\[[^\]]*\]", "", st[st.index("enum SymbolType"):st.index("}", st.index("enum SymbolType"))].split("{", 1)[1]), re.M)
    if len(variants) < 6:
        raise ValueError("enum SymbolType not read")

    def predicate_sets():
        """`fn p(x: &SymbolType) -> bool { matches!(x, A | B) }` helpers of the completion service -> {p: {A, B}}"""
        out = {}
        for m in re.finditer(r"fn\s+(\w+)\s*\(\s*(\w+)\s*:\s*&?\s*SymbolType\s*\)\s*->\s*bool\s*\{\s*matches!\s*\(\s*\*?\2\s*,([^)]*)\)\s*\}", cs):
            out[m.group(1)] = set(re.findall(r"SymbolType::(\w+)", m.group(3)))
        return out

    def kinds(fn, verdict):
        """the kinds for which the `.filter(|sym_info| …)` closure of fn returns `verdict`: read off the arm
        `A | B => return <verdict>` (source order), or — when the closure is written with predicate helpers, `!`, `&&`, `||`,
        `if … {…} else {…}` — by evaluating it for every variant of SymbolType (enum order).  Anything else fails closed."""
        body = extract.fn_body(cs, fn)
        m = re.search(r"((?:SymbolType::\w+\s*\|?\s*)+)=>\s*return\s+%s" % verdict, body)
        if m:
            return re.findall(r"SymbolType::(\w+)", m.group(1))
        f = re.search(r"\.filter\(\s*\|\s*sym_info\s*\|", body)
        if not f:
            raise ValueError("filter arm of %s not found" % fn)
        expr = extract.paren_arg(body, body.index("(", f.start()))
        expr = expr[expr.index("|", expr.index("|") + 1) + 1:].strip()
        preds = predicate_sets()
        res = []
        for v in variants:
            e = re.sub(r"(?:Self|CompletionService)\s*::\s*(\w+)\s*\(\s*&?\s*sym_info\.sym_type\s*\)",
                       lambda k: (" True " if v in preds[k.group(1)] else " False ") if k.group(1) in preds else " ?? ", expr)
            for _ in range(6):     # `if c { a } else { b }`  ->  ((a) if (c) else (b)), innermost first
                e2 = re.sub(r"\bif\s+([^{}]*?)\{([^{}]*)\}\s*else\s*\{([^{}]*)\}", r" ((\2) if (\1) else (\3)) ", e)
                if e2 == e:
                    break
                e = e2
            e = e.replace("&&", " and ").replace("||", " or ").replace("!", " not ")
            e = re.sub(r"\btrue\b", "True", re.sub(r"\bfalse\b", "False", e)).replace("return", " ").replace(";", " ")
            e = " ".join(e.split())
            if e.startswith("{") and e.endswith("}"):
                e = e[1:-1].strip()
            if not re.fullmatch(r"[\s()]*(?:(?:True|False|not|and|or|if|else)[\s()]*)+", e):
                raise ValueError("filter of %s: closure not understood (%r)" % (fn, e[:80]))
            if eval(e, {"__builtins__": {}}, {}) == (verdict == "true"):
                res.append(v)
        return res
    # as SETS (the model only asks for membership): sorted, so that equivalent spellings give the same table
    rhs_keep = sorted(kinds("generate_completion_items_rhs", "true"))
    lhs_drop = sorted(kinds("generate_completion_items_lhs", "false"))

    L = extract.lean_str
    out = ["namespace Gold.ScopeGen", "",
           "/-- string arms of `resolve_type_basic` that yield a native type -/",
           "def nativeKeys : List String := [%s]" % ", ".join(L(x) for x in natives), "",
           "/-- string arms of `resolve_method_call` -/",
           "def intrinsicProc : List String := [%s]" % ", ".join(L(x) for x in procs),
           "def intrinsicNative : List String := [%s]" % ", ".join(L(x) for x in nats), "",
           "/-- `SymbolType`s kept by `generate_completion_items_rhs` / dropped by `_lhs` -/",
           "def rhsKept : List String := [%s]" % ", ".join(L(x) for x in rhs_keep),
           "def lhsDropped : List String := [%s]" % ", ".join(L(x) for x in lhs_drop), "",
           "/-- (site, the identifier goes through `to_uppercase()` there) -/",
           "def foldSites : List (String × Bool) := ["]
    out += ["  (%s, %s)%s" % (L(n), "true" if b else "false", "," if i + 1 < len(sites) else "") for i, (n, b) in enumerate(sites)]
    out += ["]", "", "end Gold.ScopeGen", ""]
    detail = "%d native keys, intrinsics %s/%s, rhs keeps %s, lhs drops %s, %d fold sites (%d folding)" % (
        len(natives), procs, nats, rhs_keep, lhs_drop, len(sites), len([1 for _, b in sites if b]))
    return "\n".join(out), detail
