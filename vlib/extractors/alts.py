"""E6_AltOrders: the ORDER of the alternatives of every ordered choice of the parser
   (`alt_parse_w_context([...])` / `alt_parse(&[...])` over named parser functions, and the two
   lists of `parse_gold`) -> Gold.Gen.altOrders.  PEG choice is ordered: a reordering changes the
   language.  Props/C06.lean states the orders the model grammar is written against and proves
   they are the ones read here."""
import re

from .. import extract

# (file, function): every array literal of bare parser-function names in its body, in order of appearance
SITES = [
    ("parser/mod.rs", "parse_gold"),
    ("parser/mod.rs", "parse_type"),
    ("parser/body_parser.rs", "parse_literals"),
    ("parser/body_parser.rs", "parse_dot_op"),
    ("parser/body_parser.rs", "parse_unary_op"),
    ("parser/body_parser.rs", "parse_primary"),
    ("parser/body_parser.rs", "parse_when_expr"),
    ("parser/body_parser.rs", "parse_separated_values"),
    ("parser/body_parser.rs", "parse_statement_v2"),
    ("parser/body_parser.rs", "parse_control_statements"),
]

LIST = re.compile(r"\[\s*((?:_?parse_\w+\s*,\s*)*_?parse_\w+)\s*,?\s*\]")


@extract.item("E6_AltOrders")
def alts(repo):
    rows = []
    for f, fn in SITES:
        src = extract.strip_comments(extract.read(repo, f))
        try:
            body = extract.fn_body(src, fn)
        except Exception:
            raise ValueError("function %s not found in %s" % (fn, f))
        lists = [[x.strip() for x in m.group(1).split(",")] for m in LIST.finditer(body)]
        # the block statements of parse_statement_v2 are tried one by one before its list
        chain = re.findall(r"match\s+(parse_\w+)\s*\(\s*input\s*,\s*context\s*\)", body)
        if chain:
            lists = [chain] + lists
        if not lists:
            raise ValueError("%s: no list of alternatives found" % fn)
        rows.append((fn, lists))
    L = extract.lean_str
    out = ["namespace Gold.Gen", "",
           "/-- (function, its lists of alternatives in order of appearance, each in source order) -/",
           "def altOrders : List (String × List (List String)) := ["]
    for i, (fn, lists) in enumerate(rows):
        out.append("  (%s, [%s])%s" % (L(fn), ", ".join("[" + ", ".join(L(x) for x in l) + "]" for l in lists), "," if i + 1 < len(rows) else ""))
    out += ["]", "", "end Gold.Gen", ""]
    return "\n".join(out), "; ".join("%s:%s" % (fn, "|".join("/".join(l) for l in lists)) for fn, lists in rows)


TOKLIST = re.compile(r"\[\s*((?:exp_token\(\s*TokenType::\w+\s*\)\s*,?\s*)+)\]")


@extract.item("E6b_TokenLists")
def token_lists(repo):
    """every array of `exp_token(TokenType::…)` alternatives / stop tokens of the parser, per function, in source order"""
    rows = []
    for f in ("parser/body_parser.rs", "parser/mod.rs"):
        src = extract.strip_comments(extract.read(repo, f))
        seen = set()
        for m in re.finditer(r"\bfn\s+(\w+)", src):
            fn = m.group(1)
            if fn in seen:
                continue
            seen.add(fn)
            try:
                body = extract.fn_body(src, fn)
            except Exception:
                continue
            lists = [re.findall(r"TokenType::(\w+)", l) for l in TOKLIST.findall(body)]
            if lists:
                rows.append((fn, lists))
    if len(rows) < 20:
        raise ValueError("only %d functions with token lists found: the source no longer has the shape this translator reads" % len(rows))
    L = extract.lean_str
    out = ["import GoldModel.Gen.E1_TokenKind", "namespace Gold.Gen", "",
           "/-- (function, its arrays of `exp_token` alternatives / stop tokens in order of appearance) -/",
           "def tokenLists : List (String × List (List Kind)) := ["]
    for i, (fn, lists) in enumerate(rows):
        out.append("  (%s, [%s])%s" % (L(fn), ", ".join("[" + ", ".join("Kind." + x for x in l) + "]" for l in lists), "," if i + 1 < len(rows) else ""))
    out += ["]", "", "end Gold.Gen", ""]
    return "\n".join(out), "%d functions, %d lists" % (len(rows), sum(len(l) for _, l in rows))
