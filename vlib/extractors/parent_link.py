"""E11ParentLink — the rule by which `AstAnnotator::handle_class` links the parent symbol table,
and whether the member walks of `type_hierarchy_service.rs` keep a visited set
(consumed by M-LOCK, C14).

foldGuard    : the self-parent guard compares `to_uppercase()` of both names
chainCheck   : `set_parent_symbol_table(st)` is reached only when `parent_chain_reaches_root(&st)` is false,
               and that helper walks `get_parent_symbol_table()` comparing table identities with the root table
visitedWalks : both recursive member walks test and extend a `visited` list before anything else and
               the downward walk iterates over a copy of the children (no entity lock held across the recursion)
Anything in between fails closed.
"""
import re

from .. import extract


@extract.item("E11ParentLink")
def parent_link(repo):
    src = extract.strip_comments(extract.read(repo, "analyzers_v2/ast_annotator.rs"))
    # a diagnostic may be reported through a private helper: one level of helpers is inlined first
    body = extract.inline_helpers(src, extract.fn_body(src, "handle_class"), skip=("parent_chain_reaches_root",))
    m = re.search(r"if\s+([^{]*?)\{\s*(?:\{\s*)?self\.diag_collector\.lock\(\)\.unwrap\(\)\.add_diagnostic\(\s*AnalyzerDiagnostic::new\(\"Parent class cannot be itself\"", body)
    if not m:
        raise ValueError("handle_class: self-parent guard not found")
    cond = re.sub(r"\s+", "", m.group(1))
    if cond == "parent_class_name==class_name":
        fold = False
    elif cond in ("parent_class_name.to_uppercase()==class_name.to_uppercase()",
                  "class_name.to_uppercase()==parent_class_name.to_uppercase()"):
        fold = True
    else:
        raise ValueError("handle_class: unrecognised self-parent guard `%s`" % cond)
    sets = [x.start() for x in re.finditer(r"set_parent_symbol_table\(", body)]
    if len(sets) != 1:
        raise ValueError("handle_class: expected exactly one set_parent_symbol_table call")
    chk = re.search(r"if\s+self\.parent_chain_reaches_root\(&st\)\s*\{", body)
    if chk:
        blk_end = extract.match_brace(body, chk.end() - 1)
        els = re.match(r"\s*else\s*\{", body[blk_end:])
        if not els or not (blk_end < sets[0] < extract.match_brace(body, blk_end + els.end() - 1)):
            raise ValueError("handle_class: the parent table is not linked in the else branch of the chain check")
        helper = extract.fn_body(src, "parent_chain_reaches_root")
        h = re.sub(r"\s+", "", helper)
        need = ["Arc::as_ptr(self.root_symbol_table.unwrap_ref())", "whileletSome(table)=cur", "ptr==root||seen.contains(&ptr)",
                "returntrue", "seen.push(ptr)", "cur=table.lock().unwrap().get_parent_symbol_table()", "returnfalse"]
        missing = [n for n in need if n not in h]
        if missing:
            raise ValueError("parent_chain_reaches_root: unexpected body, missing %s" % missing)
        chain = True
    else:
        if "parent_chain_reaches_root" in body:
            raise ValueError("handle_class: chain check present in an unexpected shape")
        chain = False
    th = extract.strip_comments(extract.read(repo, "manager/type_hierarchy_service.rs"))
    down = re.sub(r"\s+", "", extract.fn_body(th, "generate_class_member_subtypes_for_entity"))
    upw = re.sub(r"\s+", "", extract.fn_body(th, "generate_method_supertypes_for_entity"))
    guard = "ifvisited.contains(&Arc::as_ptr(entity_info)){return"
    push = "visited.push(Arc::as_ptr(entity_info));"
    has_v = [guard in w and push in w and w.index(guard) < w.index(push) < w.index("sym_table") for w in (down, upw)]
    copies = "letchildren=entity_info.lock().unwrap().children.clone();forchildin&children{" in down
    holds = "forchildin&entity_info.lock().unwrap().children{" in down
    if all(has_v) and copies and not holds:
        visited = True
    elif not any(has_v) and holds and "visited" not in down + upw:
        visited = False
    else:
        raise ValueError("type_hierarchy_service: member walks in an unrecognised shape (visited=%s copies=%s holds=%s)" % (has_v, copies, holds))
    b = lambda x: "true" if x else "false"
    text = ("namespace Gold.Gen.ParentLink\n"
            "def foldGuard : Bool := %s\n"
            "def chainCheck : Bool := %s\n"
            "def visitedWalks : Bool := %s\n"
            "end Gold.Gen.ParentLink\n" % (b(fold), b(chain), b(visited)))
    return text, "foldGuard=%s chainCheck=%s visitedWalks=%s" % (fold, chain, visited)
