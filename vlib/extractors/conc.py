"""Translator item for M-CONC (C03).

E7c_ConcFlags  the facts about the source that `lean/GoldModel/Model/Conc.lean` is written against:
  * switch `changeAtomic` — `ProjectManager::notify_document_changed` parses the new text BEFORE it
    touches the record and then resets + installs under ONE write guard (true), or the pinned
    `write().reset…; parse; write().set_opened…` (false);
  * assumed shapes (any of them changing fails the extraction closed, i.e. the model has to be revisited):
      - inside that single guard the reset precedes the install (otherwise the new text is dropped again);
      - `get_parsed_document` drops the read guard, then takes the write guard, and only then parses
        the file and stores it as `saved` (no document read under the read lock is used afterwards);
      - `analyze_uri` takes `annotated_ast.is_some()` for a cache hit and does not wait for `annotation_done`;
      - `annotate_doc` publishes `annotated_ast` in the document before `walk_tree`, and stores the
        root table in the record unconditionally, also before the walk; `annotation_done` is taken
        with `try_lock`;
      - `generate_diagnostics` fetches the parsed document itself and then lets
        `generate_diags_on_annotated_ast` fetch it again through `analyze_uri`, and waits for
        `annotation_done` before walking;
      - `notify_document_saved` / `notify_document_closed` reset the record with `reset_all_data()` under one guard;
      - the four yield points are where the model's parked pcs are.
"""
import re

from .. import extract
from ..extract import fn_body, read, strip_comments


def _pos(body, pat, what):
    m = re.search(pat, body)
    if not m:
        raise ValueError("%s: pattern `%s` not found" % (what, pat))
    return m.start()


def _order(body, pats, what, src=None):
    """the patterns occur in this order; when one is missing and `src` is given, the same is tried once more with one level of
    private helpers inlined behind their calls (a step may have been moved into a helper)"""
    try:
        last = -1
        for p in pats:
            m = re.compile(p).search(body, last + 1)
            if not m:
                _pos(body, p, what)
                raise ValueError("%s: `%s` is not after the previous marker" % (what, p))
            last = m.start()
    except ValueError:
        if src is None:
            raise
        _order(extract.inline_helpers(src, body, keep_call=True), pats, what)


def _has(opt):
    """`x.get_<opt>().is_some()` or the same test written `if let Some(..) = x.get_<opt>()`"""
    return r"(?:get_%s\(\)\.is_some\(\)|if\s+let\s+Some\([^)]*\)\s*=\s*[\w.]*get_%s\(\))" % (opt, opt)


@extract.item("E7c_ConcFlags")
def e7c_concflags(repo):
    mgr = strip_comments(read(repo, "manager/mod.rs"))
    ch = fn_body(mgr, "notify_document_changed")
    n_write = len(re.findall(r"\.write\(\)", ch))
    i_parse = _pos(ch, r"parse_content\(", "notify_document_changed")
    i_reset = _pos(ch, r"reset_transient_data\(\)", "notify_document_changed")
    i_inst = _pos(ch, r"set_opened_document\(", "notify_document_changed")
    i_win = _pos(ch, r'yield_point_at\("change\.window"', "notify_document_changed")
    if "reset_all_data" in ch or "set_saved_document" in ch or "set_symbol_table" in ch:
        raise ValueError("notify_document_changed touches more of the record than opened / transient data")
    if n_write == 1:
        i_w = _pos(ch, r"\.write\(\)", "notify_document_changed")
        # one guard bound to a name, both calls on it, the text parsed before, reset before install
        if not re.search(r"let\s+mut\s+\w+\s*=\s*\w+\.write\(\)\.unwrap\(\)\s*;", ch):
            raise ValueError("notify_document_changed: the single write guard is not bound to a name")
        if not (i_parse < i_win < i_w < i_reset < i_inst):
            raise ValueError("notify_document_changed: expected parse < change.window < write guard < reset < install")
        atomic = True
    elif n_write == 2:
        if not (i_reset < i_win < i_parse < i_inst):
            raise ValueError("notify_document_changed: expected reset < change.window < parse < install")
        atomic = False
    else:
        raise ValueError("notify_document_changed: %d write-lock acquisitions" % n_write)

    for fn, src in (("notify_document_saved", mgr), ):
        b = fn_body(src, fn)
        if len(re.findall(r"\.write\(\)", b)) != 1 or "reset_all_data()" not in b:
            raise ValueError("%s no longer resets the record with reset_all_data() under one guard" % fn)
    ds = strip_comments(read(repo, "manager/document_service.rs"))
    b = fn_body(ds, "notify_document_closed")
    if len(re.findall(r"\.write\(\)", b)) != 1 or "reset_all_data()" not in b:
        raise ValueError("notify_document_closed no longer resets the record with reset_all_data() under one guard")

    gp = fn_body(ds, "get_parsed_document")
    _order(gp, [r"try_read\(\)", _has("opened_document"), _has("saved_document"),
                r"drop\(read_doc_info\)", r'yield_point_at\("parsed\.unlocked"', r"try_write\(\)",
                r"parse_document\(", r"set_saved_document\("], "get_parsed_document")
    if len(re.findall(r"parse_document\(", gp)) != 1:
        raise ValueError("get_parsed_document parses more than once")
    after_write = gp[_pos(gp, r"try_write\(\)", "get_parsed_document"):]
    recheck = bool(re.search(_has("(?:opened|saved)_document"), after_write))
    if recheck:
        raise ValueError("get_parsed_document now re-checks the record under the write lock: revisit the model (yParsed step)")

    sa = strip_comments(read(repo, "manager/semantic_analysis_service.rs"))
    au = fn_body(sa, "analyze_uri")
    _order(au, [r"get_parsed_document", r"annotated_ast\.is_(?:some|none)\(\)", r'yield_point_at\("analyze\.checked"', r"self\.analyze\("], "analyze_uri", src=sa)
    if "annotation_done" in au:
        raise ValueError("analyze_uri now looks at annotation_done: revisit the model (check step)")

    an = strip_comments(read(repo, "analyzers_v2/ast_annotator.rs"))
    ad = fn_body(an, "annotate_doc")
    _order(ad, [r"annotation_done\.clone\(\)", r"try_lock\(\)", r"annotated_ast\s*=\s*Some\(", r"only_definitions\s*=",
                r'yield_point_at\("annot\.published"', r"set_symbol_table\(Some\(\w+\)\)", r"self\.walk_tree\(", r"drop\(\w+\)"], "annotate_doc")
    if "ptr_eq" in ad:
        raise ValueError("annotate_doc now compares documents: revisit the model (yPublished step)")

    gd = fn_body(mgr, "generate_diagnostics")
    _order(gd, [r"get_parsed_document\(", r"get_analyzer_diagnostics\(", r"generate_diags_on_annotated_ast\(uri\)"], "generate_diagnostics")
    ga = fn_body(mgr, "generate_diags_on_annotated_ast")
    _order(ga, [r"analyze_uri\(uri", r"annotated_ast\.as_ref\(\)", r"annotation_done\.clone\(\)", r"drop\(annotation_done_flag\.lock\(\)\.unwrap\(\)\)",
                r"walker\.walk\("], "generate_diags_on_annotated_ast")

    lean = "namespace Gold.Gen.E7c\n\n"
    lean += "/-- `notify_document_changed` parses first and replaces `opened` under one write guard -/\n"
    lean += "def changeAtomic : Bool := %s\n\n" % ("true" if atomic else "false")
    lean += "end Gold.Gen.E7c\n"
    return lean, "changeAtomic=%s; shapes of get_parsed_document / analyze_uri / annotate_doc / generate_diagnostics / save / close as modelled" % atomic
