"""E10TreeGoc — how `get_or_create_entity_2` locks the class map, and the production
chunk / pool sizes (consumed by M-TREE, C13).

`gocAtomic = true`  iff the function takes ONE write lock, bound to a variable, and both the
lookup (`.get(`) and the `.insert(` go through that guard; `false` iff it is the pinned
shape: `map.read()…get(` in one statement and `map.write()…insert(` in another.  Any
other shape fails closed (the model would not know what to mirror).
"""
import re

from .. import extract


def _inline_helpers(src, body):
    """calls `EntityTreeService::f(&a, &b)` / `Self::f(..)` of a helper of this file other than the get-or-create functions
    are replaced by the helper's body with its parameters renamed to the arguments (one level; plain `&name` arguments only)"""
    def repl(m):
        name, args = m.group(1), [a.strip() for a in m.group(2).split(",") if a.strip()]
        if name.startswith("get_or_create_entity") or not all(re.fullmatch(r"&?\s*(mut\s+)?\w+", a) for a in args):
            return m.group(0)
        sig = re.search(r"fn\s+%s\s*\(([^)]*)\)" % name, src)
        if not sig:
            return m.group(0)
        params = [q.split(":")[0].strip() for q in sig.group(1).split(",") if q.strip() and "self" not in q.split(":")[0]]
        if len(params) != len(args):
            return m.group(0)
        text = extract.fn_body(src, name)
        ren = {q: re.sub(r"^&\s*(mut\s+)?", "", a) for q, a in zip(params, args)}
        # all parameters at once, and never a field or method of the same name
        return re.sub(r"(?<![.\w])(%s)\b" % "|".join(map(re.escape, ren)), lambda k: ren[k.group(1)], text)
    return re.sub(r"(?:EntityTreeService|Self)\s*::\s*(\w+)\s*\(([^()]*)\)", repl, body)


@extract.item("E10TreeGoc")
def tree_goc(repo):
    src = extract.strip_comments(extract.read(repo, "manager/entity_tree_service.rs"))
    body = extract.fn_body(src, "get_or_create_entity_2")
    reads = len(re.findall(r"\.read\(\)", body))
    writes = len(re.findall(r"\.write\(\)", body))
    gets = re.findall(r"(\w+)(?:\.read\(\)\.unwrap\(\)|\.write\(\)\.unwrap\(\))?\.get\(", body)
    inserts = re.findall(r"(\w+)(?:\.write\(\)\.unwrap\(\))?\.insert\(", body)
    guard = re.search(r"let\s+(?:mut\s+)?(\w+)\s*=\s*(\w+)\.write\(\)\.unwrap\(\)\s*;", body)
    if reads == 0 and writes == 1 and guard and gets == [guard.group(1)] and inserts == [guard.group(1)] \
            and body.index(guard.group(0)) < body.index(".get("):
        atomic, shape = True, "one write guard `%s` covers lookup and insert" % guard.group(1)
    elif reads == 1 and writes == 1 and not guard \
            and re.search(r"\.read\(\)\.unwrap\(\)\.get\(", body) and re.search(r"\.write\(\)\.unwrap\(\)\.insert\(", body) \
            and body.index(".read()") < body.index(".write()"):
        atomic, shape = False, "read-locked lookup, then a separate write-locked insert"
    else:
        raise ValueError("get_or_create_entity_2: unrecognised locking shape (reads=%d writes=%d gets=%s inserts=%s)"
                         % (reads, writes, gets, inserts))
    # the parallel builder must still be the one that calls it, per file of a chunk
    par = extract.fn_body(src, "build_tree_parallel")
    if len(re.findall(r"get_or_create_entity_2\(", par)) != 2 or ".chunks(self.chunk_size)" not in par:
        raise ValueError("build_tree_parallel no longer has the expected shape")
    par = _inline_helpers(src, par)
    steps = [m.group(0) for m in re.finditer(r"get_or_create_entity_2\(&e_info\.id|get_or_create_entity_2\(parent_class|"
                                             r"entity\.lock\(\)\.unwrap\(\)\.parent\s*=|parent_entity\.lock\(\)\.unwrap\(\)\.children\.push", par)]
    if len(steps) != 4 or not (steps[0].endswith("e_info.id") and "parent_class" in steps[1]
                               and ".parent" in steps[2] and "children.push" in steps[3]):
        raise ValueError("build_tree_parallel: per-file steps are not entity, parent, set parent, push child: %s" % steps)
    mgr = extract.strip_comments(extract.read(repo, "manager/mod.rs"))
    m = re.search(r"EntityTreeService::new\(\s*([0-9_]+)\s*,", mgr)
    if not m:
        raise ValueError("chunk size of the production EntityTreeService not found")
    chunk = int(m.group(1).replace("_", ""))
    main = extract.strip_comments(extract.read(repo, "main.rs"))
    m = re.search(r"ThreadPool::new\(\s*([0-9_]+)\s*,", main)
    if not m:
        raise ValueError("pool size not found in main.rs")
    pool = int(m.group(1).replace("_", ""))
    text = ("namespace Gold.Gen.TreeGoc\n"
            "/-- `get_or_create_entity_2` looks up and inserts under one lock -/\n"
            "def gocAtomic : Bool := %s\n"
            "def prodChunkSize : Nat := %d\n"
            "def poolSize : Nat := %d\n"
            "end Gold.Gen.TreeGoc\n" % ("true" if atomic else "false", chunk, pool))
    return text, "gocAtomic=%s (%s); per-file steps entity,parent,set-parent,push-child; chunk=%d pool=%d" % (atomic, shape, chunk, pool)
