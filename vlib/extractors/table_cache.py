"""E11TableCache — the re-entrance guard of the analysis (consumed by M-LOCK, C14).

M-LOCK's `annotateBody` publishes the table of a file before anything of the file is resolved, and its
`ensureWith` / `ensureTable` hand out a published table WHOEVER owns it (class, module or nobody: a file
without header).  That is what ends the recursion when files reach themselves again through parents or uses.

publishedBeforeWalk : `annotate_doc` stores the root table on the DocumentInfo (`set_symbol_table(Some(st))`)
                      before `walk_tree`
handsOutAnyTable    : `get_symbol_table_for_uri_def_only` returns the table found on the DocumentInfo
                      unconditionally (`false`: the return sits under a further condition, e.g. on the owner
                      of the table)
Anything else fails closed.
"""
import re

from .. import extract


@extract.item("E11TableCache")
def table_cache(repo):
    ann = extract.strip_comments(extract.read(repo, "analyzers_v2/ast_annotator.rs"))
    body = re.sub(r"\s+", "", extract.fn_body(ann, "annotate_doc"))
    pubs = re.findall(r"doc_info\.write\(\)\.unwrap\(\)\.set_symbol_table\(Some\((\w+)\)\);", body)
    walk = "self.walk_tree(&annotated_tree);"
    if len(pubs) != 1 or body.count("set_symbol_table(") != 1 or body.count(walk) != 1:
        raise ValueError("annotate_doc: expected exactly one set_symbol_table(Some(<name>)) and one walk_tree call")
    published_first = body.index("set_symbol_table(Some(%s));" % pubs[0]) < body.index(walk)
    if "let%s=self.root_symbol_table.unwrap_ref().clone();" % pubs[0] not in body:
        raise ValueError("annotate_doc: `%s` is not the root symbol table" % pubs[0])

    sem = extract.strip_comments(extract.read(repo, "manager/semantic_analysis_service.rs"))
    fb = extract.fn_body(sem, "get_symbol_table_for_uri_def_only")
    m = re.search(r"if\s+let\s+Some\(sym_table\)\s*=\s*doc_info\.read\(\)\.unwrap\(\)\.get_symbol_table\(\)\s*\{", fb)
    if not m:
        raise ValueError("get_symbol_table_for_uri_def_only: look-up of the table on the DocumentInfo not found")
    if fb[:m.start()].count("return") or "analyze" in fb[:m.start()]:
        raise ValueError("get_symbol_table_for_uri_def_only: something happens before the cached table is looked at")
    end = extract.match_brace(fb, m.end() - 1)
    blk = fb[m.end():end - 1]
    blk = re.sub(r"self\.logger\.log\((?:[^()]|\([^()]*\))*\)\s*;", "", blk)
    flat = re.sub(r"\s+", "", blk)
    if flat == "returnOk(sym_table);":
        hands_out = True
    elif re.search(r"\bif\b", blk) and "returnOk(sym_table);" in flat:
        hands_out = False
    else:
        raise ValueError("get_symbol_table_for_uri_def_only: unrecognised use of the cached table `%s`" % flat[:120])
    b = lambda x: "true" if x else "false"
    text = ("namespace Gold.Gen.TableCache\n"
            "def publishedBeforeWalk : Bool := %s\n"
            "def handsOutAnyTable : Bool := %s\n"
            "end Gold.Gen.TableCache\n" % (b(published_first), b(hands_out)))
    return text, "publishedBeforeWalk=%s handsOutAnyTable=%s" % (published_first, hands_out)
