"""E4_AstNodes: every `impl IAstNode for X` of src/parser/ast.rs -> a table
   (struct, type string, overrides get_identifier, overrides to_string_type,
    fields listed by get_children_ref, fields listed by get_children_arc)."""
import re

from .. import extract


def method_body(block, name):
    m = re.search(r"fn\s+%s\b[^{;]*\{" % name, block)
    if not m:
        return None
    s = m.end() - 1
    return block[s:extract.match_brace(block, s)]


def fields_in_order(body):
    """the `self.<field>` accesses of a children view, in order of first occurrence"""
    if body is None:
        return []
    seen = []
    for f in re.findall(r"self\s*\.\s*([a-z_][a-z0-9_]*)", body):
        if f not in seen:
            seen.append(f)
    return seen


@extract.item("E4_AstNodes")
def ast_nodes(repo):
    src = extract.strip_comments(extract.read(repo, "parser/ast.rs"))
    rows = []
    for m in re.finditer(r"impl\s+IAstNode\s+for\s+(\w+)\s*\{", src):
        name = m.group(1)
        block = src[m.end() - 1:extract.match_brace(src, m.end() - 1)]
        mac = re.search(r'implem_iastnode_common!\(\s*(\w+)\s*,\s*"([^"]*)"\s*\)', block)
        tstr = None
        if mac:
            if mac.group(1) != name:
                raise ValueError("macro names another struct in impl for %s" % name)
            tstr = mac.group(2)
        else:
            b = method_body(block, "to_string_type")
            if b:
                lit = re.search(r'"([^"]*)"', b)
                tstr = lit.group(1) if lit else None
        ident = method_body(block, "get_identifier")
        has_ident = ident is not None and "todo!" not in ident and "unimplemented!" not in ident
        has_type = tstr is not None
        ref = fields_in_order(method_body(block, "get_children_ref"))
        arc = fields_in_order(method_body(block, "get_children_arc"))
        rows.append((name, tstr or "", has_ident, has_type, ref, arc))
    if len(rows) < 40:
        raise ValueError("only %d IAstNode impls found" % len(rows))
    L = extract.lean_str
    out = ["namespace Gold.Gen", "",
           "structure AstNodeInfo where", "  name : String", "  typeStr : String", "  hasIdentifier : Bool",
           "  hasStringType : Bool", "  refView : List String", "  arcView : List String", "deriving Repr, DecidableEq", "",
           "/-- one row per `impl IAstNode for …` in src/parser/ast.rs -/", "def astNodes : List AstNodeInfo := ["]
    for i, (n, t, hi, ht, r, a) in enumerate(rows):
        out.append("  ⟨%s, %s, %s, %s, [%s], [%s]⟩%s" % (
            L(n), L(t), "true" if hi else "false", "true" if ht else "false",
            ", ".join(L(x) for x in r), ", ".join(L(x) for x in a), "," if i + 1 < len(rows) else ""))
    out += ["]", "", "end Gold.Gen", ""]
    return "\n".join(out), "%d node kinds" % len(rows)
