"""Translator items for the message loop and the document store (DESIGN §2.2, E7).

E7_Dispatch   src/main.rs `main_loop`: the ordered `cast_req::<R>` chain (method string of R,
              answered on the main thread or through the pool), whether code after the last
              arm responds, the `cast_not::<N>` chain, `poolSize`, `chunkSize`, and the
              structural facts the server model relies on (shutdown handled before the chain,
              every arm ends in `continue`, pool declared after the connection parameter).
E7b_DocFlags  src/manager/document_service.rs: the three behaviour switches of M-DOC
              (`Cfg`): key conversion panics on a missing file, `index_files` writes the class
              map only for unknown paths, `notify_document_closed` keeps the symbol table.

Both fail closed: any pattern that no longer matches raises, the generated file then defines
nothing and everything that consumes it stops building.
"""
import glob
import os
import re

from .. import extract
from ..extract import fn_body, lean_str, match_brace, read, strip_comments

# R -> LSP method string.  Fixed table; verified below against the `const METHOD` of the
# vendored lsp-types source whenever that source is present in the cargo registry.
REQ_METHODS = {
    "DocumentSymbolRequest": "textDocument/documentSymbol",
    "DocumentDiagnosticRequest": "textDocument/diagnostic",
    "GotoDefinition": "textDocument/definition",
    "Completion": "textDocument/completion",
    "TypeHierarchyPrepare": "textDocument/prepareTypeHierarchy",
    "TypeHierarchySubtypes": "typeHierarchy/subtypes",
    "TypeHierarchySupertypes": "typeHierarchy/supertypes",
    "HoverRequest": "textDocument/hover",
    "References": "textDocument/references",
    "Rename": "textDocument/rename",
    "Formatting": "textDocument/formatting",
    "CodeActionRequest": "textDocument/codeAction",
    "DocumentHighlightRequest": "textDocument/documentHighlight",
    "SignatureHelpRequest": "textDocument/signatureHelp",
    "WorkspaceSymbolRequest": "workspace/symbol",
}
NOT_METHODS = {
    "DidChangeTextDocument": "textDocument/didChange",
    "DidSaveTextDocument": "textDocument/didSave",
    "DidOpenTextDocument": "textDocument/didOpen",
    "DidCloseTextDocument": "textDocument/didClose",
}


def _lsp_types_src(kind):
    pats = [os.path.expanduser("~/.cargo/registry/src/*/lsp-types-*/src/%s.rs" % kind),
            os.path.join(os.environ.get("CARGO_HOME", "/nonexistent"), "registry/src/*/lsp-types-*/src/%s.rs" % kind)]
    for p in pats:
        for f in sorted(glob.glob(p)):
            return open(f, encoding="utf-8").read()
    return None


def _verify_methods(names, table, kind):
    """the METHOD constant of `impl <Trait> for <name>` in lsp-types must equal the table entry"""
    src = _lsp_types_src(kind)
    if src is None:
        return "lsp-types source not found: table not cross-checked"
    trait = "Request" if kind == "request" else "Notification"
    for n in names:
        m = re.search(r"impl\s+%s\s+for\s+%s\s*\{(.*?)\n\}" % (trait, re.escape(n)), src, re.S)
        if not m:
            raise ValueError("lsp-types has no `impl %s for %s`" % (trait, n))
        mm = re.search(r'const\s+METHOD\s*:\s*&\'static\s+str\s*=\s*"([^"]*)"', m.group(1))
        if not mm or mm.group(1) != table[n]:
            raise ValueError("method string of %s is %r in lsp-types, table says %r" % (n, mm and mm.group(1), table[n]))
    return "method strings cross-checked against lsp-types source"


def _arm_block(body, start):
    """body[start:] begins at `match cast_…`; returns (text of the whole match statement, end index)"""
    i = body.index("{", start)
    j = match_brace(body, i)
    return body[start:j], j


@extract.item("E7_Dispatch")
def e7_dispatch(repo):
    src = strip_comments(read(repo, "main.rs"))
    loop = fn_body(src, "main_loop")
    # --- pool size, declared inside main_loop (a local: dropped when main_loop returns, before
    #     the `connection` parameter, which is what makes "drop drains before the sender closes")
    m = re.search(r"let\s+threadpool\s*=\s*ThreadPool::new\(\s*(\d+)\s*,", loop)
    if not m:
        raise ValueError("`let threadpool = ThreadPool::new(<n>, …)` not found in main_loop")
    pool_size = int(m.group(1))
    sig = re.search(r"\bfn\s+main_loop\s*\(([^)]*)\)", src)
    if not sig or not re.search(r"\bconnection\s*:\s*Connection\b", sig.group(1)):
        raise ValueError("main_loop no longer takes `connection: Connection` by value")
    # --- the receive loop and its three message arms
    m = re.search(r"for\s+msg\s+in\s+&connection\.receiver\s*\{", loop)
    if not m:
        raise ValueError("`for msg in &connection.receiver` not found")
    fb = m.end() - 1
    forbody = loop[fb:match_brace(loop, fb)]
    after_loop = loop[match_brace(loop, fb):]
    if not re.fullmatch(r"\s*Ok\(\(\)\)\s*\}\s*", after_loop):
        raise ValueError("unexpected code after the receive loop: %r" % after_loop[:80])
    m = re.search(r"Message::Request\(req\)\s*=>\s*\{", forbody)
    if not m:
        raise ValueError("Message::Request arm not found")
    rb = m.end() - 1
    reqarm = forbody[rb:match_brace(forbody, rb)]
    # shutdown is handled before anything else in the arm
    first = re.match(r"\{\s*if\s+connection\.handle_shutdown\(&req\)\?\s*\{\s*return\s+Ok\(\(\)\);\s*\}", reqarm)
    if not first:
        raise ValueError("request arm does not start with `if connection.handle_shutdown(&req)? { return Ok(()); }`")
    # ordered cast_req chain
    arms = []
    pos = 0
    last_end = first.end()
    for cm in re.finditer(r"let\s+_?req\s*=\s*match\s+cast_req::<\s*(\w+)\s*>\(req\)\s*", reqarm):
        if cm.start() < pos:
            continue
        between = reqarm[last_end:cm.start()]
        if re.search(r"\bsend\b|send_error|\bcontinue\b|\breturn\b", between.replace("logger.log_info", "")):
            raise ValueError("code between dispatch arms is not just logging: %r" % between.strip()[:80])
        rname = cm.group(1)
        if rname not in REQ_METHODS:
            raise ValueError("request type %s is not in the fixed R→method table" % rname)
        text, end = _arm_block(reqarm, cm.end() - 0)
        # the statement ends with `;`
        okm = re.search(r"Ok\(\(id\s*,\s*params\)\)\s*=>\s*\{", text)
        if not okm:
            raise ValueError("arm %s has no `Ok((id, params)) => {` branch" % rname)
        ob = okm.end() - 1
        okblock = text[ob:match_brace(text, ob)]
        if not re.search(r"continue\s*;\s*\}\s*$", okblock):
            raise ValueError("arm %s does not end in `continue;`" % rname)
        via_pool = "threadpool.execute_req(" in okblock
        via_plain = re.search(r"threadpool\.execute\(", okblock) is not None
        sends = ("connection.sender.send(" in okblock or "send_error(" in okblock or "handle_result(" in okblock
                 or "sender.send(" in okblock)
        if not sends:
            raise ValueError("arm %s never sends a response" % rname)
        if via_plain:
            raise ValueError("arm %s uses threadpool.execute (no request id)" % rname)
        if via_pool:
            # both outcomes of the handler must be sent from inside the job
            jb = okblock.index("threadpool.execute_req(")
            job = okblock[jb:]
            ok_and_err = (("Ok(resp)" in job and "Err(e)" in job and "send_error(" in job) or "handle_result(" in job)
            if not ok_and_err:
                raise ValueError("pool arm %s does not send both Ok and Err outcomes" % rname)
        else:
            if not ("Ok(resp)" in okblock and "Err(e)" in okblock and "send_error(" in okblock) and "handle_result(" not in okblock:
                raise ValueError("main-thread arm %s does not send both Ok and Err outcomes" % rname)
        if "MethodMismatch(req)) => req" not in text.replace(" ", "").replace("MethodMismatch(req))=>req", "MethodMismatch(req)) => req"):
            raise ValueError("arm %s does not pass a method mismatch on" % rname)
        if not re.search(r"JsonError\s*\{\s*\.\.\s*\}\s*\)\s*=>\s*panic!", text):
            raise ValueError("arm %s: JsonError branch is not `panic!` any more (schema-invalid params)" % rname)
        arms.append((rname, REQ_METHODS[rname], "pool" if via_pool else "main"))
        pos = end
        last_end = end
    if not arms:
        raise ValueError("no cast_req arms found")
    tail = reqarm[last_end:]
    tail_code = tail.strip().lstrip(";").strip().rstrip("}").strip()
    responds = bool(re.search(r"send_error\(|\.send\(|handle_result\(", tail_code))
    if tail_code and not responds:
        raise ValueError("unrecognised code after the last dispatch arm: %r" % tail_code[:120])
    if responds and not re.search(r"MethodNotFound", tail_code):
        raise ValueError("code after the last arm responds, but not with MethodNotFound: %r" % tail_code[:120])
    # --- notifications
    m = re.search(r"Message::Notification\(not\)\s*=>\s*\{", forbody)
    if not m:
        raise ValueError("Message::Notification arm not found")
    nb = m.end() - 1
    notarm = forbody[nb:match_brace(forbody, nb)]
    nots = []
    for cm in re.finditer(r"let\s+_?not\s*=\s*match\s+cast_not::<\s*(\w+)\s*>\(not\)\s*", notarm):
        nname = cm.group(1)
        if nname not in NOT_METHODS:
            raise ValueError("notification type %s is not in the fixed table" % nname)
        text, end = _arm_block(notarm, cm.end())
        hm = re.search(r"match\s+(handle_\w+)\(", text)
        if not hm:
            raise ValueError("notification arm %s calls no handler" % nname)
        if "threadpool.execute" in text:
            raise ValueError("notification arm %s no longer runs on the main thread" % nname)
        if not re.search(r"Err\(e\)\s*=>\s*logger\.log_error", text):
            raise ValueError("notification arm %s: an Err is no longer just logged" % nname)
        nots.append((nname, NOT_METHODS[nname], hm.group(1)))
    if not nots:
        raise ValueError("no cast_not arms found")
    # Message::Response arm: only logs
    m = re.search(r"Message::Response\(resp\)\s*=>\s*\{", forbody)
    if not m:
        raise ValueError("Message::Response arm not found")
    pb = m.end() - 1
    resparm = forbody[pb:match_brace(forbody, pb)]
    if re.search(r"\.send\(|panic!|unwrap\(", resparm):
        raise ValueError("Message::Response arm does more than logging")
    # --- chunk size of the entity tree build
    mgr = strip_comments(read(repo, "manager/mod.rs"))
    m = re.search(r"EntityTreeService::new\(\s*([\d_]+)\s*,", mgr)
    if not m:
        raise ValueError("EntityTreeService::new(<chunk>, …) not found")
    chunk = int(m.group(1).replace("_", ""))
    note1 = _verify_methods([a[0] for a in arms], REQ_METHODS, "request")
    note2 = _verify_methods([n[0] for n in nots], NOT_METHODS, "notification")
    lean = "namespace Gold.Gen.E7\n\n"
    lean += "/-- the `cast_req` chain of `main_loop`, in order: (method, answered through the pool?) -/\n"
    lean += "def dispatch : List (String × Bool) :=\n  [" + ",\n   ".join(
        "(%s, %s)" % (lean_str(meth), "true" if mode == "pool" else "false") for _, meth, mode in arms) + "]\n\n"
    lean += "/-- code after the last arm answers (MethodNotFound) instead of dropping the request -/\n"
    lean += "def fallthroughResponds : Bool := %s\n\n" % ("true" if responds else "false")
    lean += "/-- the `cast_not` chain, in order (all handled on the main thread, `Err` only logged) -/\n"
    lean += "def notifications : List String :=\n  [" + ", ".join(lean_str(meth) for _, meth, _ in nots) + "]\n\n"
    lean += "def poolSize : Nat := %d\n" % pool_size
    lean += "def chunkSize : Nat := %d\n\n" % chunk
    lean += "end Gold.Gen.E7\n"
    detail = "dispatch=%s; fallthroughResponds=%s; notifications=%s; poolSize=%d; chunkSize=%d; %s; %s" % (
        [(a[1], a[2]) for a in arms], responds, [n[1] for n in nots], pool_size, chunk, note1, note2)
    return lean, detail


@extract.item("E7b_DocFlags")
def e7b_docflags(repo):
    src = strip_comments(read(repo, "manager/document_service.rs"))
    # (1) key conversion
    key_body = fn_body(src, "get_key_for_path")
    uses_canon = "canonicalize(" in key_body
    if not uses_canon:
        raise ValueError("get_key_for_path no longer canonicalizes")
    key_panics = bool(re.search(r"canonicalize\([^;]*?\)\s*\.\s*(unwrap|expect)\(", key_body))
    if not key_panics:
        sig = re.search(r"\bfn\s+get_key_for_path\b[^{;]*", src).group(0)
        if "Result<" not in sig:
            raise ValueError("get_key_for_path neither unwraps nor returns a Result")
    # no other caller may unwrap the key either
    for fn in ("get_key_for_uri", "get_document_info", "notify_document_closed"):
        b = fn_body(src, fn)
        if re.search(r"get_key_for_(path|uri)\([^;]*?\)\s*\.\s*(unwrap|expect)\(", b):
            key_panics = True
    # (2) index_files: where is the class map written?
    idx = fn_body(src, "index_files")
    m = re.search(r"if\s*!\s*path_docinfo_map\.contains_key\(&key\)\s*\{", idx)
    if not m:
        raise ValueError("index_files: `if !path_docinfo_map.contains_key(&key) {` not found")
    gb = m.end() - 1
    guarded = idx[gb:match_brace(idx, gb)]
    ins = r"class_uri_map\.write\(\)\.unwrap\(\)\.insert\("
    in_guard = re.search(ins, guarded) is not None
    anywhere = len(re.findall(ins, idx))
    if anywhere != 1:
        raise ValueError("index_files: expected exactly one class_uri_map insert, found %d" % anywhere)
    if "path_docinfo_map.insert(" not in guarded:
        raise ValueError("index_files: the path map insert left the `contains_key` guard")
    if not re.search(r"extension\(\)\.map_or\(false,\s*\|ext\|\s*ext\s*==\s*\"god\"\)", idx):
        raise ValueError("index_files: the `.god` extension test changed")
    if "to_uppercase()" not in idx:
        raise ValueError("index_files: class key is no longer upper-cased")
    # (3) close
    close = fn_body(src, "notify_document_closed")
    drops = "reset_all_data()" in close or "set_symbol_table(None)" in close
    if "set_saved_document(None)" not in close and "reset_all_data()" not in close:
        raise ValueError("notify_document_closed no longer drops the saved document")
    lean = "namespace Gold.Gen.E7b\n\n"
    lean += "/-- `get_key_for_path` unwraps `canonicalize` (a missing file panics) -/\n"
    lean += "def keyPanics : Bool := %s\n" % ("true" if key_panics else "false")
    lean += "/-- `index_files` writes the class map only inside the `!contains_key` guard -/\n"
    lean += "def classSkipsKnown : Bool := %s\n" % ("true" if in_guard else "false")
    lean += "/-- `notify_document_closed` leaves `DocumentInfo.symbol_table` in place -/\n"
    lean += "def closeKeepsTab : Bool := %s\n\n" % ("false" if drops else "true")
    lean += "end Gold.Gen.E7b\n"
    return lean, "keyPanics=%s classSkipsKnown=%s closeKeepsTab=%s" % (key_panics, in_guard, not drops)
