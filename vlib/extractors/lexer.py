"""Translator items of the lexer (DESIGN §2.2 E1–E3): src/lexer/tokens.rs, src/lexer/mod.rs.

(E1_TokenKind, `enum TokenType` -> `inductive Gold.Kind`, lives in extractors/tokens.py)
E2_Keywords  : arms of `create_word_token`               -> kwTable : List (String × Kind)
E3_Symbols   : arms of `read_symbol`, `read_double_char_op`, the three first-character
               classes of `lex`/`read_word`/`read_number` -> symDispatch, dblTable, char classes

Every pattern is anchored on the whole text of the region it reads: anything in the region that
is not one of the expected arm shapes makes the item fail (fail closed).
"""
import re

from .. import extract

LEAN_RESERVED = {"Type", "Sort", "Prop"}


def q(name):
    """constructor name, quoted so that `Type` etc. stay legal"""
    return "«%s»" % name


def enum_variants(repo):
    src = extract.strip_comments(extract.read(repo, "lexer/tokens.rs"))
    m = re.search(r"pub\s+enum\s+TokenType\s*\{", src)
    if not m:
        raise ValueError("enum TokenType not found")
    body = src[m.end() - 1:extract.match_brace(src, m.end() - 1)][1:-1]
    names = [x.strip() for x in body.split(",")]
    names = [x for x in names if x]
    for n in names:
        if not re.fullmatch(r"[A-Z][A-Za-z0-9]*", n):
            raise ValueError("unexpected enum variant syntax: %r" % n)
    if len(set(names)) != len(names):
        raise ValueError("duplicate enum variant")
    return names


def lean_char(c):
    if c == "'":
        return "'\\''"
    if c == "\\":
        return "'\\\\'"
    if c == '"':
        return "'\"'"
    if c == "\n":
        return "'\\n'"
    if c == "\r":
        return "'\\r'"
    if c == "\t":
        return "'\\t'"
    if 32 <= ord(c) < 127:
        return "'%s'" % c
    return "(Char.ofNat %d)" % ord(c)


RUST_CHAR = r"'(\\.|[^\\'])'"


def rust_char(lit):
    """text between the quotes of a Rust char literal -> the character"""
    if lit.startswith("\\"):
        return {"\\n": "\n", "\\r": "\r", "\\t": "\t", "\\'": "'", '\\"': '"', "\\\\": "\\"}[lit]
    return lit


def match_arms(body):
    """body of a `match … { … }` (without the braces) -> [(pattern, expr)] splitting on top-level commas"""
    arms = []
    i, n = 0, len(body)
    depth = 0
    start = 0
    instr = None
    while i < n:
        c = body[i]
        if instr:
            if c == "\\":
                i += 1
            elif c == instr:
                instr = None
        elif c == '"':
            instr = '"'
        elif c == "'":
            m = re.match(RUST_CHAR, body[i:])
            if m:
                i += len(m.group(0)) - 1
        elif c in "({[":
            depth += 1
        elif c in ")}]":
            depth -= 1
            if depth == 0 and c == "}":
                # a block arm may end without a comma
                j = i + 1
                while j < n and body[j] in " \t\r\n":
                    j += 1
                if j < n and body[j] != ",":
                    arms.append(body[start:i + 1])
                    start = i + 1
        elif c == "," and depth == 0:
            arms.append(body[start:i])
            start = i + 1
        i += 1
    if body[start:].strip():
        arms.append(body[start:])
    res = []
    for a in arms:
        a = a.strip()
        if not a:
            continue
        if "=>" not in a:
            raise ValueError("arm without =>: %r" % a[:60])
        p, e = a.split("=>", 1)
        res.append((p.strip(), e.strip()))
    return res


def inner_match(body, head_re):
    """finds `match <head> {` in body and returns the text between its braces"""
    m = re.search(r"\bmatch\s+%s\s*\{" % head_re, body)
    if not m:
        raise ValueError("match %s not found" % head_re)
    s = m.end() - 1
    return body[s + 1:extract.match_brace(body, s) - 1], s, extract.match_brace(body, s)


@extract.item("E2_Keywords")
def e2(repo):
    kinds = set(enum_variants(repo))
    src = extract.strip_comments(extract.read(repo, "lexer/mod.rs"))
    body = extract.fn_body(src, "create_word_token")
    # the whole function must be exactly one match on the upper-cased word
    if not re.fullmatch(r"\{\s*match\s+word\s*\.\s*to_uppercase\s*\(\s*\)\s*\.\s*as_str\s*\(\s*\)\s*\{.*\}\s*\}", body, re.S):
        raise ValueError("create_word_token is no longer a single `match word.to_uppercase().as_str()`")
    arms_txt, _, _ = inner_match(body, r"word\s*\.\s*to_uppercase\s*\(\s*\)\s*\.\s*as_str\s*\(\s*\)")
    arms = match_arms(arms_txt)
    table = []
    default = None
    for idx, (pat, expr) in enumerate(arms):
        m = re.fullmatch(r"self\s*\.\s*create_token\s*\(\s*pos\s*,\s*TokenType\s*::\s*(\w+)\s*,\s*word\s*\)", expr)
        if not m:
            raise ValueError("unexpected arm body: %r" % expr[:80])
        kind = m.group(1)
        if kind not in kinds:
            raise ValueError("unknown kind %s" % kind)
        if pat == "_":
            if idx != len(arms) - 1:
                raise ValueError("default arm is not last")
            default = kind
            continue
        keys = [k.strip() for k in pat.split("|")]
        for k in keys:
            km = re.fullmatch(r'"([^"\\]*)"', k)
            if not km:
                raise ValueError("unexpected pattern %r" % k)
            table.append((km.group(1), kind))
    if default is None:
        raise ValueError("no default arm")
    out = ["import GoldModel.Gen.E1_TokenKind", "namespace Gold.Lex", "",
           "/-- arms of `create_word_token` in source order (or-patterns expanded in place); the keys are",
           "    compared with `word.to_uppercase()` -/",
           "def kwTable : List (String × Kind) := ["]
    out += ["  (%s, .%s)%s" % (extract.lean_str(k), q(v), "," if i + 1 < len(table) else "") for i, (k, v) in enumerate(table)]
    out += ["]", "", "/-- kind of the `_ =>` arm -/", "def kwDefault : Kind := .%s" % q(default), "", "end Gold.Lex", ""]
    return "\n".join(out), "%d keys, default %s" % (len(table), default)


READERS = {
    # reader function called by the arm -> (constructor of SymAction, exact call text after `self.`)
    "read_string_constant": ("strSingle", r"Ok\s*\(\s*self\s*\.\s*read_string_constant\s*\(\s*pos\s*,\s*buf\s*\)\s*\)"),
    "read_string_constant_doublequotes": ("strDouble", r"Ok\s*\(\s*self\s*\.\s*read_string_constant_doublequotes\s*\(\s*pos\s*,\s*buf\s*\)\s*\)"),
    "read_comment": ("comment", r"Ok\s*\(\s*self\s*\.\s*read_comment\s*\(\s*pos\s*,\s*buf\s*\)\s*\)"),
    "read_int_char_literal": ("intChar", r"Ok\s*\(\s*self\s*\.\s*read_int_char_literal\s*\(\s*pos\s*,\s*buf\s*\)\s*\)"),
    "read_double_char_op": ("doubleOp", r"self\s*\.\s*read_double_char_op\s*\(\s*next\s*\.\s*1\s*,\s*pos\s*,\s*buf\s*\)"),
}


def char_class(pat):
    """`'a'..='z' | 'A'..='Z' | '_'` -> [(lo, hi)]"""
    res = []
    for alt in pat.split("|"):
        alt = alt.strip()
        m = re.fullmatch(RUST_CHAR + r"\s*\.\.=\s*" + RUST_CHAR, alt)
        if m:
            res.append((rust_char(m.group(1)), rust_char(m.group(2))))
            continue
        m = re.fullmatch(RUST_CHAR, alt)
        if m:
            res.append((rust_char(m.group(1)), rust_char(m.group(1))))
            continue
        raise ValueError("unexpected char pattern %r" % alt)
    return res


def lean_class(cls):
    return "[" + ", ".join("(%s, %s)" % (lean_char(a), lean_char(b)) for a, b in cls) + "]"


@extract.item("E3_Symbols")
def e3(repo):
    kinds = set(enum_variants(repo))
    src = extract.strip_comments(extract.read(repo, "lexer/mod.rs"))

    # --- first-character dispatch of `lex`
    body = extract.fn_body(src, "lex")
    # `match cur_char.unwrap() {` or, after a `while let Some(x) = …` rewrite, `match x {`: what counts is the three arms checked below
    arms_txt, _, _ = inner_match(body, r"(?:cur_char\s*\.\s*unwrap\s*\(\s*\)|\*?\w+)")
    arms = match_arms(arms_txt)
    want = ["self.read_word(&mut chars)", "self.read_number(&mut chars)", "self.read_symbol(&mut chars)"]
    got = [re.sub(r"\s+", "", e) for _, e in arms]
    if got != [re.sub(r"\s+", "", w) for w in want] or arms[2][0] != "_":
        raise ValueError("first-character dispatch of lex changed: %r" % arms)
    word_start = char_class(arms[0][0])
    num_start = char_class(arms[1][0])

    # --- continuation classes of read_word / read_number
    def cont_class(fn, var):
        b = extract.fn_body(src, fn)
        t, _, _ = inner_match(b, r"(?:next\s*\.\s*unwrap\s*\(\s*\)\s*\.\s*1|\*?\w+)")
        a = match_arms(t)
        if len(a) != 2 or a[1][0] != "_" or a[1][1] != "break":
            raise ValueError("%s: unexpected loop shape" % fn)
        consume = r"\{\s*%s\s*\.\s*push\s*\(\s*buf\s*\.\s*next\s*\(\s*\)\s*\.\s*unwrap\s*\(\s*\)\s*\.\s*1\s*\)\s*;?\s*\}" % var
        # the same step with the peeked character bound by the loop head: `while let Some(&(_, c)) = buf.peek() { match c { … => { word.push(c); buf.next(); } … } }`
        pk = re.search(r"while\s+let\s+Some\s*\(\s*&?\s*\(\s*_\s*,\s*(\w+)\s*\)\s*\)\s*=\s*buf\s*\.\s*peek\s*\(\s*\)", b)
        peeked = r"\{\s*%s\s*\.\s*push\s*\(\s*\*?%s\s*\)\s*;\s*buf\s*\.\s*next\s*\(\s*\)\s*;?\s*\}" % (var, re.escape(pk.group(1))) if pk else None
        head_is_peeked = pk and re.search(r"match\s+\*?%s\s*\{" % re.escape(pk.group(1)), b)
        if not (re.fullmatch(consume, a[0][1]) or (peeked and head_is_peeked and re.fullmatch(peeked, a[0][1]))):
            raise ValueError("%s: unexpected loop body %r" % (fn, a[0][1]))
        return char_class(a[0][0])
    word_cont = cont_class("read_word", "word")
    num_cont = cont_class("read_number", "number")
    b = extract.fn_body(src, "read_number")
    if not re.search(r"self\s*\.\s*create_token\s*\(\s*\w+\s*,\s*TokenType\s*::\s*NumericLiteral\s*,\s*number\s*\)", b):
        raise ValueError("read_number no longer creates NumericLiteral from the swallowed text")
    b = extract.fn_body(src, "read_word")
    if not re.search(r"self\s*\.\s*create_word_token\s*\(\s*\w+\s*,\s*word\s*\)", b):
        raise ValueError("read_word no longer classifies through create_word_token")

    # --- read_symbol
    body = extract.fn_body(src, "read_symbol")
    # equivalent spellings are normalised first: `let (pos, c) = buf.next().unwrap();` binds what `next.0` / `next.1` name,
    # and `'a' | 'b' => e` stands for two arms with the same body
    alias = re.search(r"let\s*\(\s*pos\s*,\s*(\w+)\s*\)\s*=\s*buf\s*\.\s*next\s*\(\s*\)\s*\.\s*unwrap\s*\(\s*\)\s*;", body)
    if alias:
        body = re.sub(r"\b%s\b" % re.escape(alias.group(1)), "next.1", body[:alias.start()] + body[alias.end():])
    arms_txt, _, _ = inner_match(body, r"next\s*\.\s*1")
    dispatch = []
    saw_default = False
    expanded = []
    for pat, expr in match_arms(arms_txt):
        parts = [x.strip() for x in pat.split("|")]
        if len(parts) > 1 and all(re.fullmatch(RUST_CHAR, x) for x in parts):
            expanded += [(x, expr) for x in parts]
        else:
            expanded.append((pat, expr))
    for pat, expr in expanded:
        if saw_default:
            raise ValueError("arm after the default arm of read_symbol")
        if pat == "_":
            if not re.fullmatch(r"Err\s*\(\s*GoldLexerError\s*\{\s*range\s*:\s*self\s*\.\s*create_range\s*\(\s*pos\s*,\s*1\s*\)\s*,\s*msg\s*:.*\}\s*\)", expr, re.S):
                raise ValueError("default arm of read_symbol is no longer an error of length 1 at pos")
            saw_default = True
            continue
        pm = re.fullmatch(RUST_CHAR, pat)
        if not pm:
            raise ValueError("unexpected read_symbol pattern %r" % pat)
        ch = rust_char(pm.group(1))
        m = re.fullmatch(r"Ok\s*\(\s*self\s*\.\s*create_token\s*\(\s*pos\s*,\s*TokenType\s*::\s*(\w+)\s*,\s*next\s*\.\s*1\s*\.\s*to_string\s*\(\s*\)\s*\)\s*\)", expr)
        if m:
            if m.group(1) not in kinds:
                raise ValueError("unknown kind %s" % m.group(1))
            dispatch.append((ch, ".tok .%s" % q(m.group(1))))
            continue
        for fn, (ctor, rx) in READERS.items():
            if re.fullmatch(rx, expr):
                dispatch.append((ch, "." + ctor))
                break
        else:
            raise ValueError("unexpected read_symbol arm %r => %r" % (pat, expr[:80]))
    if not saw_default:
        raise ValueError("read_symbol has no default arm")

    # --- read_double_char_op: if/else-if chain on first_op, each a match on `next`
    body = extract.fn_body(src, "read_double_char_op")
    dbl = []
    pk = re.search(r"let\s+(\w+)\s*=\s*buf\s*\.\s*peek\s*\(\s*\)\s*;", body)
    if not pk or not re.search(r"let\s+mut\s+is_double_op\s*=\s*true\s*;", body):
        raise ValueError("read_double_char_op: prologue changed")
    peek = pk.group(1)
    ERR = r"Err\s*\(\s*GoldLexerError\s*\{\s*range\s*:\s*self\s*\.\s*create_range\s*\(\s*pos\s*,\s*1\s*\)\s*,.*?\}\s*\)"
    TAIL = r"if\s+is_double_op\s*\{\s*buf\s*\.\s*next\s*\(\s*\)\s*;\s*\}\s*;?\s*return\s+result\s*;\s*\}"
    branches = []     # (first character, text between the braces of its `match <peek> { … }`)
    chain = list(re.finditer(r"(?:\belse\s+)?\bif\s+first_op\s*==\s*" + RUST_CHAR + r"\s*\{", body))
    if chain:
        # shape 1: if / else-if chain on first_op, each `result = match <peek> {…};`, then `else { result = Err(…) }`
        for m in chain:
            first = rust_char(m.group(1))
            blk = body[m.end() - 1:extract.match_brace(body, m.end() - 1)]
            if not re.fullmatch(r"\{\s*result\s*=\s*match\s+%s\s*\{.*\}\s*;\s*\}" % peek, blk, re.S):
                raise ValueError("read_double_char_op: branch for %r is not `result = match %s {…};`" % (first, peek))
            branches.append((first, inner_match(blk, peek)[0]))
        tail = body[extract.match_brace(body, chain[-1].end() - 1):]
        if not re.fullmatch(r"\s*else\s*\{\s*result\s*=\s*" + ERR + r"\s*;\s*\}\s*" + TAIL, tail, re.S):
            raise ValueError("read_double_char_op: tail (else-error / consume second char) changed")
    else:
        # shape 2: `let result … = match first_op { 'c' => match <peek> {…}, …, _ => Err(…) };` with the same tail
        try:
            arms_txt, m_start, m_end = inner_match(body, r"first_op")
        except ValueError:
            raise ValueError("read_double_char_op: no first_op chain")
        if not re.search(r"let\s+result\s*(?::[^=]*)?=\s*match\s+first_op\s*$", body[:m_start]):
            raise ValueError("read_double_char_op: the match on first_op is not what `result` is bound to")
        saw_err = False
        for pat, expr in match_arms(arms_txt):
            if pat == "_":
                if not re.fullmatch(ERR, expr.strip().rstrip(",").strip(), re.S):
                    raise ValueError("read_double_char_op: default arm is not the error")
                saw_err = True
                continue
            pm = re.fullmatch(RUST_CHAR, pat)
            mm = re.fullmatch(r"match\s+%s\s*\{(.*)\}" % peek, expr.strip().rstrip(",").strip(), re.S)
            if not pm or not mm or saw_err:
                raise ValueError("read_double_char_op: unexpected arm %r" % pat)
            branches.append((rust_char(pm.group(1)), mm.group(1)))
        if not saw_err or not re.fullmatch(r"\s*;\s*" + TAIL, body[m_end:], re.S):
            raise ValueError("read_double_char_op: tail (error arm / consume second char) changed")
    if not branches:
        raise ValueError("read_double_char_op: no first_op chain")
    for first, t in branches:
        doubles, single = [], None
        for pat, expr in match_arms(t):
            pm = re.fullmatch(r"Some\s*\(\s*\(\s*_\s*,\s*" + RUST_CHAR + r"\s*\)\s*\)", pat)
            if pm:
                em = re.fullmatch(r'Ok\s*\(\s*self\s*\.\s*create_token\s*\(\s*pos\s*,\s*TokenType\s*::\s*(\w+)\s*,\s*"([^"\\]*)"\s*\.\s*to_string\s*\(\s*\)\s*\)\s*\)', expr)
                if not em or single is not None:
                    raise ValueError("read_double_char_op: unexpected arm %r" % expr[:80])
                doubles.append((rust_char(pm.group(1)), em.group(1), em.group(2)))
            elif pat == "_":
                em = re.fullmatch(r'\{\s*is_double_op\s*=\s*false\s*;\s*Ok\s*\(\s*self\s*\.\s*create_token\s*\(\s*pos\s*,\s*TokenType\s*::\s*(\w+)\s*,\s*"([^"\\]*)"\s*\.\s*to_string\s*\(\s*\)\s*\)\s*\)\s*\}', expr)
                if not em:
                    raise ValueError("read_double_char_op: unexpected fallback %r" % expr[:80])
                single = (em.group(1), em.group(2))
            else:
                raise ValueError("read_double_char_op: unexpected pattern %r" % pat)
        if single is None:
            raise ValueError("read_double_char_op: no fallback for %r" % first)
        for _, k, _ in doubles:
            if k not in kinds:
                raise ValueError("unknown kind %s" % k)
        if single[0] not in kinds:
            raise ValueError("unknown kind %s" % single[0])
        dbl.append((first, doubles, single))
    out = ["import GoldModel.Gen.E1_TokenKind", "namespace Gold.Lex", "",
           "/-- what an arm of `read_symbol` does with its first character -/",
           "inductive SymAction where",
           "  | tok (k : Kind)      -- `Ok(self.create_token(pos, k, next.1.to_string()))`",
           "  | doubleOp            -- `self.read_double_char_op(next.1, pos, buf)`",
           "  | strSingle           -- `Ok(self.read_string_constant(pos, buf))`",
           "  | strDouble           -- `Ok(self.read_string_constant_doublequotes(pos, buf))`",
           "  | comment             -- `Ok(self.read_comment(pos, buf))`",
           "  | intChar             -- `Ok(self.read_int_char_literal(pos, buf))`",
           "deriving DecidableEq, Repr", "",
           "/-- arms of `read_symbol` in source order; no entry = the `_ => Err(…)` arm -/",
           "def symDispatch : List (Char × SymAction) := ["]
    out += ["  (%s, %s)%s" % (lean_char(c), a, "," if i + 1 < len(dispatch) else "") for i, (c, a) in enumerate(dispatch)]
    out += ["]", "",
            "/-- `read_double_char_op`: first char ↦ (second char ↦ kind, value as written), fallback (kind, value) -/",
            "def dblTable : List (Char × List (Char × Kind × String) × (Kind × String)) := ["]
    for i, (first, doubles, single) in enumerate(dbl):
        ds = ", ".join("(%s, .%s, %s)" % (lean_char(c), q(k), extract.lean_str(v)) for c, k, v in doubles)
        out.append("  (%s, [%s], (.%s, %s))%s" % (lean_char(first), ds, q(single[0]), extract.lean_str(single[1]), "," if i + 1 < len(dbl) else ""))
    out += ["]", "",
            "/-- character classes (inclusive ranges): first char of a word / of a number (`lex`),",
            "    continuation of a word (`read_word`) / of a number (`read_number`) -/",
            "def wordStartClass : List (Char × Char) := " + lean_class(word_start),
            "def numStartClass : List (Char × Char) := " + lean_class(num_start),
            "def wordContClass : List (Char × Char) := " + lean_class(word_cont),
            "def numContClass : List (Char × Char) := " + lean_class(num_cont),
            "", "end Gold.Lex", ""]
    return "\n".join(out), "%d read_symbol arms, %d double-op starters (%d double ops)" % (
        len(dispatch), len(dbl), sum(len(d) for _, d, _ in dbl))
