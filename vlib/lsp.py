"""Drive the REAL `gold-lang-lsp --stdio` binary (C01, C02): Content-Length framing, the
initialize handshake, scripts of messages, response collection, liveness, exit status,
stderr (`panicked`).  stdlib only.

Deadlines are generous (a loaded 16-core box); a timeout is classified as `hang` only
after the process has been confirmed alive and idle (no CPU time consumed over a window).
"""
import json
import os
import subprocess
import threading
import time
from urllib.parse import quote

from . import core

CLK = os.sysconf("SC_CLK_TCK") if hasattr(os, "sysconf") else 100


def path_uri(path):
    return "file://" + quote(path, errors="surrogateescape")     # (file names that are not UTF-8 arrive as surrogate escapes)


class Server:
    def __init__(self, root, binary=None, stderr_path=None, init_timeout=60.0, init_params=None):
        self.binary = binary or core.REPO_BIN
        self.root = root
        self.init_params = init_params
        self.stderr_path = stderr_path or os.path.join(root + ".stderr")
        self.errf = open(self.stderr_path, "wb")
        self.p = subprocess.Popen([self.binary, "--stdio"], stdin=subprocess.PIPE, stdout=subprocess.PIPE,
                                  stderr=self.errf, cwd=root)
        self.msgs = []            # every message the server sent, in order
        self.cv = threading.Condition()
        self.eof = False
        self.t = threading.Thread(target=self._reader, daemon=True)
        self.t.start()
        self.init_ok = self._initialize(init_timeout)

    # ---- framing
    def _reader(self):
        f = self.p.stdout
        try:
            while True:
                length = None
                while True:
                    line = f.readline()
                    if not line:
                        raise EOFError
                    line = line.strip()
                    if not line:
                        break
                    if line.lower().startswith(b"content-length:"):
                        length = int(line.split(b":")[1])
                if length is None:
                    continue
                body = b""
                while len(body) < length:
                    chunk = f.read(length - len(body))
                    if not chunk:
                        raise EOFError
                    body += chunk
                try:
                    m = json.loads(body.decode("utf-8"))
                except Exception:
                    m = {"_unparsable": body[:200].decode("latin-1")}
                with self.cv:
                    self.msgs.append(m)
                    self.cv.notify_all()
        except (EOFError, ValueError, OSError):
            pass
        with self.cv:
            self.eof = True
            self.cv.notify_all()

    def send_raw(self, obj):
        data = json.dumps(obj).encode("utf-8")
        try:
            self.p.stdin.write(b"Content-Length: %d\r\n\r\n" % len(data) + data)
            self.p.stdin.flush()
            return True
        except (BrokenPipeError, OSError, ValueError):
            return False

    def request(self, rid, method, params):
        return self.send_raw({"jsonrpc": "2.0", "id": rid, "method": method, "params": params})

    def notify(self, method, params):
        return self.send_raw({"jsonrpc": "2.0", "method": method, "params": params})

    # ---- protocol
    def _initialize(self, timeout):
        params = {"processId": None, "rootUri": path_uri(self.root), "capabilities": {}}
        if self.init_params is not None:
            params.update(self.init_params)       # e.g. {"rootUri": None, "workspaceFolders": []}
        self.request("init", "initialize", params)
        r = self.wait_for(["init"], timeout)
        if "init" not in r:
            return False
        self.notify("initialized", {})
        return True

    def responses(self):
        """{id: [response, …]} of everything received so far (ids as sent)"""
        out = {}
        with self.cv:
            for m in self.msgs:
                if "id" in m and "method" not in m:
                    out.setdefault(m["id"], []).append(m)
        return out

    def wait_for(self, ids, timeout):
        """wait until every id in `ids` has at least one response, the stream ends, or the deadline"""
        deadline = time.time() + timeout
        want = set(ids)
        with self.cv:
            while True:
                have = {m["id"] for m in self.msgs if "id" in m and "method" not in m}
                if want <= have or self.eof:
                    break
                left = deadline - time.time()
                if left <= 0:
                    break
                self.cv.wait(min(left, 0.5))
        return self.responses()

    def alive(self):
        return self.p.poll() is None

    def cpu_ticks(self):
        try:
            tot = 0
            for tid in os.listdir("/proc/%d/task" % self.p.pid):
                with open("/proc/%d/task/%s/stat" % (self.p.pid, tid)) as f:
                    parts = f.read().rsplit(")", 1)[1].split()
                tot += int(parts[11]) + int(parts[12])
            return tot
        except (OSError, IndexError, ValueError):
            return None

    def idle(self, window=1.0):
        """alive and consuming no CPU over `window` seconds (so a missing response will not come)"""
        a = self.cpu_ticks()
        time.sleep(window)
        b = self.cpu_ticks()
        return self.alive() and a is not None and b is not None and b == a

    def settle(self, ids, timeout):
        """wait for ids; if some are missing decide between `slow` (still working: keep waiting up to
        3x the deadline) and a genuine missing answer (process idle or gone)"""
        r = self.wait_for(ids, timeout)
        extra = 0
        while not set(ids) <= set(r) and self.alive() and extra < 2:
            if self.idle():
                break
            extra += 1
            r = self.wait_for(ids, timeout)
        return r

    def shutdown_exit(self, timeout=60.0, rid="shutdown"):
        """shutdown request, (its response), exit notification; returns exit status or None (still running)"""
        self.request(rid, "shutdown", None)
        self.wait_for([rid], timeout)
        self.notify("exit", None)
        try:
            self.p.stdin.close()
        except OSError:
            pass
        try:
            return self.p.wait(timeout)
        except subprocess.TimeoutExpired:
            return None

    def kill(self):
        try:
            self.p.kill()
        except OSError:
            pass
        try:
            self.p.wait(10)
        except Exception:
            pass
        try:
            self.p.stdout.close()
        except Exception:
            pass
        self.errf.close()

    def stderr_text(self):
        try:
            self.errf.flush()
        except Exception:
            pass
        try:
            return open(self.stderr_path, "rb").read().decode("utf-8", "replace")
        except OSError:
            return ""

    def wait_log(self, needle, timeout=30.0):
        """readiness barrier that does not touch the server: wait until its log (stderr) contains `needle`"""
        deadline = time.time() + timeout
        while time.time() < deadline:
            if needle in self.stderr_text():
                return True
            if not self.alive():
                return needle in self.stderr_text()
            time.sleep(0.01)
        return False

    def panicked(self):
        return "panicked" in self.stderr_text()


# ---- standard params ---------------------------------------------------------------------

def td(uri):
    return {"textDocument": {"uri": uri}}


def tdpos(uri, line, ch):
    return {"textDocument": {"uri": uri}, "position": {"line": line, "character": ch}}


def hierarchy_item(uri, name, line=0):
    rng = {"start": {"line": line, "character": 0}, "end": {"line": line, "character": 1}}
    return {"item": {"name": name, "kind": 5, "uri": uri, "range": rng, "selectionRange": rng}}


def did_open(uri, text, lang="gold", version=1):
    return {"textDocument": {"uri": uri, "languageId": lang, "version": version, "text": text}}


def did_change(uri, text, version=2):
    return {"textDocument": {"uri": uri, "version": version}, "contentChanges": [{"text": text}]}


def did_save(uri):
    return {"textDocument": {"uri": uri}}


def did_close(uri):
    return {"textDocument": {"uri": uri}}
