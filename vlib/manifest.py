"""writes MANIFEST.json from the table below (kept valid at all times: every property is
either claimed or listed under not_applicable with a reason)."""
import json
import os

VERIF = os.path.dirname(os.path.dirname(os.path.abspath(__file__)))

def load_claimed():
    """one JSON fragment per claimed property in manifest.d/ (text, design, note, technique)"""
    d = {}
    md = os.path.join(VERIF, "manifest.d")
    for fn in sorted(os.listdir(md)):
        if fn.endswith(".json"):
            d[fn[:-5]] = json.load(open(os.path.join(md, fn)))
    return d


CLAIMED = load_claimed()
def hook_commits():
    """the guarded instrumentation commits of /repo (message starts with `verif hook`)"""
    import subprocess
    try:
        o = subprocess.run(["git", "-C", "/repo", "log", "--reverse", "--format=%h %s", "--grep=^verif hook"],
                           capture_output=True, text=True).stdout
        return [l[:200] for l in o.splitlines() if l.strip()]
    except Exception:
        return []


HOOK_COMMITS = hook_commits()

PENDING_REASON = "not claimed yet: model and theorems for this property are still being built in this round (see DESIGN.md §7 build order); no check is registered until its evidence is real"


def main():
    props = [json.loads(l) for l in open(os.path.join(VERIF, "properties.jsonl"))]
    checks = []
    na = []
    for p in props:
        pid = p["id"]
        if pid in CLAIMED:
            c = CLAIMED[pid]
            checks.append({
                "property_id": pid,
                "quick_cmd": "./check %s --tier quick" % pid,
                "thorough_cmd": "./check %s --tier thorough" % pid,
                "evidence_file": "/verif/evidence/%s.json" % pid,
                "replay_cmd_template": "./check %s --replay {path}" % pid,
                "engine": "lean4-proof+correspondence",
                "level_claimed": {"category": "proof", "text": c["text"], "design_ref": c["design"]},
                "level_note": c["note"],
                "technique": c["technique"],
            })
        else:
            na.append({"property_id": pid, "reason": PENDING_REASON})
    m = {
        "version": 1,
        "setup_cmd": "./setup.sh",
        "hooks": {
            "guard": "--cfg gold_lsp_verif",
            "enable": "RUSTFLAGS='--cfg gold_lsp_verif' (harness/.cargo/config.toml for the harness crate that compiles /repo/src by path; env for the real binary built into /verif/.cache/repo-target)",
            "baseline_off_cmd": "cd /repo && cargo test --workspace --no-fail-fast --offline",
            "source_commits": HOOK_COMMITS,
            "add_only": True,
        },
        "engines": [{
            "name": "lean4-proof+correspondence", "path": "/verif/check",
            "serves_properties": sorted(CLAIMED),
            "kind_free_text": "Lean 4 theorems over executable models (lean/GoldModel), tied to /repo by a translator (vlib/extract.py) and a differential harness (harness/) that compiles /repo/src by path",
        }],
        "checks": checks,
        "not_applicable": na,
        "notes": "Technique family: machine-checked proof in Lean 4. See DESIGN.md. Known findings: known_findings.json.",
    }
    with open(os.path.join(VERIF, "MANIFEST.json"), "w") as f:
        json.dump(m, f, indent=1, ensure_ascii=False)
        f.write("\n")


if __name__ == "__main__":
    main()
