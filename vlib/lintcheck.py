"""shared machinery of the C15 / C16 checks (DESIGN §4 C15, C16; notes/C15.md, notes/C16.md).

pipeline per program text:
  toks      harness `toks`      text -> token line of the REAL lexer
  impl      harness `lint`      text -> the real diagnostics request on a one-file workspace (twice)
  impl_tk   harness `linttoks`  tokens -> real parser + the analyzers wired as in manager/mod.rs
  model     driver  `lint`      tokens -> parser model -> M-LINT (configuration from E8/E9)
  spec      driver  `lintspec`  tokens -> what the property's rules demand (Props/C15, C16) + guards
correspondence: impl == impl_tk == model (full items: severity, range, message, tags).
oracles: implementation vs the generator's verdicts (class + range), implementation vs the Lean
specification, per-method independence under method permutation, invariance under consistent
renaming and re-casing, idempotence of the request.
"""
import json
import os
import re

from . import core
from .core import esc, unesc
from .gen import lintprog as G

CLASSES = [
    ("unused", r"^Unused var: "),
    ("dupvar", r"^Var name already declared"),
    ("ret", r"type should not be returned by functions"),
    ("inherited", r"should call its inherited"),
    ("unpurged", r"is not purged$"),
    ("naming:proc", r"^Procedure names should"),
    ("naming:func", r"^Function names should"),
    ("naming:field", r"^Field names should"),
    ("naming:param", r"^Parameter names should"),
    ("naming:local", r"^Local variable names should"),
    ("naming:type", r"^Type names should"),
    ("naming:const", r"^Constant names should"),
]
C15_CLASSES = {"unused"}


def classify(msg):
    for c, pat in CLASSES:
        if re.search(pat, msg):
            return c
    return "other:" + msg[:30]


def parse_out(line):
    """`L=a,b P=n I=x` -> (items list, P, I) ; None for err/panic"""
    m = re.match(r"^L=(\S*) P=(\d+) I=(\w+)$", line)
    if not m:
        return None
    items = [x for x in m.group(1).split(",") if x]
    return items, int(m.group(2)), m.group(3)


def item_cls_rng(item):
    sev, rng, msg, tags = item.split("|")
    return "%s|%s" % (classify(unesc(msg)), rng), sev, tags


def is15(cr):
    return cr.split("|")[0] in C15_CLASSES


def restrict(line, mine):
    po = parse_out(line)
    if po is None:
        return line
    return "L=%s P=%d I=%s" % (",".join(x for x in po[0] if mine(item_cls_rng(x)[0])), po[1], po[2])


def load_probes(prop):
    """corpus/<prop>/probes.txt: `signature <TAB> title <TAB> escaped text` — inputs on which the code's
    rule and the property's wording are KNOWN to differ (see notes)"""
    p = os.path.join(core.VERIF, "corpus", prop, "probes.txt")
    out = []
    if os.path.exists(p):
        for l in open(p):
            l = l.rstrip("\n")
            if not l or l.startswith("#"):
                continue
            sig, title, text = l.split("\t")
            out.append((sig, title, unesc(text)))
    return out


def build_cases(ctx, prop):
    """-> list of dict(kind, text, expected, per_method, starts, meta)"""
    w = 0 if prop == "C15" else 1
    quick = ctx.tier == "quick"
    cases = []

    def add(kind, p, meta=None, group=None):
        text, exp, per = G.render(p)
        cases.append({"kind": kind, "text": text, "expected": exp, "per_method": per, "prog": p, "meta": meta or {}, "group": group})
        ctx.count(kind.split(":")[0])

    for name, p in G.single_toggle_programs():
        add("toggle:" + name, p)
    nrand = (500 if quick else 6000)
    gid = 0
    for i in range(nrand):
        p = G.gen_prog(ctx.rng, w)
        gid += 1
        add("random", p, group=gid)
        ctx.count("methods=%d" % len(p.methods))
        for m in p.methods:
            ctx.count("locals=%d" % len(m.locals))
            for v in m.locals:
                ctx.count("use=" + v.use)
                if G.is_byte_array(v.ty):
                    ctx.count("purge=" + v.purge)
            if m.name.upper() in [x.upper() for x in G.INHERITED_NAMES]:
                ctx.count("inh=" + m.inh)
        nvar = 1 if quick else 2
        for _ in range(nvar):
            add("permute", G.permute(p, ctx.rng), group=gid)
        add("rename", G.rename(p, i % 3), meta={"mode": i % 3}, group=gid)
        add("recase", G.recase(p, ctx.rng), group=gid)
    return cases


def run(ctx, prop, rule_text):
    # core.Rng(seed) only shifts one splitmix stream by `seed` positions, so neighbouring seeds would
    # generate nearly the same programs; re-seed the run's single PRNG with a mixed value of VERIF_SEED
    import hashlib
    ctx.rng = core.Rng(int.from_bytes(hashlib.sha256(b"lint-%d" % ctx.seed).digest()[:8], "big"))
    ctx.trusted += [
        "Lean 4.33 kernel + leanchecker; axioms ⊆ {propext, Classical.choice, Quot.sound}",
        "hand-written model lean/GoldModel/Model/Lint.lean (five analyzers + request), tied to src/analyzers/*, src/analyzers_v2/*_checker.rs and manager/mod.rs by the `lint` correspondence and by the regenerated tables E8_LintConsts / E9_FoldSites (vlib/extractors/lint.py, trusted to transcribe)",
        "parser model lean/GoldModel/Model/{Peg,Grammar}.lean (tree the lints are computed from), tied by its own `parse` correspondence and here by comparing the lints of model tree and real tree",
        "std HashMap modelled as an association list with unique keys (reports compared as multisets); str::to_uppercase as an arbitrary `norm` in the theorems, ASCII upper-casing in executable runs",
        "harness/src/modes/lint.rs (real ProjectManager on a one-file workspace), generator vlib/gen/lintprog.py (its verdicts are an independent oracle), lean_exe compilation of the driver",
    ]
    ctx.assumptions += [
        "theorems are guarded by decidable well-formedness predicates (locals declared once and before use; the analyzer's reading of every node equals the property's) — the driver evaluates them on every case, all generated programs satisfy them, the known exceptions are the probes of corpus/%s/probes.txt" % prop,
        "the three annotated-tree checkers read only node data, children and parents (no symbol tables), so one-file workspaces exercise them fully",
    ]
    if ctx.replay:
        return replay(ctx, prop)
    ctx.extract(["E1_TokenKind", "E8_LintConsts", "E9_FoldSites"])
    ctx.prove("GoldModel.Props." + prop)
    if not ctx.build_harness():
        return ctx.finish(rule=rule_text)
    ctx.phase("generate")
    cases = build_cases(ctx, prop)
    probes = load_probes(prop)
    texts = [c["text"] for c in cases] + [t for _, _, t in probes]
    ctx.log("%d generated programs, %d discrepancy probes" % (len(cases), len(probes)))
    ctx.phase("run")
    def again(run, lines):
        """a shard killed from outside (OOM killer on a shared box) leaves `<no-output …>` lines:
        run those cases once more, alone; a case that really brings the process down does so again"""
        out = run(lines)
        redo = [i for i, o in enumerate(out) if o.startswith("<no-output")]
        if redo:
            ctx.log("%d cases without output (process killed); running them again" % len(redo))
            for i, o in zip(redo, run([lines[i] for i in redo])):
                out[i] = o
        return out
    toks = again(lambda l: ctx.run_harness("toks", l), ["toks " + esc(t) for t in texts])
    tl = [t[len("parse"):] for t in toks]
    impl = again(lambda l: ctx.run_harness("lint", l), ["lint " + esc(t) for t in texts])
    impl_tk = again(lambda l: ctx.run_harness("linttoks", l), ["linttoks" + t for t in tl])
    model = again(ctx.run_driver, ["lint" + t for t in tl])
    spec = again(ctx.run_driver, ["lintspec" + t for t in tl])
    ctx.phase("compare")
    keys = ["lint " + esc(t) for t in texts]
    nontriv = lambda c, a: a.startswith("L=") and not a.startswith("L= ")
    mine = (lambda cr: is15(cr)) if prop == "C15" else (lambda cr: not is15(cr))
    # C15 rests on the unused-variable analyzer alone: compare its items only; C16 ("nothing else is
    # flagged") compares the whole response
    view = (lambda l: restrict(l, mine)) if prop == "C15" else (lambda l: l)
    ctx.compare("lint (real diagnostics request vs model)", keys, list(map(view, impl)), list(map(view, model)), nontrivial=nontriv)
    ctx.compare("linttoks (real parser + analyzers on the token line vs model)", keys, list(map(view, impl_tk)), list(map(view, model)), nontrivial=nontriv)

    def fail(sig, what, i, extra=None):
        d = {"mode": "lint", "text": texts[i], "implementation": impl[i], "model": model[i], "specification": spec[i]}
        if i < len(cases):
            d["kind"] = cases[i]["kind"]
            d["generator_expected"] = cases[i]["expected"]
        if extra:
            d.update(extra)
        ctx.oracle_fail(sig, what, d)

    outside = 0
    parsed_impl = []
    for i, line in enumerate(impl):
        po = parse_out(line)
        parsed_impl.append(po)
        if po is None:
            fail(prop + ":crash", "the diagnostics request failed or panicked", i)
    # ---- generated programs -----------------------------------------------------------------
    for i, c in enumerate(cases):
        po = parsed_impl[i]
        if po is None:
            continue
        items, P, idem = po
        if P != 0:
            ctx.oblige("generator:well-formed-program", False, "parser diagnostics on a generated program: " + c["text"][:400])
            continue
        if prop == "C16" and idem != "same":
            fail("C16:not-idempotent", "repeating the request gave a different list", i)
        got = [item_cls_rng(x) for x in items]
        for cr, sev, tags in got:
            if not mine(cr):
                continue
            cls = cr.split("|")[0]
            want_sev = "E" if cls == "dupvar" else "W"
            if sev != want_sev:
                fail("%s:severity" % prop, "an item of class %s has severity %s" % (cls, sev), i)
        got_cr = sorted(cr for cr, _, _ in got if mine(cr))
        exp_cr = sorted(cr for cr in c["expected"] if mine(cr))
        if got_cr != exp_cr:
            sg, se = list(got_cr), list(exp_cr)
            for x in list(sg):
                if x in se:
                    sg.remove(x)
                    se.remove(x)
            for x in sg:
                fail(signature(prop, x, c, True), "flagged although the generator's toggles say it must not be (or flagged twice): " + x, i, {"item": x})
            for x in se:
                fail(signature(prop, x, c, False), "not flagged although the generator's toggles demand it: " + x, i, {"item": x})
        # implementation vs the Lean specification (the property's rules evaluated on the same tree)
        ps = re.match(r"^L=(\S*) G=(\S+)$", spec[i])
        if not ps:
            ctx.oblige("tie:lintspec-runs", False, spec[i][:200])
            continue
        if ps.group(2) != "ok":
            outside += 1
            ctx.oblige("generator:inside-the-domain-of-the-theorems", False, "guards %s fail on %s" % (ps.group(2), c["text"][:400]))
            continue
        sp_items = sorted(x for x in ps.group(1).split(",") if x and mine(item_cls_rng(x)[0]))
        im_items = sorted(x for x in items if mine(item_cls_rng(x)[0]))
        if sp_items != im_items:
            a, b = list(im_items), list(sp_items)
            for x in list(a):
                if x in b:
                    a.remove(x)
                    b.remove(x)
            for x in a:
                fail(signature(prop, item_cls_rng(x)[0], c, True), "flagged by the implementation, not demanded by the specification: " + unesc(x), i, {"item": unesc(x)})
            for x in b:
                fail(signature(prop, item_cls_rng(x)[0], c, False), "demanded by the specification, not flagged: " + unesc(x), i, {"item": unesc(x)})
    # ---- metamorphic: per-method independence, renaming, re-casing ---------------------------------
    groups = {}
    for i, c in enumerate(cases):
        if c["group"] is not None:
            groups.setdefault(c["group"], []).append(i)
    nperm = nren = nrec = 0
    for g, idxs in groups.items():
        base = idxs[0]
        if parsed_impl[base] is None:
            continue
        bpm = per_method_impl(cases[base], parsed_impl[base][0], mine)
        for j in idxs[1:]:
            if parsed_impl[j] is None:
                continue
            k = cases[j]["kind"]
            pm = per_method_impl(cases[j], parsed_impl[j][0], mine)
            if k == "permute":
                nperm += 1
                if sorted(map(tuple, pm)) != sorted(map(tuple, bpm)):
                    fail("%s:not-per-method" % prop, "the verdicts of a method changed when the methods were permuted", j,
                         {"original": cases[base]["text"], "per_method_original": bpm, "per_method_permuted": pm})
            elif k == "recase":
                nrec += 1
                if pm != bpm:
                    fail("%s:case-sensitive-use" % prop if prop == "C15" else "C16:case-sensitive",
                         "the verdicts changed when uses / rule names were written in another letter case", j,
                         {"original": cases[base]["text"], "per_method_original": bpm, "per_method_recased": pm})
            elif k == "rename" and prop == "C15":
                nren += 1
                # same declarations flagged (by line; columns of the names shift with the new spelling)
                strip = lambda pml: [sorted(re.sub(r":\d+-\d+:\d+$", "", x) for x in m) for m in pml]   # by line: columns move with the spelling (two declarations may share a line)
                if strip(pm) != strip(bpm):
                    fail("C15:rename", "the unused-variable verdicts changed under a consistent renaming", j,
                         {"original": cases[base]["text"], "per_method_original": bpm, "per_method_renamed": pm})
    ctx.coverage_meta = {"permutations": nperm, "renamings": nren, "recasings": nrec}
    broken_elsewhere_oracle(ctx, prop, 150 if ctx.tier == "quick" else 3000)
    if prop == "C15":
        redeclared_oracle(ctx, 150 if ctx.tier == "quick" else 3000)
    # ---- discrepancy probes ---------------------------------------------------------------------------
    n0 = len(cases)
    for k, (sig, title, text) in enumerate(probes):
        i = n0 + k
        po = parsed_impl[i]
        ps = re.match(r"^L=(\S*) G=(\S+)$", spec[i])
        if po is None or not ps:
            continue
        sp_items = sorted(x for x in ps.group(1).split(",") if x)
        im_items = sorted(po[0])
        if sp_items != im_items:
            fail(sig, "%s — the analyzers' rule differs from the property's wording here (guards: %s)" % (title, ps.group(2)), i, {"guards": ps.group(2)})
            if ps.group(2) == "ok":
                fail(prop + ":spec-mismatch", "implementation and specification differ although every guard holds: " + title, i)
        else:
            ctx.notes.append("probe `%s` no longer shows a difference" % title)
        ctx.count("probe")
    # ---- grammar-wide token programs (every construct of the grammar, token-level mutations, names that
    #      collide with the rule names): correspondence + specification wherever the guards hold -----------
    from .gen import prog as GP
    ctx.phase("grammar-wide")
    names = ["count", "Count", "COUNT", "buf", "BUF", "Init", "init", "Terminate", "pass", "Purge", "purge", "self",
             "tVarByteArray", "TVARBYTEARRAY", "Text", "aListOfInstances", "x", "X", "_u", "cK", "mlK", "tT", "T"]
    kinds = ["Identifier", "Dot", "OBracket", "CBracket", "Var", "Colon", "Equals", "EndProc", "Proc", "Func", "Return",
             "Inherited", "For", "EndFor", "If", "EndIf", "Comma", "StringLiteral", "NumericLiteral", "OSqrBracket",
             "CSqrBracket", "Override", "End"]
    glines = []
    for i in range(1500 if ctx.tier == "quick" else 30000):
        g = GP.Gen(ctx.rng, names if i % 2 == 0 else None)
        t = g.program(d=3)
        if i % 3 == 2:
            t = GP.mutate(ctx.rng, t, kinds)
        glines.append(GP.wire(t)[len("parse"):])
    g_impl = again(lambda l: ctx.run_harness("linttoks", l), ["linttoks" + l for l in glines])
    g_model = again(ctx.run_driver, ["lint" + l for l in glines])
    g_spec = again(ctx.run_driver, ["lintspec" + l for l in glines])
    ctx.compare("linttoks on grammar-wide token programs (real parser + analyzers vs model)", ["linttoks" + l for l in glines],
                list(map(view, g_impl)), list(map(view, g_model)), nontrivial=nontriv)
    g_inside = 0
    for i, l in enumerate(glines):
        po = parse_out(g_impl[i])
        ps = re.match(r"^L=(\S*) G=(\S+)$", g_spec[i])
        if po is None:
            ctx.oracle_fail(prop + ":crash", "the analyzers panicked on a token program", {"mode": "linttoks", "tokens": "linttoks" + l, "implementation": g_impl[i]})
            continue
        if not ps or ps.group(2) != "ok":
            continue
        g_inside += 1
        a = sorted(x for x in po[0] if mine(item_cls_rng(x)[0]))
        b = sorted(x for x in ps.group(1).split(",") if x and mine(item_cls_rng(x)[0]))
        if a != b:
            ctx.oracle_fail(prop + ":spec-mismatch", "every guard of the theorems holds of this program, yet implementation and specification differ",
                            {"mode": "linttoks", "tokens": "linttoks" + l, "implementation": g_impl[i], "model": g_model[i], "specification": g_spec[i]})
    ctx.dist["grammar_wide_programs"] = len(glines)
    ctx.dist["grammar_wide_inside_domain"] = g_inside
    # samples / distribution
    pick = [0, len(cases) // 2, len(cases) - 1]
    ctx.samples = [{"kind": cases[i]["kind"], "text": cases[i]["text"], "implementation": impl[i], "generator_expected": cases[i]["expected"]}
                   for i in pick if i < len(cases)]
    ctx.dist["cases_outside_domain"] = outside
    extra = {"metamorphic": ctx.coverage_meta, "extracted": getattr(ctx, "extract_info", {}), "notes": ctx.notes}
    return ctx.finish(rule=rule_text, extra=extra)


def broken_elsewhere_oracle(ctx, prop, n):
    """per-method verdicts do not depend on a SYNTAX ERROR in another method: the same program with one more method whose
    body does not parse (appended, or inserted in front) must get the same items for the methods it had — from the REAL
    diagnostics request (the parser's own diagnostics are not compared)"""
    broken = ["proc zBroken\n  x = )\nendproc\n", "proc zBroken\n  if (\nendproc\n", "func zBroken return int\n  return ] + 1\nendfunc\n"]
    texts, cases = [], []
    for i in range(n):
        p = G.gen_prog(ctx.rng, 1 if prop == "C16" else 0)
        text, exp, per = G.render(p)
        extra = ctx.rng.choice(broken)
        lines = text.split("\n")
        first = next((k for k, l in enumerate(lines) if l.startswith("proc ") or l.startswith("func ")), len(lines))
        front = ctx.rng.chance(1, 3)
        t2 = "\n".join(lines[:first] + extra.rstrip("\n").split("\n") + [""] + lines[first:]) if front else text.rstrip("\n") + "\n\n" + extra
        cases.append(({"text": text}, {"text": t2}, front))
        texts += [text, t2]
        ctx.count("lint-broken-elsewhere")
    out = ctx.run_harness("lint", ["lint " + esc(t) for t in texts], timeout=900)
    mine = (lambda cr: is15(cr)) if prop == "C15" else (lambda cr: not is15(cr) and not cr.startswith("other:"))
    for k, (a, b, front) in enumerate(cases):
        oa, ob = parse_out(out[2 * k]), parse_out(out[2 * k + 1])
        if oa is None or ob is None:
            if ob is None and oa is not None:
                ctx.oracle_fail("%s:request-failed-on-broken-file" % prop, "no diagnostics for a file with a syntax error in one method",
                                {"mode": "lint", "text": b["text"], "implementation": out[2 * k + 1][:300]})
            continue
        pa = per_method_impl(a, oa[0], mine)
        pb = per_method_impl(b, ob[0], mine)
        pb = pb[1:] if front else pb[:len(pa)]
        if pa != pb:
            ctx.oracle_fail("%s:depends-on-syntax-error-elsewhere" % prop,
                            "the verdicts of the intact methods changed when a method with a syntax error was added to the file",
                            {"mode": "lint", "text": b["text"], "as_written": a["text"], "per_method_intact_file": pa, "per_method_with_broken_method": pb})


def redeclared_oracle(ctx, n):
    """a local that a statement of its method mentions is not reported unused — also when the method declares the same name
    once more further down (in the same or another letter case): the unused-variable items of the REAL diagnostics request
    must be the generator's (the second declaration is an error of its own, which is not compared).  Such programs are outside
    the guard of the theorems (`WellDeclared`), so this is an oracle on the implementation alone."""
    texts, cases = [], []
    for i in range(n):
        p = G.gen_prog(ctx.rng, 0)
        text, exp, per = G.render(p)
        lines = text.split("\n")
        starts = [k for k, l in enumerate(lines) if l.startswith("proc ") or l.startswith("func ")]
        cands = [(mi, v) for mi, m in enumerate(p.methods) for v in m.locals
                 if v.use in ("once", "nested", "recv", "arg", "index", "expr") and not getattr(m, "join_decls", False)]
        if not cands or len(starts) != len(p.methods):
            continue
        mi, v = ctx.rng.choice(cands)
        end = next(k for k in range(starts[mi], len(lines)) if lines[k].startswith("end" + p.methods[mi].kind))
        name = v.name if ctx.rng.chance(1, 2) else G.swapcase_some(v.name, ctx.rng)
        lines.insert(end, "  var %s : int" % name)

        def shift(cr):
            cls, rng = cr.split("|")
            a, b = rng.split("-")
            (l1, c1), (l2, c2) = a.split(":"), b.split(":")
            d = 1 if int(l1) >= end else 0
            return "%s|%d:%s-%d:%s" % (cls, int(l1) + d, c1, int(l2) + d, c2)
        cases.append({"text": "\n".join(lines), "as_written": text, "expected": sorted(shift(cr) for cr in exp if is15(cr)),
                      "redeclared": name, "declared": v.name})
        texts.append(cases[-1]["text"])
        ctx.count("lint-redeclared-used-local")
    out = ctx.run_harness("lint", ["lint " + esc(t) for t in texts], timeout=900)
    for c, o in zip(cases, out):
        po = parse_out(o)
        if po is None:
            ctx.oracle_fail("C15:request-failed-on-redeclaration", "no diagnostics for a file that declares a local twice",
                            {"mode": "lint", "text": c["text"], "implementation": o[:300]})
            continue
        got = sorted(cr for cr in (item_cls_rng(x)[0] for x in po[0]) if is15(cr))
        if got != c["expected"]:
            ctx.oracle_fail("C15:redeclared-local", "the unused-variable items changed when a local that IS mentioned was declared once more further down",
                            {"mode": "lint", "text": c["text"], "as_written": c["as_written"], "generator_expected": c["expected"],
                             "redeclared": c["redeclared"], "implementation_unused_items": got})


def recase_oracle(ctx, n):
    """C17 at the linters: the same program with every use, type reference, rule name (`Purge`, `inherited`, `self`, `pass`,
    method names in inherited calls) written in another letter case — declarations as written — must get the same diagnostics
    (all classes except the naming conventions, per method, relative ranges), from the REAL diagnostics request"""
    texts, cases = [], []
    for i in range(n):
        p = G.gen_prog(ctx.rng, i % 2)
        for q in (p, G.recase(p, ctx.rng), G.recase(p, None)):
            text, exp, per = G.render(q)
            cases.append({"text": text, "kind": "recase", "prog": q})
            texts.append(text)
        ctx.count("lint-recase-triple")
    out = ctx.run_harness("lint", ["lint " + esc(t) for t in texts], timeout=900)
    mine = lambda cr: not cr.startswith("naming:")
    for i in range(0, len(cases), 3):
        base = parse_out(out[i])
        if base is None:
            continue
        bpm = per_method_impl(cases[i], base[0], mine)
        for j in (i + 1, i + 2):
            o = parse_out(out[j])
            if o is None:
                ctx.oracle_fail("C17:diagnostics-request-failed", "no diagnostics for the re-cased program", {"mode": "lint", "text": cases[j]["text"], "implementation": out[j][:300]})
                continue
            pm = per_method_impl(cases[j], o[0], mine)
            if pm != bpm:
                ctx.oracle_fail("C17:diagnostics", "diagnostics (other than naming conventions) changed when uses / type references / rule names were re-cased",
                                {"mode": "lint", "text": cases[j]["text"], "as_written": cases[i]["text"], "per_method_as_written": bpm, "per_method_recased": pm})


def per_method_impl(case, items, mine):
    """implementation items grouped by the method they lie in, relative to the method's first line"""
    text = case["text"]
    starts = [i for i, l in enumerate(text.split("\n")) if l.startswith("proc ") or l.startswith("func ")]
    out = [[] for _ in starts]
    for x in items:
        cr, sev, tags = item_cls_rng(x)
        if not mine(cr):
            continue
        line = int(cr.split("|")[1].split(":")[0])
        k = max([j for j, s in enumerate(starts) if s <= line], default=None)
        if k is None:
            continue
        out[k].append(G.rel(cr, starts[k]))
    return [sorted(m) for m in out]


def signature(prop, cr, case, extra_flag):
    """oracle signature from the rule class and the toggle behind the item"""
    cls = cr.split("|")[0]
    line = int(cr.split("|")[1].split(":")[0])
    srcline = case["text"].split("\n")[line] if line < len(case["text"].split("\n")) else ""
    if cls == "unused":
        v = find_local(case, srcline)
        if v is not None and (v.use == "recase" or case["kind"] == "recase"):
            return "C15:case-sensitive-use"
        if v is not None and v.use == "forctr":
            return "C15:for-counter"
        if v is not None and v.use == "string":
            return "C15:string-literal"
        return "C15:false-positive" if extra_flag else "C15:missed"
    if cls == "dupvar":
        return "C15:false-positive"
    if cls == "unpurged":
        v = find_local(case, srcline)
        if v is not None and (v.purge == "recase" or case["kind"] == "recase"):
            return "C16:unpurged-case"
        return "C16:unpurged"
    if cls == "ret":
        return "C16:return-type"
    if cls == "inherited":
        return "C16:inherited"
    if cls.startswith("naming"):
        return "C16:naming"
    return "%s:unexpected-item" % prop


def find_local(case, srcline):
    m = re.match(r"^\s*var (\w+) :", srcline)
    if not m:
        return None
    for me in case["prog"].methods:
        for v in me.locals:
            if v.name == m.group(1):
                return v
    return None


def replay(ctx, prop):
    d = json.load(open(ctx.replay))
    case = d.get("case", {})
    text = case.get("text") if isinstance(case, dict) else None
    if not text and isinstance(case, dict) and case.get("tokens"):
        ctx.build_harness()
        ctx.lake_build(["driver"])
        tl = case["tokens"][len("linttoks"):]
        impl = ctx.run_harness("linttoks", ["linttoks" + tl])[0]
        model = ctx.run_driver(["lint" + tl])[0]
        spec = ctx.run_driver(["lintspec" + tl])[0]
        print("tokens        :", tl)
        print("implementation:", unesc(impl))
        print("model         :", unesc(model))
        print("specification :", unesc(spec))
        po, ps = parse_out(impl), re.match(r"^L=(\S*) G=(\S+)$", spec)
        if po is None or impl != model or (ps and ps.group(2) == "ok" and sorted(po[0]) != sorted(x for x in ps.group(1).split(",") if x)):
            print("VIOLATION property=%s replay=%s" % (prop, ctx.replay))
            return 1
        print("implementation, model and specification agree on this case")
        return 0
    if not text:
        print("replay file names no input:", json.dumps(d.get("broken", d), indent=1)[:3000])
        return 1
    ctx.build_harness()
    ctx.lake_build(["driver"])
    tok = ctx.run_harness("toks", ["toks " + esc(text)])[0][len("parse"):]
    impl = ctx.run_harness("lint", ["lint " + esc(text)])[0]
    model = ctx.run_driver(["lint" + tok])[0]
    spec = ctx.run_driver(["lintspec" + tok])[0]
    print(text)

    def show(name, line):
        print(name)
        po = re.match(r"^L=(\S*) (.*)$", line)
        if not po:
            print("   ", line)
            return
        for x in po.group(1).split(","):
            if x:
                print("   ", unesc(x))
        print("   ", po.group(2))
    show("implementation:", impl)
    show("model:", model)
    show("specification:", spec)
    if case.get("generator_expected") is not None:
        print("generator expects:", case["generator_expected"])
    po, ps = parse_out(impl), re.match(r"^L=(\S*) G=(\S+)$", spec)
    if case.get("redeclared"):
        # outside the guard of the theorems: judged by the generator's expectation alone
        bad = po is None
    else:
        bad = po is None or not ps or sorted(po[0]) != sorted(x for x in ps.group(1).split(",") if x)
    if not bad and case.get("generator_expected") is not None:
        mine = (lambda cr: is15(cr)) if prop == "C15" else (lambda cr: not is15(cr))
        got = sorted(item_cls_rng(x)[0] for x in po[0] if mine(item_cls_rng(x)[0]))
        bad = got != sorted(cr for cr in case["generator_expected"] if mine(cr))
    if not bad and case.get("original"):
        print("(metamorphic case: compare with the original program stored in the replay file)")
        o_impl = ctx.run_harness("lint", ["lint " + esc(case["original"])])[0]
        show("implementation on the original:", o_impl)
        bad = True
    if bad:
        print("VIOLATION property=%s replay=%s" % (prop, ctx.replay))
        return 1
    print("implementation agrees with the specification and the generator on this case")
    return 0
