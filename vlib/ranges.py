"""the range predicates of lean/GoldModel/Model/Ranges.lean, evaluated on a dumped tree (sexp.Node)"""
SEL_KINDS = {"class", "module", "const_decl", "type_decl", "gvar_decl", "proc_decl", "func_decl", "param_decl", "lvar_decl"}


def ok(r):
    return (r[0], r[1]) <= (r[2], r[3])


def within(a, b):
    return (b[0], b[1]) <= (a[0], a[1]) and (a[2], a[3]) <= (b[2], b[3])


def ranges_ok(n):
    """-> list of (what, node) violations"""
    bad = []
    for x in n.walk():
        if not ok(x.rng):
            bad.append(("start>end", x))
        if x.kind in SEL_KINDS and x.sel is not None and not (ok(x.sel) and within(x.sel, x.rng)):
            bad.append(("selection-outside-range", x))
    return bad


def encloses(n):
    bad = []
    for x in n.walk():
        for k in x.kids:
            if x.kind != "root" and not within(k.rng, x.rng):
                bad.append(("child-outside-parent", x, k))
    return bad


def max_line(n):
    return max([x.rng[2] for x in n.walk()] + [0])


def parse_rng(s):
    a, b = s.split("-")
    l1, c1 = a.split(":")
    l2, c2 = b.split(":")
    return (int(l1), int(c1), int(l2), int(c2))


def outline_syms(o):
    """`name|Kind|rng|sel[children]` list -> [(name, kind, rng, sel)]"""
    out = []
    for x in o.replace("[", ",").replace("]", "").split(","):
        if x:
            p = x.split("|")
            out.append((p[0], p[1], parse_rng(p[2]), parse_rng(p[3])))
    return out


def diag_ranges(d):
    return [parse_rng(x.split(":")[0] + ":" + x.split(":")[1].split(":")[0] if False else "-".join([x.split("-")[0], ":".join(x.split("-", 1)[1].split(":")[:2])])) for x in d.split("|") if x]
