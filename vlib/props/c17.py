"""C17 — letter case of keywords and references never changes the analysis (DESIGN §4 C17);
the part anchored in name resolution, completion, class index, native types and intrinsics.

theorems : lean/GoldModel/Props/C17.lean (fold_sites_all, keys_folded, index_case, native_case,
           terminal_case, call_case, typeref_case, class_compare_harmless, evalEx_case,
           occurrence_case_definition, occurrence_case_completion, recase_invariant_definition,
           recase_invariant_completion) + C10 `resolve_case`, C11 `complete_case`
tie      : E8_ScopeConsts (native keys, intrinsics, completion filters, fold sites are regenerated
           from the source on every run); correspondence `scope` on every re-cased variant
oracle   : metamorphic, on the real implementation: the SAME workspace rendered with every keyword
           and every reference upper / lower / alternating / random per letter (declarations as
           written) must give the same tree shape, parse diagnostics, outline, definition links and
           completion labels as the as-written rendering — `analyse (recase w) = analyse w`
"""
import json

from .. import core, scopelib, lintcheck
from ..gen import ws

PROP = "C17"
SITE = {"d": "definition", "c": "completion", "o": "outline"}


def make_groups(ctx):
    n = 30 if ctx.tier == "quick" else 600
    groups = []
    for i in range(n):
        devs = ("forward", "uses-member") if i % 10 == 9 else ()
        vs = ws.generate_variants(ctx.rng, "m%d" % i, deviations=devs)
        cases = []
        for mode, files, queries in vs:
            qs = list(queries) + [{"f": k, "kind": "o", "line": 0, "col": 0, "expect": None, "tags": ["outline"], "what": "document symbols"}
                                  for k in range(len(files))]
            cases.append(scopelib.Case("m%d-%s" % (i, mode), files, qs))
        groups.append(cases)
    return groups


def tree_shapes(ctx, cases, toks):
    """tree shape + parser diagnostics of every file, letter case of identifiers ignored"""
    lines = []
    for c, tk in zip(cases, toks):
        for t in tk:
            lines.append("parse " + " ".join(t))
    outs = scopelib.run_lines([core.HARNESS_BIN, "parse"], lines, chunk=400)
    res, k = [], 0
    for c, tk in zip(cases, toks):
        per = []
        for _ in tk:
            o = outs[k]
            k += 1
            t, _, rest = o.partition(" D=")
            d, _, rest = rest.partition(" R=")
            per.append((t.upper(), d.upper()))
        res.append(per)
    return res


def run(ctx):
    ctx.trusted += [
        "Lean 4.33 kernel + leanchecker; axioms ⊆ {propext, Classical.choice, Quot.sound}",
        "vlib/extractors/scope.py (E8_ScopeConsts: tokenizer-level patterns, fails closed)",
        "models and harness as C10 / C11; the generator renders one abstract workspace under several casings with an own random stream for casing decisions, so positions and structure are identical in all variants (checked)",
    ]
    ctx.assumptions += [
        "C17 is a conjunction over sites: lexer keyword table = C05 kw_any_case, symbol tables = C18 lookup_case, unused-variable / unpurged linters = C15/C16, self-parent guard and entity tree = C13/C14; this check covers tree shape, outline, definition and completion",
        "declarations are left as written; ASCII letters (str::to_uppercase is an arbitrary `norm` in the theorems, ASCII upper-casing in runs)",
        "recase_invariant_*: norm idempotent (proved for ASCII upper-casing: asciiUpper_idem), both workspaces WellFormedWs, no header names a parent that folds like the class itself (self-parent guard: C13/C14), position after the header; keywords are the lexer's business (C05)",
    ]
    ok_ex = ctx.extract(["E8_ScopeConsts"])
    if ctx.replay:
        return replay(ctx)
    ctx.prove("GoldModel.Props.C17")
    if not ctx.build_harness():
        return ctx.finish(rule=RULE)
    ctx.phase("generate")
    groups = make_groups(ctx)
    flat = [c for g in groups for c in g]
    ctx.phase("tie")
    res = scopelib.run(ctx, flat)
    toks = scopelib.tokens(ctx, flat)
    shapes = tree_shapes(ctx, flat, toks)
    by_id = {r[0].id: r for r in res}
    shape_by_id = {c.id: s for c, s in zip(flat, shapes)}
    fc, fi, fm = [], [], []
    for c, qs, impl, model, hl, dl in res:
        ctx.count("variant " + c.id.split("-", 1)[1])
        cj = c.to_json()["files"]
        for q, a, b in zip(qs, impl, model):
            fc.append({"workspace": c.id, "query": q, "files": cj})
            fi.append(scopelib.value(a))
            fm.append(scopelib.value(b))
    ctx.log("%d workspaces x %d casings, %d requests" % (len(groups), len(groups[0]) if groups else 0, len(fc)))
    ctx.compare("scope(all casings)", fc, fi, fm, nontrivial=lambda c, a: bool(a))
    # the re-cased renderings are re-casings in the sense of the theorem (`Gold.C17.Recased`: same
    # canonical form) and meet its hypotheses: decided by the driver on the extracted workspaces
    tok_by_id = {c.id: t for c, t in zip(flat, toks)}
    rel_lines, rel_ids = [], []
    for g in groups:
        for v in g[1:]:
            rel_lines.append(" ".join(["scoperel", v.id] + scopelib.file_words(g[0], tok_by_id[g[0].id]) + ["X"] + scopelib.file_words(v, tok_by_id[v.id])))
            rel_ids.append(v.id)
    rel = scopelib.run_lines([core.DRIVER_BIN], rel_lines)
    bad_rel = [(i, r) for i, r in zip(rel_ids, rel) if r != "recased=true wf=true noselfparent=true"]
    ctx.oblige("tie:every re-cased rendering satisfies Recased / WellFormedWs / NoSelfParent w.r.t. the as-written one (%d pairs)" % len(rel_lines),
               not bad_rel, str(bad_rel[:3]))
    ctx.phase("oracle")
    ncmp = 0
    for g in groups:
        base = by_id[g[0].id]
        bshape = shape_by_id[g[0].id]
        for v in g[1:]:
            var = by_id[v.id]
            # positions are the same by construction
            same_pos = [(q["f"], q["kind"], q["line"], q["col"]) for q in base[1]] == [(q["f"], q["kind"], q["line"], q["col"]) for q in var[1]]
            if not same_pos:
                ctx.oblige("machinery:variants-have-identical-positions", False, v.id)
                continue
            for q, a, b in zip(base[1], base[2], var[2]):
                ncmp += 1
                if scopelib.value(a) != scopelib.value(b):
                    ctx.oracle_fail("C17:" + SITE[q["kind"]], "re-casing keywords and references changed the %s answer (%s)" % (SITE[q["kind"]], q["what"]),
                                    {"workspace": v.id, "query": q, "as_written": a, "recased": b,
                                     "case": v.to_json(), "base": g[0].to_json()})
            for k, ((t0, d0), (t1, d1)) in enumerate(zip(bshape, shape_by_id[v.id])):
                ncmp += 1
                if t0 != t1:
                    ctx.oracle_fail("C17:tree-shape", "re-casing changed the tree of file %s" % v.files[k][0],
                                    {"workspace": v.id, "file": k, "case": v.to_json(), "base": g[0].to_json()})
                if d0 != d1:
                    ctx.oracle_fail("C17:parse-diagnostics", "re-casing changed the parser diagnostics of file %s" % v.files[k][0],
                                    {"workspace": v.id, "file": k, "as_written": d0[:300], "recased": d1[:300], "case": v.to_json(), "base": g[0].to_json()})
    ctx.count("metamorphic comparisons", ncmp)
    hierarchy_recase(ctx, 150 if ctx.tier == "quick" else 3000)
    # the linters' sites of the conjunction: all diagnostics other than the naming conventions, on re-cased programs
    lintcheck.recase_oracle(ctx, 300 if ctx.tier == "quick" else 6000)
    ctx.extract_detail = getattr(ctx, "extract_info", {})
    ctx.samples = [{"workspace": g[1].id, "file": g[1].files[0][0], "as_written": g[0].files[0][1][:700], "recased": g[1].files[0][1][:700]}
                   for g in groups[:2]] + [{"workspace": groups[-1][4].id, "recased": groups[-1][4].files[0][1][:700]}]
    return ctx.finish(rule=RULE, extra={"extracted": ctx.extract_detail})


RULE = ("cases = generated workspaces (as C10), each rendered five times: as written, and with EVERY keyword and EVERY reference occurrence (parent class, "
        "types incl. native names, members, variables, self, used entities, intrinsics) upper / lower / alternating / random per letter, declarations "
        "untouched; one evaluation = one request (definition at every identifier occurrence, completion at every dot position and statement start, "
        "document symbols of every file) on the real ProjectManager, compared with the model; the oracle compares each re-cased rendering with the "
        "as-written one (+ tree shape and parser diagnostics of every file modulo letter case); distinct_nontrivial = distinct non-empty answers")


def hierarchy_recase(ctx, n):
    """the type hierarchy under re-cased PARENT references: the same abstract workspace (3–6 classes; parents mostly a forest,
    sometimes a class itself, a cycle or a missing class) is built by the real EntityTreeService with the parent references as
    written and with every parent reference upper / lower / randomly re-cased — same enumeration order of the files forced in
    all renderings — and prepare / supertypes / subtypes of every class and member must coincide (harness mode `tree`)"""
    from . import c13
    rng = ctx.rng
    lines, groups = [], []
    for g in range(n):
        k = 3 + rng.below(4)
        names = c13.NAMES[:k]
        files = []
        for i, nm in enumerate(names):
            r = rng.below(10)
            par = None
            if r < 5 and i > 0:
                par = names[rng.below(i)]
            elif r == 5:
                par = nm                     # self parent
            elif r == 6:
                par = names[rng.below(k)]    # any class: cycles possible
            elif r == 7:
                par = "aMissing"
            mem = [m for m in c13.MEMBERS if rng.chance(1, 2)]
            files.append((nm, par, mem))
        order = ".".join(map(str, range(k)))
        var = []
        for mode in range(4):
            def rc(s):
                if mode == 0:
                    return s
                if mode == 1:
                    return s.upper()
                if mode == 2:
                    return s.lower()
                return "".join(c.upper() if rng.chance(1, 2) else c.lower() for c in s)
            fs = ",".join("%s:%s:%s" % (nm, rc(par) if par else "-", "+".join(mem) or "-") for nm, par, mem in files)
            var.append("tree %s %d 2 c0 %s" % (fs, k, order))
        groups.append((len(lines), len(var)))
        lines += var
        ctx.count("hierarchy re-casing groups")
    out = ctx.run_harness("tree", lines)
    for st, ln in groups:
        base = out[st].split(" | ", 1)
        if len(base) < 2 or "harness-stuck" in out[st]:
            continue
        # the requested enumeration order must have been realised in all renderings (else the comparison says nothing)
        for j in range(1, ln):
            o = out[st + j].split(" | ", 1)
            if len(o) < 2 or o[0].split()[0] != base[0].split()[0]:
                continue
            if o[1] != base[1]:
                ctx.oracle_fail("C17:hierarchy", "the type hierarchy changed when the parent references were re-cased",
                                {"mode": "tree", "case": lines[st + j], "as_written": lines[st], "answers_as_written": base[1][:1500], "answers_recased": o[1][:1500]})


def replay(ctx):
    d = json.load(open(ctx.replay))
    case = d.get("case", {})
    if isinstance(case, dict) and case.get("mode") == "tree":
        ctx.build_harness()
        a, b = ctx.run_harness("tree", [case["as_written"], case["case"]])
        print("as written:", case["as_written"], "\n  ->", a)
        print("re-cased  :", case["case"], "\n  ->", b)
        if a.split(" | ", 1)[-1] != b.split(" | ", 1)[-1]:
            print("VIOLATION property=%s replay=%s" % (PROP, ctx.replay))
            return 1
        return 0
    if isinstance(case, dict) and case.get("mode") == "lint":
        ctx.build_harness()
        a, b = ctx.run_harness("lint", ["lint " + core.esc(case["as_written"]), "lint " + core.esc(case["text"])])
        mine = lambda cr: not cr.startswith("naming:")
        pa = lintcheck.per_method_impl({"text": case["as_written"]}, (lintcheck.parse_out(a) or ([],))[0], mine)
        pb = lintcheck.per_method_impl({"text": case["text"]}, (lintcheck.parse_out(b) or ([],))[0], mine)
        print("as written:\n" + case["as_written"])
        print("re-cased:\n" + case["text"])
        print("diagnostics as written (per method):", pa)
        print("diagnostics re-cased   (per method):", pb)
        if pa != pb:
            print("VIOLATION property=%s replay=%s" % (PROP, ctx.replay))
            return 1
        return 0
    if not isinstance(case, dict) or "case" not in case or "base" not in case:
        print("replay file names no input:", json.dumps(d.get("broken", d), indent=1)[:3000])
        return 1
    ctx.build_harness()
    ctx.lake_build(["driver"])
    v = scopelib.Case.from_json(case["case"], "replay")
    b = scopelib.Case.from_json(case["base"], "replay")
    if "query" in case:
        v.queries = [case["query"]]
        b.queries = [case["query"]]
        (rb, rv) = scopelib.run(ctx, [b, v])
        q = case["query"]
        print("position      : file %s line %d col %d  (%s)" % (v.files[q["f"]][0], q["line"], q["col"], q["what"]))
        print("as written   |" + b.files[q["f"]][1].split("\n")[q["line"]])
        print("re-cased     |" + v.files[q["f"]][1].split("\n")[q["line"]])
        print("as written    :", rb[2][0])
        print("re-cased      :", rv[2][0])
        if scopelib.value(rb[2][0]) != scopelib.value(rv[2][0]):
            print("VIOLATION property=%s replay=%s" % (PROP, ctx.replay))
            return 1
        print("both renderings give the same answer")
        return 0
    toks = scopelib.tokens(ctx, [b, v])
    sb, sv = tree_shapes(ctx, [b, v], toks)
    k = case.get("file", 0)
    print("file", v.files[k][0], "same tree:", sb[k][0] == sv[k][0], "same diagnostics:", sb[k][1] == sv[k][1])
    if sb[k] != sv[k]:
        print("VIOLATION property=%s replay=%s" % (PROP, ctx.replay))
        return 1
    return 0
