"""C19 — the workspace index finds every Gold file, once, and re-indexing is harmless (DESIGN §4 C19).

theorems : lean/GoldModel/Props/C19.lean (index over an inductive directory tree, M-DOC)
tie 1    : E7b_DocFlags regenerates `Cfg.current` (is the class map written for known paths?)
tie 2    : correspondence `index` — the real DocumentService / ProjectManager over real directory
           trees under .cache/ws/ vs the model, op by op (state dump, class lookups, outline answers)
oracle   : the property itself evaluated on the implementation's output by this script
           (every *.god file present, by URI and by class in any case, nothing else, nothing
           twice, records and answers unchanged by re-indexing, new files picked up)
"""
import json
import os
import shutil

from .. import core
from ..core import esc, unesc

WS = os.path.join(core.CACHE, "ws")

STEMS = ["aRoot", "aSecond", "aThird", "Mod1", "wUtil", "x y", "café", "a.b", "UPPER", "lower", "Mixed_Case9", "a-b", "Z"]
GOD_EXT = ".god"
OTHER_EXT = [".GOD", ".God", ".txt", "", ".god.bak", ".gold", ".go", ".godx", ".god~"]
ODD_NAMES = [".god", "god", ".hidden.god"]        # `.god` has no extension for Path::extension; `.hidden.god` has
DIRS = ["sub", "Bundle1", "deep", "x.god", "e m", "d4", "WAMx"]


def recase(rng, s):
    k = rng.below(4)
    if k == 0:
        return s.upper()
    if k == 1:
        return s.lower()
    if k == 2:
        return s.swapcase()
    return "".join(c.upper() if rng.chance(1, 2) else c.lower() for c in s)


def py_ext(name):
    """Path::extension"""
    if name.startswith("."):
        rest = name[1:]
        i = rest.rfind(".")
        return None if i < 0 else rest[i + 1:]
    i = name.rfind(".")
    return None if i < 0 else name[i + 1:]


def py_stem(name):
    if name.startswith("."):
        rest = name[1:]
        i = rest.rfind(".")
        return name if i < 0 else name[:i + 1]
    i = name.rfind(".")
    return name if i < 0 else name[:i]


def is_god(name):
    return py_ext(name) == "god"


class Disk:
    """the logical content of the scratch root: rel path -> ('f', cls, tag) | ('d',) | ('l', target)"""

    def __init__(self):
        self.ents = {}

    def dirs(self):
        return [""] + sorted(p for p, e in self.ents.items() if e[0] == "d")

    def files(self):
        return sorted(p for p, e in self.ents.items() if e[0] == "f")

    def god_files(self):
        return [p for p in self.files() if is_god(os.path.basename(p))]

    def tree_words(self, d=""):
        out = []
        kids = sorted(p for p in self.ents if os.path.dirname(p) == d)
        for p in kids:
            e = self.ents[p]
            n = esc(os.path.basename(p))
            if e[0] == "f":
                out.append("tF" + n)
            elif e[0] == "l":
                out.append("tO" + n)
            else:
                out.append("tD" + n)
                out += self.tree_words(p)
                out.append("tE")
        return out


def jn(d, n):
    return n if d == "" else d + "/" + n


class Gen:
    """one case = initial tree + history; emits the op words and, per op, what the oracle expects"""

    def __init__(self, ctx, deep):
        self.ctx = ctx
        self.rng = ctx.rng
        self.deep = deep
        self.disk = Disk()
        self.words = []
        self.ops = []          # (kind, meta) one per op word that produces output
        self.tag = 0
        self.used_stems = set()
        self.allow_dup = self.rng.chance(1, 8)
        self.touched = set()   # paths registered lazily by a request / notification
        self.opened = {}       # rel -> tag of the in-editor text
        self.removed = set()

    def emit(self, word, kind, **meta):
        self.words.append(word)
        self.ops.append((kind, meta))

    def next_tag(self):
        self.tag += 1
        return str(self.tag)

    # ---- building blocks
    def new_dir(self):
        parent = self.rng.choice(self.disk.dirs())
        if parent.count("/") >= (4 if self.deep else 3):
            parent = ""
        name = self.rng.choice(DIRS) + ("" if self.rng.chance(2, 3) else str(self.rng.below(9)))
        p = jn(parent, name)
        if p in self.disk.ents:
            return None
        self.disk.ents[p] = ("d",)
        self.emit("M" + esc(p), "M")
        return p

    def fresh_stem(self):
        for _ in range(30):
            s = self.rng.choice(STEMS)
            if self.rng.chance(1, 3):
                s += str(self.rng.below(50))
            if self.allow_dup and self.used_stems and self.rng.chance(1, 3):
                s = recase(self.rng, self.rng.choice(sorted(self.used_stems)))
                return s
            if s.upper() not in {u.upper() for u in self.used_stems}:
                return s
        return "u%d" % len(self.used_stems)

    def new_file(self, god):
        d = self.rng.choice(self.disk.dirs())
        if god:
            stem = self.fresh_stem()
            name = stem + GOD_EXT
        else:
            name = self.rng.choice(ODD_NAMES) if self.rng.chance(1, 4) else self.rng.choice(STEMS) + self.rng.choice(OTHER_EXT)
            stem = py_stem(name)
        p = jn(d, name)
        if p in self.disk.ents:
            return None
        if is_god(name):
            self.used_stems.add(py_stem(name))
        cls = recase(self.rng, py_stem(name)) if self.rng.chance(1, 2) else py_stem(name)
        cls = "".join(c if (c.isascii() and (c.isalnum() or c == "_")) else "_" for c in cls) or "c"
        if cls[0].isdigit():
            cls = "c" + cls
        tag = self.next_tag()
        self.disk.ents[p] = ("f", cls, tag)
        if self.rng.chance(1, 12):
            self.emit("B%s=%s" % (esc(p), "".join("%02x" % self.rng.below(256) for _ in range(1 + self.rng.below(24))).replace("46", "47")), "W")
            self.disk.ents[p] = ("f", cls, "")
        else:
            self.emit("W%s=%s:%s" % (esc(p), esc(cls), esc(tag)), "W")
        return p

    def new_link(self):
        d = self.rng.choice(self.disk.dirs())
        targets = self.disk.files() + [x for x in self.disk.dirs() if x]
        if not targets:
            return
        t = self.rng.choice(targets)
        name = self.rng.choice(["l.god", "link.god", "ld", "aLnk.god"])
        p = jn(d, name)
        if p in self.disk.ents:
            return
        self.disk.ents[p] = ("l", t)
        self.emit("L%s=%s" % (esc(p), esc(t)), "L")

    def spellings(self):
        out = []
        for p in self.disk.god_files():
            st = py_stem(os.path.basename(p))
            out.append(st)
            out.append(recase(self.rng, st))
        for p in self.disk.files():
            if not is_god(os.path.basename(p)) and self.rng.chance(1, 2):
                out.append(py_stem(os.path.basename(p)))
        out.append("NoSuchClass")
        seen, res = set(), []
        for s in out:
            if s and s not in seen:
                seen.add(s)
                res.append(s)
        return res

    def battery(self):
        sp = self.spellings()
        self.emit("Q" + ",".join(esc(s) for s in sp), "Q", classes=sp, disk={p: list(e) for p, e in self.disk.ents.items()},
                  touched=sorted(self.touched), removed=sorted(self.removed))

    def probe_files(self, k):
        gf = [p for p in self.disk.god_files()]
        self.rng.shuffle(gf)
        return gf[:k]

    def index_block(self, via_save=None):
        """Q Y* (I | W S) Q Y* G* Q  — the oracle compares before / after"""
        probes = self.probe_files(3)
        if via_save is not None:
            probes = [p for p in probes if p != via_save]
        for p in probes:
            self.emit("Y" + esc(p), "Y", rel=p, phase="before")
            self.touched.add(p)
        self.battery()
        if via_save is None:
            self.emit("I", "I")
            self.words += self.disk.tree_words()
        else:
            e = self.disk.ents[via_save]
            tag = self.next_tag()
            self.disk.ents[via_save] = ("f", e[1], tag)
            self.emit("W%s=%s:%s" % (esc(via_save), esc(e[1]), esc(tag)), "W")
            self.emit("S" + esc(via_save), "S", rel=via_save)
            self.words += self.disk.tree_words()
            self.touched.add(via_save)
            self.opened.pop(via_save, None)
        self.battery()
        for p in probes:
            self.emit("Y" + esc(p), "Y", rel=p, phase="after")
        for p in self.disk.god_files():
            self.emit("G" + esc(p), "G", rel=p, exists=True)
        self.battery()

    def random_op(self):
        r = self.rng.below(100)
        files = self.disk.files()
        gods = self.disk.god_files()
        if r < 14:
            self.new_file(True)
        elif r < 20:
            self.new_file(False)
        elif r < 25:
            self.new_dir()
        elif r < 27:
            self.new_link()
        elif r < 40 and gods:
            p = self.rng.choice(gods)
            tag = self.next_tag()
            self.opened[p] = tag
            self.touched.add(p)
            self.emit("C%s=%s:%s" % (esc(p), esc(self.disk.ents[p][1]), esc(tag)), "C", rel=p)
        elif r < 52 and files:
            p = self.rng.choice(files)
            self.touched.add(p)
            self.emit("Y" + esc(p), "Y", rel=p, phase="free")
        elif r < 56 and files:
            p = self.rng.choice(files)
            self.touched.add(p)
            self.emit("G" + esc(p), "G", rel=p, exists=True)
        elif r < 60 and files:
            p = self.rng.choice(files)
            self.touched.add(p)
            self.emit("O" + esc(p), "O", rel=p)
        elif r < 66 and gods:
            p = self.rng.choice(gods)
            self.touched.add(p)
            self.opened.pop(p, None)
            self.emit("K" + esc(p), "K", rel=p)
        elif r < 78 and gods:
            self.index_block(via_save=self.rng.choice(gods))
        elif r < 90:
            self.index_block()
        elif r < 93 and files and not self.allow_dup:   # (with duplicated stems the survivor's class entry would depend on read_dir order)
            # a file disappears from disk (its record, if any, stays)
            p = self.rng.choice(files)
            del self.disk.ents[p]
            self.opened.pop(p, None)
            self.removed.add(p)
            self.emit("X" + esc(p), "X")
        elif r < 96:
            # requests about a file that does not exist: Err or (pinned key conversion) panic — C01's subject;
            # here only the model correspondence looks at it
            p = self.rng.choice(["nowhere.god", "sub/ghost.god", "gone.txt"])
            if p not in self.disk.ents:
                self.emit(self.rng.choice(["G", "Y", "O", "K"]) + esc(p), "miss")
        else:
            self.battery()

    def build(self):
        # initial tree
        for _ in range(self.rng.below(5 if not self.deep else 9)):
            self.new_dir()
        nf = self.rng.below(7 if not self.deep else 14)
        for _ in range(nf):
            self.new_file(self.rng.chance(3, 5))
        if self.rng.chance(1, 4):
            self.new_link()
        self.index_block()
        for _ in range(2 + self.rng.below(8 if not self.deep else 20)):
            self.random_op()
        self.index_block()
        return self


def parse_dump(tok):
    """d=rel[flags]@uri;…  -> {rel: (flags, uri)}  (and the list, to see duplicates)"""
    body = tok[2:]
    recs = []
    if body:
        for r in body.split(";"):
            a, rest = r.split("[", 1)
            flags, uri = rest.split("]@", 1)
            recs.append((unesc(a), flags, unesc(uri)))
    return recs


def evaluate(ctx, line, ops, out_words):
    """the property on the implementation's output; returns list of (signature, what)"""
    fails = []
    toks = out_words
    i = 0
    last_q = None
    before_y = {}
    q_before_index = None
    saved_rel = None
    state = "idle"
    for kind, meta in ops:
        if kind == "Q":
            n = 2 + len(meta["classes"])
            seg = toks[i:i + n]
            i += n
            if len(seg) < n or not seg[0].startswith("n=") or not seg[1].startswith("d="):
                fails.append(("C19:crash-or-shape", "battery output malformed: %r" % seg[:3]))
                return fails
            count = int(seg[0][2:])
            recs = parse_dump(seg[1])
            keys = [r[0] for r in recs]
            if len(set(keys)) != len(keys) or count != len(keys):
                fails.append(("C19:registered-twice", "count_files=%d, records=%r" % (count, keys)))
            q = {"count": count, "recs": {r[0]: (r[1], r[2]) for r in recs},
                 "classes": {c: seg[2 + j].split("=", 1)[1] for j, c in enumerate(meta["classes"])}, "meta": meta}
            if state == "after-index":
                check_indexed(fails, q, q_before_index, saved_rel)
                state = "after-probes"
            elif state == "after-probes":
                # the G probes of every *.god file must not have created records
                if last_q is not None and q["count"] != last_q["count"]:
                    fails.append(("C19:uri-lookup-creates-record",
                                  "looking up the indexed files by URI changed count_files %d -> %d" % (last_q["count"], q["count"])))
                state = "idle"
            last_q = q
            continue
        tok = toks[i] if i < len(toks) else "<missing>"
        i += 1
        if kind in ("I", "S"):
            if kind == "I" and tok != "I":
                fails.append(("C19:crash-or-shape", "index_files: %s" % tok))
            if kind == "S" and tok != "S=ok":
                fails.append(("C19:crash-or-shape", "save of an existing file: %s" % tok))
            q_before_index = last_q
            saved_rel = meta.get("rel")
            state = "after-index"
        elif kind == "Y":
            if meta["phase"] == "before":
                before_y[meta["rel"]] = tok
            elif meta["phase"] == "after":
                if before_y.get(meta["rel"]) != tok:
                    fails.append(("C19:reindex-changed-answer", "outline of %s before re-indexing %s, after %s" % (
                        meta["rel"], before_y.get(meta["rel"]), tok)))
        elif kind == "G" and meta.get("exists"):
            if tok != "G=ok":
                fails.append(("C19:uri-lookup", "get_document_info of the existing file %s: %s" % (meta["rel"], tok)))
    return fails


def check_indexed(fails, q, qb, saved_rel):
    meta = q["meta"]
    disk = meta["disk"]
    gods = [p for p, e in disk.items() if e[0] == "f" and is_god(os.path.basename(p))]
    by_stem = {}
    for p in gods:
        by_stem.setdefault(py_stem(os.path.basename(p)).upper(), []).append(p)
    for p in gods:
        if p not in q["recs"]:
            fails.append(("C19:missing-file", "%s is not in the path map after indexing" % p))
        elif q["recs"][p][1] != p:
            fails.append(("C19:wrong-uri", "record of %s carries uri %s" % (p, q["recs"][p][1])))
    for c, ans in q["classes"].items():
        cands = by_stem.get(c.upper(), [])
        if cands:
            if ans == "-" or unesc(ans) not in cands:
                fails.append(("C19:class-lookup", "class %r -> %s, expected %s" % (c, ans, cands)))
        elif ans != "-":
            # an entry for a name that is no *.god file's stem: only legitimate as the left-over of a removed file
            if unesc(ans) not in meta["removed"]:
                fails.append(("C19:indexed-other-file", "class %r -> %s" % (c, ans)))
    for p in q["recs"]:
        legit = p in gods or p in meta["touched"] or (qb is not None and p in qb["recs"])
        if not legit:
            fails.append(("C19:indexed-other-file", "%s has a record but is no *.god file" % p))
    if qb is not None:
        for p, (flags, uri) in qb["recs"].items():
            if p not in q["recs"]:
                fails.append(("C19:reindex-dropped-record", "%s lost its record" % p))
            elif q["recs"][p] != (flags, uri):
                # the saved document itself is reset by its save; every other record must be untouched
                if not (p == saved_rel and q["recs"][p] == ("", uri)):
                    fails.append(("C19:reindex-changed-state", "%s: [%s] -> [%s]" % (p, flags, q["recs"][p][0])))


def canon_dups(line_out, ops, out_words):
    """class answers for duplicated folded stems depend on read_dir order: keep only 'dup'"""
    res = list(out_words)
    i = 0
    known = set()      # Gold files the server may hold a record of: on disk at some battery since the last fresh manager
    #                    (a file removed from disk keeps its record — and its claim on the class name — until then)
    for kind, meta in ops:
        if kind == "N":
            known = set()
        if kind == "Q":
            disk = meta["disk"]
            known |= {p for p, e in disk.items() if e[0] == "f" and is_god(os.path.basename(p))}
            cnt = {}
            for p in known:
                k = py_stem(os.path.basename(p)).upper()
                cnt[k] = cnt.get(k, 0) + 1
            for j, c in enumerate(meta["classes"]):
                if cnt.get(c.upper(), 0) > 1 and i + 2 + j < len(res):
                    res[i + 2 + j] = res[i + 2 + j].split("=", 1)[0] + "=dup"
            i += 2 + len(meta["classes"])
        else:
            i += 1
    return " ".join(res)


CORPUS = [
    # a file created and saved from the editor (its own save registers the path before the re-index)
    "Wa.god=a:1 I tFa.god Wnew.god=new:2 Snew.god tFa.god tFnew.god QNEW,new,a",
    # a request about a new file before the re-index
    "Wa.god=a:1 I tFa.god Wnew.god=new:2 Ynew.god I tFa.god tFnew.god QNEW,a",
]


def run(ctx):
    ctx.trusted += [
        "Lean 4.33 kernel + leanchecker; axioms ⊆ {propext, Classical.choice, Quot.sound}",
        "hand-written model lean/GoldModel/Model/DocStore.lean (index_files, get_document_info, get_parsed_document, notify_document_*), tied to src/manager/document_service.rs by E7b_DocFlags and by the `index` correspondence",
        "std::fs (read_dir, file_type, canonicalize), Path::extension / file_stem, Url::from_file_path / to_file_path: modelled by contract (directory tree, key = path, extension after the last dot that is not the first character)",
        "std HashMap as a finite map; str::to_uppercase as an arbitrary `norm` (ASCII upper-casing in executable runs)",
        "harness/src/modes/index.rs (drives the real ProjectManager / DocumentService), vlib/extractors/server.py, lean_exe compilation of the driver",
    ]
    ctx.assumptions += [
        "read_dir succeeds for every directory below the root (index_files unwraps it)",
        "requests name files by their canonical path or through a symlinked workspace root (one case in five); other symlinks occur only as directory entries",
        "by-class answers are compared exactly only for stems that are unique up to case (the property's quantifier); duplicated stems: the answer must be one of the candidates",
    ]
    if ctx.replay:
        return replay(ctx)
    ctx.extract(["E7b_DocFlags"])
    ctx.prove("GoldModel.Props.C19")
    if not ctx.build_harness():
        return ctx.finish(rule=RULE)
    os.makedirs(WS, exist_ok=True)
    n = 1500 if ctx.tier == "quick" else 20000
    cases, metas = [], []
    for c in CORPUS:
        cases.append("index %s %s" % (esc(WS), c))
        metas.append(None)
    for k in range(n):
        g = Gen(ctx, deep=(ctx.tier == "thorough" and k % 3 == 0)).build()
        # one case in five: the server gets the workspace folder through a symlink and every request URI goes through it
        cases.append("index %s %s%s" % (esc(WS), "R " if k % 5 == 4 else "", " ".join(g.words)))
        metas.append(g)
        if k % 5 == 4:
            ctx.count("root through a symlink")
        ctx.count("god files=%d" % min(len(g.disk.god_files()), 8))
        ctx.count("max depth=%d" % max([p.count("/") for p in g.disk.ents] + [0]))
        if g.allow_dup:
            ctx.count("duplicate stems allowed")
    ctx.log("%d cases (%d corpus)" % (len(cases), len(CORPUS)))
    impl = ctx.run_harness("index", cases)
    model = ctx.run_driver([c.replace(" R ", " ", 1) if c.split(" ")[2:3] == ["R"] else c for c in cases])   # the model has one name per file
    impl_c, model_c = [], []
    nfail = {}
    for c, g, a, b in zip(cases, metas, impl, model):
        if g is None:
            impl_c.append(a)
            model_c.append(b)
            continue
        aw, bw = a.split(" "), b.split(" ")
        impl_c.append(canon_dups(a, g.ops, aw))
        model_c.append(canon_dups(b, g.ops, bw))
        for sig, what in evaluate(ctx, c, g.ops, aw):
            nfail[sig] = nfail.get(sig, 0) + 1
            if nfail[sig] <= 25:     # keep the replay files small; the count is in the log
                ctx.oracle_fail(sig, what, {"mode": "index", "case": c, "ops": [[k, m] for k, m in g.ops], "implementation": a})
    # corpus: the two witnesses of the pinned defect, evaluated directly
    for c, a in list(zip(cases, impl))[:len(CORPUS)]:
        if "c:NEW=new.god" not in a:
            ctx.oracle_fail("C19:new-file-not-found-by-class",
                            "a file whose path a request or its own save registered before the re-indexing is not reachable by class name",
                            {"mode": "index", "case": c, "implementation": a})
    if nfail:
        ctx.log("oracle failures by signature: %s" % nfail)
    ctx.compare("index", cases, impl_c, model_c, nontrivial=lambda c, a: ".god" in c)
    ctx.samples = [{"case": cases[i], "implementation": impl[i]} for i in (0, len(CORPUS), len(cases) - 1) if i < len(cases)]
    shutil.rmtree(WS, ignore_errors=True)
    return ctx.finish(rule=RULE)


RULE = ("cases = 2 corpus witnesses + generated directory trees (depth 0..4, empty directories, *.god / other / upper-case / no extension, "
        "dot-files, symlinks to files and directories, names with spaces / dots / non-ASCII, class inside spelled in another case, unique "
        "stems; 1 in 8 trees allow duplicated stems) x histories of file creation / removal, didChange, didOpen, didClose, didSave (file "
        "rewritten first), outline requests, lazy registration by URI and explicit re-indexing; around every (re-)indexing the oracle "
        "dumps the path map, asks every class in two spellings, asks outlines before/after and looks every *.god file up by URI; "
        "distinct_nontrivial = distinct implementation outputs of cases that contain at least one *.god file")


def replay(ctx):
    d = json.load(open(ctx.replay))
    case = d.get("case", {})
    line = case.get("case") if isinstance(case, dict) else case
    if not line:
        print("replay file names no input:", json.dumps(d.get("broken", d), indent=1)[:3000])
        return 1
    ctx.extract(["E7b_DocFlags"])
    ctx.build_harness()
    ctx.lake_build(["driver"])
    os.makedirs(WS, exist_ok=True)
    impl = ctx.run_harness("index", [line])[0]
    model = ctx.run_driver([line.replace(" R ", " ", 1) if line.split(" ")[2:3] == ["R"] else line])[0]
    print("case          :", line)
    print("implementation:", impl)
    print("model         :", model)
    shutil.rmtree(WS, ignore_errors=True)
    bad = False
    sig = d.get("signature", "")
    what = d.get("what", "")
    if "QNEW" in line and "c:NEW=new.god" not in impl:
        bad = True
    if isinstance(case, dict) and case.get("ops"):
        fails = evaluate(ctx, line, [(k, m) for k, m in case["ops"]], impl.split(" "))
        for fsig, fwhat in fails[:10]:
            print("oracle        : %s — %s" % (fsig, fwhat))
        bad = bad or bool(fails)
    if impl != model:
        print("implementation and model disagree on this case")
        bad = True
    if bad:
        print("still failing (%s): %s" % (sig, what))
        print("VIOLATION property=C19 replay=%s" % ctx.replay)
        return 1
    print("implementation satisfies the property on this case (and agrees with the model)")
    return 0
