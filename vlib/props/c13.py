"""C13 — the type hierarchy equals the declared inheritance relation (DESIGN §4 C13).

theorems : lean/GoldModel/Props/C13.lean (buildSeq_correct, buildSeq_perm, buildConc_eq_seq for
           every chunking and every complete schedule of the repaired single-critical-section
           get-or-create; lost_child for the pinned two-step one; member hierarchy inside `Correct`)
tie 1    : E10TreeGoc — the locking shape of `get_or_create_entity_2`, regenerated on every run
tie 2    : correspondence `tree` — the real EntityTreeService / ThreadPool / TypeHierarchyService on
           materialised workspaces under forced schedules (yield point between lookup and insert)
oracle   : the implementation's answers vs what the PROPERTY demands (`treespec` = the declared
           relation), also for free-running 7-worker builds; every returned item must lie in the file of
           the class that owns it (uri = that class' file, selection range = its name there, ranges inside
           that document) — the harness appends `!…` to the owner's name otherwise
"""
import itertools
import json
import os

from .. import core

NAMES = ["aKa", "aKb", "aKc", "aKd", "aKe", "aKf"]
MEMBERS = ["m1", "m2", "f1"]


def forests(n):
    """all parent functions on n classes without a cycle (rooted labelled forests)"""
    for ps in itertools.product([None] + list(range(n)), repeat=n):
        ok = True
        for i in range(n):
            seen = set()
            j = i
            while j is not None:
                if j in seen:
                    ok = False
                    break
                seen.add(j)
                j = ps[j]
            if not ok:
                break
        if ok:
            yield ps


def recase(s, rng):
    k = rng.below(4)
    if k == 0:
        return s
    if k == 1:
        return s.upper()
    if k == 2:
        return s.lower()
    return "".join(c.upper() if rng.chance(1, 2) else c.lower() for c in s)


# what may stand above the class header / how the file is encoded (wsutil::render): b blank lines, c a comment line,
# k a constant, a an annotation; l Latin-1 bytes (not valid UTF-8) in a comment, m a byte order mark, r CRLF line ends;
# where the file is (wsutil::materialise): s two directories below the root, g extension written `.GOD`.
# None of them changes what the file DECLARES: the model (and the declared relation) ignore them.
DRESS = "bckalmrs"      # (`g`, extension `.GOD`, is not generated: C19 reads `*.god` literally — such a file is not a Gold file)


def dress(rng):
    """one file in three is dressed: one flag, or a random subset"""
    if not rng.chance(1, 3):
        return ""
    if rng.chance(1, 2):
        return DRESS[rng.below(len(DRESS))]
    return "".join(c for c in DRESS if rng.chance(1, 3))


def files_of(ps, rng, missing=False, dressed=True, headerless=False):
    """headerless: one file in eight has NO class header (flag n): it declares no class — whoever names it as parent has a
    parent without a class — but is read by the builder and takes its place in its chunk"""
    out = []
    for i, p in enumerate(ps):
        mem = [recase(m, rng) for m in MEMBERS if rng.chance(3, 5)]
        if p is None:
            par = "aMissing" if (missing and rng.chance(1, 6)) else "-"
        else:
            par = recase(NAMES[p], rng)
        # one file in three also carries USE sites of every method name of the workspace (flag h; the model ignores it)
        flags = ("h" if rng.chance(1, 3) else "") + (dress(rng) if dressed else "")
        if headerless and rng.chance(1, 8):
            flags = "n" + flags.replace("h", "")
        out.append("%s:%s:%s%s" % (NAMES[i], par, "+".join(mem) or "-", (":-:" + flags) if flags else ""))
    return ",".join(out)


def gen_dressed(ctx, cases):
    """every dressing flag alone, every pair and all of them, on every position of a chain with a side branch
    (root, inner class, leaf) and on all files at once; deterministic (no rng): chunk sizes 1 and 2, default hand-overs"""
    sets = list(DRESS) + [x + y for x, y in itertools.combinations(DRESS, 2)] + [DRESS]
    shape = [("aKa", "-", "m1+f1"), ("aKb", "aKa", "m1+m2"), ("aKc", "AKB", "m2+f1"), ("aKd", "aka", "m1")]
    for fl in sets:
        for where in ([0], [1], [2], [3], [0, 1, 2, 3]):
            fs = ",".join("%s:%s:%s%s" % (n, p, m, (":-:" + fl + ("h" if i == 2 else "")) if i in where else (":-:h" if i == 2 else ""))
                          for i, (n, p, m) in enumerate(shape))
            for chunk in (1, 2):
                cases.append("tree %s %d 2 c -" % (fs, chunk))
                ctx.count("dressed headers / encodings (deterministic)")
    # a file WITHOUT class header at every position (named as parent by the classes below it), alone and dressed
    for where in range(4):
        for fl in ("n", "ncl", "nbmr"):
            fs = ",".join("%s:%s:%s%s" % (n, p, m, (":-:" + fl) if i == where else (":-:h" if i == 2 else "")) for i, (n, p, m) in enumerate(shape))
            for chunk, ch in ((1, ""), (1, "0.1.1"), (2, "1"), (3, "")):
                cases.append("tree %s %d 2 c%s -" % (fs, chunk, ch))
                ctx.count("file without class header among the classes (deterministic)")


def random_forest(n, rng):
    # random recursive forest over a random labelling: no cycles by construction
    perm = rng.shuffle(list(range(n)))
    ps = [None] * n
    for k, i in enumerate(perm):
        if k > 0 and rng.chance(4, 5):
            ps[i] = perm[rng.below(k)]
    return tuple(ps)


def choice_seqs(maxlen):
    yield ()
    for L in range(1, maxlen + 1):
        for ch in itertools.product([0, 1], repeat=L):
            if ch[-1] == 1:      # trailing zeros = the default choice
                yield ch


def gen_cases(ctx):
    cases = []
    corpus = os.path.join(core.VERIF, "corpus", "C13", "cases.txt")
    if os.path.exists(corpus):
        cases += [l.strip() for l in open(corpus) if l.strip() and not l.startswith("#")]
    ncorpus = len(cases)
    quick = ctx.tier == "quick"
    gen_dressed(ctx, cases)
    ndressed = len(cases) - ncorpus
    seqs = list(choice_seqs(6 if quick else 8))
    for n in range(1, 5):
        for ps in forests(n):
            fs = files_of(ps, ctx.rng)
            for chunk in range(1, n + 1):
                for ch in seqs:
                    order = ".".join(map(str, ctx.rng.shuffle(list(range(n)))))
                    cases.append("tree %s %d 2 c%s %s" % (fs, chunk, ".".join(map(str, ch)), order))
                    ctx.count("forced n=%d" % n)
    nexh = len(cases) - ncorpus - ndressed
    # larger forests, three workers, longer choice lists (candidates can be 3 wide)
    for _ in range(300 if quick else 20000):
        n = 5 + ctx.rng.below(2)
        fs = files_of(random_forest(n, ctx.rng), ctx.rng, missing=True, headerless=True)
        chunk = 1 + ctx.rng.below(n)
        w = 2 + ctx.rng.below(2)
        ch = [ctx.rng.below(3) for _ in range(ctx.rng.below(12))]
        cases.append("tree %s %d %d c%s -" % (fs, chunk, w, ".".join(map(str, ch))))
        ctx.count("forced-random n=%d" % n)
    # free-running stress: the production pool size, chunk size 1
    for _ in range(400 if quick else 30000):
        n = 3 + ctx.rng.below(4)
        fs = files_of(random_forest(n, ctx.rng), ctx.rng, headerless=True)
        cases.append("tree %s %d 7 free -" % (fs, 1 + ctx.rng.below(2)))
        ctx.count("free-7-workers n=%d" % n)
    # wide stars under free-running workers: many chunks link their class to ONE parent at the same time
    # (lost updates on the parent's child list and duplicate parents only show under real contention)
    for k in range(12 if quick else 300):
        n = 40 + ctx.rng.below(120)
        kids = ",".join("aKid%d:%s:-" % (i, recase("aStar", ctx.rng)) for i in range(n))
        cases.append("tree aStar:-:-,%s 1 7 free -" % kids)
        ctx.count("free-7-workers star")
    return cases, ncorpus, nexh


def split_out(h):
    """harness line -> (meta dict, answers string)"""
    if " | " not in h:
        return {}, h
    meta, ans = h.split(" | ", 1)
    d = {}
    for w in meta.split():
        if "=" in w:
            k, v = w.split("=", 1)
            d[k] = v
    return d, ans.strip()


def driver_line(mode, case, order):
    w = case.split()
    return " ".join([mode] + w[1:5] + [order or "-"])


def classify(impl, spec):
    """signatures of the differences between the implementation's answers and the declared relation"""
    kinds = set()
    a, s = impl.split(), spec.split()
    if len(a) != len(s):
        # a failed prepare leaves out the answers of that class / member: compare the others by their keys
        kinds.add("prepare-failed" if "prep!" in impl else "crash-or-shape")
        have = dict(w.split("=", 1) for w in a if "=" in w)
        pairs = [(k + "=" + have[k], y) for y in s for k in [y.split("=", 1)[0]] if k in have]
    else:
        pairs = list(zip(a, s))
    for x, y in pairs:
        if x == y:
            continue
        if x.startswith("prep!"):
            kinds.add("prepare-failed")
        elif "!URI-NAMES-" in x or "!SELECTION-IS-" in x:
            # the names are those of the declared relation but an item does not lie in its owner's file
            kinds.add("item-not-in-owner-file")
        elif "!RANGE-" in x or "!SELECTION-OUTSIDE" in x:
            kinds.add("item-range-ill-formed")
        elif x.startswith("sub:"):
            have = set(x.split("=", 1)[1].split(",")) - {"-"}
            want = set(y.split("=", 1)[1].split(",")) - {"-"}
            kinds.add("lost-child" if have < want else "wrong-subtype")
        elif x.startswith("sup:"):
            kinds.add("wrong-supertype")
        elif x.startswith("up:"):
            kinds.add("wrong-member-supertype")
        elif x.startswith("dn:"):
            kinds.add("wrong-member-subtype")
        else:
            kinds.add("crash-or-shape")
    return kinds


def use_site_failures(case, ans, us):
    files = {}
    for f in case.split()[1].split(","):
        p = f.split(":")
        if len(p) > 4 and "n" in p[4]:
            continue            # no class header: not a class, declares nothing for the forest
        files[p[0].upper()] = ((p[1].upper() if p[1] != "-" else None), [m.upper() for m in (p[2].split("+") if len(p) > 2 and p[2] != "-" else [])])
    decl = dict(w.split("=", 1) for w in ans.split(" ") if "=" in w)
    got = dict(w.split("=", 1) for w in us if "=" in w)
    out = []
    for k, v in got.items():
        if not k.startswith("useat:"):
            continue
        cls, m = k[6:].split(".", 1)
        # nearest class up the chain (the class itself first) that declares the method
        owner, x, seen = None, cls, set()
        while x is not None and x in files and x not in seen:
            seen.add(x)
            if m in files[x][1]:
                owner = x
                break
            x = files[x][0]
        want = owner or "-"
        if v != want:
            out.append(("use-site-item-wrong", "prepareTypeHierarchy on a use `self.%s` in %s names %s, the nearest declaration is in %s" % (m, cls, v, want)))
            continue
        if owner:
            for pre, dpre in (("useup:", "up:"), ("usedn:", "dn:")):
                a, b = got.get(pre + cls + "." + m), decl.get(dpre + owner + "." + m)
                if b is not None and a != b:
                    out.append(("use-site-hierarchy-differs", "%s of `self.%s` used in %s = %s, of its declaration in %s = %s" % (dpre, m, cls, a, owner, b)))
    return out


WHAT = {
    "lost-child": "a class that declares the parent is missing from the parent's subtypes",
    "wrong-subtype": "subtypes differ from the classes that declare the class as parent",
    "wrong-supertype": "supertypes differ from the declared parent (or the request fails)",
    "wrong-member-supertype": "supertypes of a member differ from the nearest declaration up the forest",
    "wrong-member-subtype": "subtypes of a member differ from the nearest declarations down the forest",
    "item-not-in-owner-file": "a returned item's uri is not the file of the class that owns it (the class itself / the declaring class of a member), or its selection range does not cover its name there",
    "item-range-ill-formed": "a returned item's ranges are ill-formed or outside the document its uri names (C08)",
    "prepare-failed": "prepareTypeHierarchy did not return the item of the declaration",
    "crash-or-shape": "the request sequence did not produce the expected answers (panic or missing answers)",
}


def run(ctx):
    ctx.trusted += [
        "Lean 4.33 kernel + leanchecker; axioms ⊆ {propext, Classical.choice, Quot.sound}",
        "hand-written model lean/GoldModel/Model/EntityTree.lean (atomic steps cut at the lock operations of build_tree_parallel / get_or_create_entity_2; queries of type_hierarchy_service), tied by the `tree` correspondence and by E10TreeGoc",
        "vlib/extractors/tree_goc.py (reads the locking shape of get_or_create_entity_2; fails closed on any other shape)",
        "std HashMap as a finite map, RwLock/Mutex as mutual exclusion, Arc/Weak as strong/weak references (weak upgrade = reachable from the map through child links); str::to_uppercase as an arbitrary `norm` (ASCII in runs)",
        "harness/src/modes/tree.rs + wsutil.rs (real DocumentService/EntityTreeService/ThreadPool/ProjectManager on materialised workspaces; serialised scheduler over the yield point and the pool's own log lines), lean_exe compilation of the driver",
    ]
    ctx.assumptions += [
        "file stem = class name (class_uri_map is keyed by the stem); at most one class per file; what stands above the header (blank lines, comments, a constant, an annotation), the encoding of the file (Latin-1 bytes, byte order mark, CRLF), its directory do not change what it declares: the model and the declared relation ignore these flags, a file without class header declares no class",
        "member walks: the model takes fuel; the theorems are for all sufficiently large fuel (termination included), wall-clock is not modelled",
        "forced schedules hand over only at the yield point between lookup and insert and at chunk boundaries (coarser than the model's atomic steps); finer interleavings are covered by the theorem and sampled by the free-running 7-worker runs",
    ]
    if ctx.replay:
        return replay(ctx)
    ctx.extract(["E10TreeGoc"])
    ctx.prove("GoldModel.Props.C13")
    if not ctx.build_harness():
        return ctx.finish(rule=RULE)
    cases, ncorpus, nexh = gen_cases(ctx)
    ctx.log("%d cases (%d corpus, %d exhaustive forced, rest random forced / free)" % (len(cases), ncorpus, nexh))
    impl = ctx.run_harness("tree", cases)
    metas, answers, uses = [], [], []
    for h in impl:
        m, a = split_out(h)
        metas.append(m)
        answers.append(" ".join(w for w in a.split(" ") if not w.startswith("use")))
        uses.append([w for w in a.split(" ") if w.startswith("use")])
    # the step-by-step model is cubic in the number of files: for the wide stars (free-running, no forced schedule to follow) the
    # model's answer is the specification's (Props/C13: every schedule gives the declared relation)
    model = ctx.run_driver([driver_line("treespec" if " aStar:" in c else "tree", c, m.get("order")) for c, m in zip(cases, metas)])
    spec = ctx.run_driver([driver_line("treespec", c, m.get("order")) for c, m in zip(cases, metas)])
    atomic_src = "gocAtomic=True" in ctx.extract_info.get("E10TreeGoc", "")
    # tie: the lock the harness finds held at the yield point must be what the translator read
    seen = {}
    for m in metas:
        seen[m.get("goc", "?")] = seen.get(m.get("goc", "?"), 0) + 1
    want = "atomic" if atomic_src else "split"
    bad_goc = [k for k in seen if k not in (want, "na")]
    ctx.oblige("tie:yield-point-lock-state = translator (%s)" % want, not bad_goc and seen.get(want, 0) > 0, json.dumps(seen))
    stuck = [c for c, a in zip(cases, answers) if "harness-stuck" in a or a.startswith("<no-output")]
    ctx.oblige("machinery:harness-ran-every-case", not stuck, "; ".join(stuck[:3]))
    # correspondence: forced schedules always; free runs only when the step is atomic (otherwise a real race)
    sel = [i for i, c in enumerate(cases) if (" free " not in c) or atomic_src]
    ctx.compare("tree", [cases[i] for i in sel], [answers[i] for i in sel], [model[i] for i in sel],
                nontrivial=lambda c, a: int(c.split()[2]) < len(c.split()[1].split(",")))
    # oracle: the property itself on the implementation's answers
    orders = set()
    for c, m, a, s in zip(cases, metas, answers, spec):
        orders.add((c.split()[1], m.get("order")))
        if a != s and "harness-stuck" not in a:
            for k in sorted(classify(a, s)):
                ctx.oracle_fail("C13:" + k, WHAT[k],
                                {"mode": "tree", "case": c, "enumeration_order": m.get("order"),
                                 "implementation": a, "declared_relation": s})
    # hierarchy requests issued from a USE of a method: the prepared item is the nearest declaration up the forest
    # (in ITS file), and its super-/subtypes are those of that declaration
    for c, m, a, us in zip(cases, metas, answers, uses):
        if not us or "harness-stuck" in a:
            continue
        for sig, what in use_site_failures(c, a, us):
            ctx.oracle_fail("C13:" + sig, what, {"mode": "tree", "case": c, "enumeration_order": m.get("order"), "implementation": a, "use_sites": us})
        ctx.count("cases with use-site requests")
    ctx.dist["distinct (workspace, enumeration order) pairs"] = len(orders)
    ctx.dist["yield-point lock state"] = seen
    ctx.samples = [{"case": cases[i], "harness": impl[i]} for i in (ncorpus, ncorpus + nexh - 1, len(cases) - 1) if 0 <= i < len(cases)]
    return ctx.finish(rule=RULE, extra={"exhaustive": True, "exhaustive_space":
                                        "all rooted forests on 1..4 classes x chunk sizes 1..n x all binary hand-over choice lists up to the tier's length (2 workers)"})


RULE = ("cases = corpus + (deterministic) every dressing of a class file — blank lines, a comment, a constant, an annotation above the header; Latin-1 bytes "
        "that are not valid UTF-8, a byte order mark, CRLF line ends; the file in a sub-directory — alone, in pairs and all at once on "
        "every position of a four-class forest, and a file without class header on every position; the same dressings on one file in three of all other cases, "
        "files without class header in the random families; + every forest on 1..4 classes (random member sets and letter case of parent references) x chunk size 1..n x every "
        "binary choice list up to length 6 (quick) / 8 (thorough) for the serialised 2-worker scheduler, each under a random requested enumeration order; "
        "+ random forests on 5..6 classes (some with a missing parent) with 2..3 workers; + free-running builds with 7 workers. Every case: real "
        "build_tree_parallel, then prepare/supertypes/subtypes for every class and every declared member. "
        "distinct_nontrivial = distinct implementation answers among cases with at least two chunks")


def replay(ctx):
    d = json.load(open(ctx.replay))
    case = d.get("case", {})
    line = case.get("case") if isinstance(case, dict) else case
    if not line:
        print("replay file names no input:", json.dumps(d.get("broken", d), indent=1)[:3000])
        return 1
    ctx.extract(["E10TreeGoc"])
    ctx.build_harness()
    ctx.lake_build(["driver"])
    rc = 0
    for attempt in range(3):     # free-running cases race: show three runs
        h = ctx.run_harness("tree", [line])[0]
        m, a = split_out(h)
        us = [w for w in a.split(" ") if w.startswith("use")]
        a = " ".join(w for w in a.split(" ") if not w.startswith("use"))
        spec = ctx.run_driver([driver_line("treespec", line, m.get("order"))])[0]
        model = ctx.run_driver([driver_line("tree", line, m.get("order"))])[0]
        print("case            :", line)
        print("harness         :", h)
        print("model           :", model)
        print("declared relation:", spec)
        if a != spec:
            rc = 1
            for k in sorted(classify(a, spec)):
                print("  C13:%s — %s" % (k, WHAT[k]))
        for sig, what in use_site_failures(line, a, us):
            rc = 1
            print("  C13:%s — %s" % (sig, what))
        if " free " not in line:
            break
    if rc:
        print("VIOLATION property=C13 replay=%s" % ctx.replay)
        return 1
    print("implementation agrees with the declared relation on this case")
    return 0
