"""C04 — lexing and parsing are total (DESIGN §4 C04).

theorems : lean/GoldModel/Props/C04.lean — for EVERY token list the parser terminates
           (T2 fuel adequacy for the well-formed Gold grammar table), never fails at the top
           level and consumes every token; E4 node table: no `todo!()` defaults, child views agree.
tie      : E1 (token kinds) and E4 (AST impls) regenerated from the source; `parse`
           correspondence (real parse_gold vs the model) on the shared battery.
oracle   : on the implementation's own output: no panic / abort / hang, all tokens consumed,
           whole tree walked through both child views, outline computed.
"""
from .. import core
from ..gen import parsecases

RULE = ("cases = corpus + lexed fixtures + every token sequence up to length L over a 16-kind alphabet (top level and inside a method body) "
        "+ grammar-directed programs (1/3 well-formed, 2/3 token-mutated) + keyword soups over ~100 kinds + nesting towers (depth 128) "
        "+ lists of 2000 items + texts over the 17-symbol lexical alphabet and random Unicode run through the real lexer; "
        "distinct_nontrivial = distinct implementation outputs with at least one AST node below the root or one diagnostic")


def oracle(ctx, lines, impl):
    for c, a in zip(lines, impl):
        if not c.startswith("parse"):
            sig = "C04:lexer-hang" if c.startswith("LEXFAIL:hang") else ("C04:lexer-panic" if c.startswith("LEXFAIL:panic") else "C04:lexer-crash")
            ctx.oracle_fail(sig, "the real lexer did not return a token list on this text (%s)" % c[:40], {"mode": "toks", "case": c[:2000], "implementation": a})
            continue
        if a == "hang":
            ctx.oracle_fail("C04:hang", "parse_gold / tree walk / outline did not return within the deadline", {"mode": "parse", "case": c, "implementation": a})
        elif a == "panic":
            ctx.oracle_fail("C04:panic", "parse_gold / tree walk / outline panicked", {"mode": "parse", "case": c, "implementation": a})
        elif a.startswith("<no-output"):
            ctx.oracle_fail("C04:crash-or-hang", "the harness process died or hung on this shard (stack overflow / abort / endless loop)",
                            {"mode": "parse", "case": c, "implementation": a})
        else:
            if " R=0 " not in a:
                ctx.oracle_fail("C04:tokens-left", "parse_gold returned with unconsumed tokens", {"mode": "parse", "case": c, "implementation": a})
            if " V=ok" not in a:
                ctx.oracle_fail("C04:child-views-differ", "get_children_ref and get_children_arc disagree", {"mode": "parse", "case": c, "implementation": a})


def run(ctx):
    ctx.trusted += [
        "Lean 4.33 kernel + leanchecker; axioms ⊆ {propext, Classical.choice, Quot.sound}; `decide +kernel` on the generated tables",
        "translator vlib/extractors/{tokens,ast}.py (E1, E4) transcribes src/lexer/tokens.rs and src/parser/ast.rs",
        "hand-written models lean/GoldModel/Model/{Peg,Grammar}.lean tied to src/parser/*.rs by the `parse` correspondence only",
        "harness (2 MB parser thread per case, catch_unwind, process-level timeout), lean_exe compilation of the driver",
    ]
    ctx.assumptions += [
        "'on a 2 MB thread stack' is measured by the harness (every case is parsed on a 2 MB thread of the RELEASE-profile build, opt-level 2, overflow checks on), not proved: frame sizes are the compiler's, and an unoptimised build needs several times the stack per nesting level",
        "the lexer half of the property is Gold.C05 (`lex` is a total function by construction); here the real lexer is only exercised",
    ]
    if ctx.replay:
        return replay(ctx)
    ctx.extract(["E1_TokenKind", "E4_AstNodes"])
    ctx.prove("GoldModel.Props.C04")
    if not ctx.build_harness():
        return ctx.finish(rule=RULE)
    q = ctx.tier == "quick"
    lines, labels = parsecases.battery(ctx, "C04", exh_len=3 if q else 5, n_prog=6000 if q else 60000,
                                       n_soup=6000 if q else 100000, text_len=3 if q else 5, n_text=3000 if q else 50000)
    ctx.log("%d cases" % len(lines))
    plines = [l for l in lines if l.startswith("parse")]
    impl_all = ctx.run_harness("parse2mb", plines, timeout=900)
    model = ctx.run_driver(plines, timeout=900)
    ctx.compare("parse", plines, impl_all, model, nontrivial=lambda c, a: "(root  0:0-0:0)" not in a or " D= " not in a)
    it = iter(impl_all)
    impl = [next(it) if l.startswith("parse") else l for l in lines]
    oracle(ctx, lines, impl)
    ctx.samples = [{"case": plines[i][:300], "implementation": impl_all[i][:300]} for i in (0, len(plines) // 2, len(plines) - 1)]
    return ctx.finish(rule=RULE, extra={"exhaustive": True, "exhaustive_space": "token sequences up to length %d over 16 kinds, top level and in a method body" % (3 if q else 5)})


def replay(ctx):
    import json
    d = json.load(open(ctx.replay))
    case = d.get("case", {})
    line = case.get("case") if isinstance(case, dict) else case
    if not line:
        print("replay file names no input:", json.dumps(d.get("broken", d), indent=1)[:3000])
        return 1
    ctx.build_harness()
    ctx.lake_build(["driver"])
    if line.startswith("LEXFAIL:"):
        t = line.split(" ", 1)[1]
        o = ctx.run_harness("toks", [t])[0]
        print("text (escaped):", t[:2000])
        print("real lexer    :", o[:300])
        if not o.startswith("parse"):
            print("VIOLATION property=C04 replay=%s" % ctx.replay)
            return 1
        print("the lexer returns a token list on this text")
        return 0
    impl = ctx.run_harness("parse2mb", [line])[0]
    model = ctx.run_driver([line])[0]
    print("case          :", line[:3000])
    print("implementation:", impl[:3000])
    print("model         :", model[:3000])
    bad = impl == "panic" or impl.startswith("<no-output") or " R=0 " not in impl or " V=ok" not in impl
    if bad:
        print("VIOLATION property=C04 replay=%s" % ctx.replay)
        return 1
    print("the implementation is total on this case" + ("" if impl == model else " (but differs from the model)"))
    return 0
