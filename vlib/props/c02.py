"""C02 — answers reflect the latest text the client supplied for the document (DESIGN §4 C02).

theorems : lean/GoldModel/Props/C02.lean (M-DOC with provenance; refinement to the logical workspace)
tie 1    : E7b_DocFlags (does didClose drop the cached symbol table?)
tie 2    : correspondence `doc` — sequential histories on the REAL BINARY over stdio; the versions
           visible in its answers (every declaration name embeds document and version) vs the
           provenance the model predicts, in coherent *and* in stale histories
oracle   : fresh-vs-long-running on the implementation itself: after every request of a history,
           a second, freshly started binary on a materialised copy of the logical workspace is asked
           the same request; the two responses must be equal as multisets
"""
import concurrent.futures
import hashlib
import json
import os
import re
import shutil
import time

from .. import core, lsp
from ..core import esc

WS = os.path.join(core.CACHE, "ws")

# document key -> (class, rank, default parent, class of the local `y`)
DOCS = {
    "G": ("aG", 0, None, "aG"),
    "P": ("aP", 1, "aG", "aP"),
    "C": ("aC", 2, "aP", "aU"),
    "U": ("aU", 0, None, "aU"),
    "X": ("aX", 3, None, "aP"),
}
# the parents an edit may give a document (always ranked lower: the inheritance graph stays acyclic)
PARENT_CHOICES = {"G": [None], "P": ["aG", None], "C": ["aP", "aG", None], "U": [None], "X": [None, "aU"]}
FILE = {d: DOCS[d][0] + ".god" for d in DOCS}
DOC_OF_CLASS = {DOCS[d][0]: d for d in DOCS}


def text_of(d, ver, parent, variant):
    """version-tagged text of document d: every declaration name embeds (d, ver)"""
    cls, _, _, ycls = DOCS[d]
    if variant == "empty":
        return ""
    if variant == "blank":
        return "\n   \n"
    if variant == "bom":
        return "\ufeff" + text_of(d, ver, parent, "plain")
    L = ["class %s%s" % (cls, " (%s)" % parent if parent else ""), ""]
    if ycls != cls:
        L += ["uses %s" % ycls, ""]
    L += ["const c_%s_%d = 'k'" % (d, ver), "", "F_%s_%d : Int4" % (d, ver)]
    if variant == "extra":
        L += ["E_%s_%d : Int4" % (d, ver)]
    L += ["", "proc P_%s_%d(A : Int4)" % (d, ver), "   var x : Int4", "   var y : %s" % ycls,
          "   x = self.F_%s_%d + A" % (d, ver), "   x = y.", "   x = self.", "endProc", ""]
    if variant == "broken":
        L += [")) broken ((", ""]
    if variant == "twoprocs":
        L += ["func Q_%s_%d : Int4" % (d, ver), "   return c_%s_%d" % (d, ver), "endFunc", ""]
    return "\n".join(L)


def positions(text):
    lines = text.split("\n")
    pos = {}
    for i, l in enumerate(lines):
        if l.strip() == "x = y.":
            pos["y."] = (i, l.index("y.") + 2)
        elif l.strip() == "x = self.":
            pos["self."] = (i, l.index("self.") + 5)
        elif l.startswith("class "):
            pos["class"] = (i, 7)
        elif "+ A" in l:
            pos["param"] = (i, l.index("+ A") + 2)
            pos["member"] = (i, l.index("self.") + 6)
        elif l.strip().startswith("var x"):
            pos["plain"] = (i + 3, 3)
    return pos


class Hist:
    """a sequential history over the five documents; JSON-serialisable"""

    def __init__(self, disk=None, ops=None):
        self.disk = disk or {}   # d -> [ver, parent, variant]
        self.ops = ops or []     # dicts

    def to_json(self):
        return {"disk": self.disk, "ops": self.ops}

    @staticmethod
    def from_json(j):
        return Hist(j["disk"], j["ops"])


READY = "Building class tree"      # logged by the start-up job of the pool when the class tree is complete

REQ_KINDS = ["symbols", "diagnostic", "completion-self", "completion-y", "completion-plain", "definition-param",
             "definition-member", "prepare", "subtypes", "supertypes"]


def gen_hist(rng, maxops, blanks=False):
    """blanks: the client may also empty a document completely (the text becomes "" or white space only); such
    histories are judged by the oracle alone (fresh server on the logical workspace), the model has no empty text"""
    h = Hist()
    h.blanks = blanks
    ver = {}
    for d in DOCS:
        ver[d] = 1
        h.disk[d] = [1, DOCS[d][2], "plain"]
    n = 2 + rng.below(maxops - 1)
    # bias: most histories concentrate on the inheritance chain
    for _ in range(n):
        r = rng.below(100)
        d = rng.choice(["C", "C", "P", "P", "G", "U", "X"])
        if r < 40:
            kind = rng.choice(REQ_KINDS)
            if rng.chance(1, 2):
                kind = rng.choice(["completion-self", "completion-y", "symbols", "completion-self"])
            h.ops.append({"k": "ask", "d": d, "kind": kind})
        elif r < 70:
            ver[d] += 1
            parent = DOCS[d][2] if rng.chance(5, 6) else rng.choice(PARENT_CHOICES[d])
            variant = rng.choice(["plain", "plain", "plain", "extra", "broken", "twoprocs", "bom"])
            if blanks and rng.chance(1, 3):
                variant = rng.choice(["empty", "blank"])
            op = {"k": "change", "d": d, "text": [ver[d], parent, variant]}
            if rng.chance(1, 4):
                # a client batching edits: one notification, several full-text events — the LAST is the document now;
                # the earlier ones are texts that never become current (other versions, other variants)
                op["pre"] = [[ver[d] + 50 + j, DOCS[d][2], rng.choice(["plain", "extra", "broken", "twoprocs"])] for j in range(1 + rng.below(2))]
            h.ops.append(op)
        elif r < 82:
            ver[d] += 1
            parent = DOCS[d][2] if rng.chance(5, 6) else rng.choice(PARENT_CHOICES[d])
            variant = rng.choice(["plain", "plain", "extra", "twoprocs", "bom"])
            h.ops.append({"k": "save", "d": d, "text": [ver[d], parent, variant]})
        elif r < 92:
            h.ops.append({"k": "close", "d": d})
        else:
            h.ops.append({"k": "open", "d": d})
    # always end with a look at the chain
    h.ops.append({"k": "ask", "d": "C", "kind": "completion-self"})
    if rng.chance(1, 2):
        h.ops.append({"k": "ask", "d": "X", "kind": "completion-y"})
    return h


def model_text(d, t):
    """the model's text: class@version[^parent][~referenced entity]"""
    ver, parent, _ = t
    cls, _, _, ycls = DOCS[d]
    return "%s@%d%s%s" % (cls, ver, ("^" + parent) if parent else "", ("~" + ycls) if ycls != cls else "")


def startup_tree(h):
    """class -> parent class, as the entity tree is built at start-up (from disk)"""
    return {DOCS[d][0]: h.disk[d][1] for d in DOCS}


def model_events(h, op):
    """the model events (words) of one history op; the last one carries the observable answer"""
    k = op["k"]
    f = esc(FILE[op["d"]])
    if k == "open":
        return ["O" + f]
    if k == "close":
        return ["K" + f]
    if k == "change":
        return ["C%s=%s" % (f, esc(model_text(op["d"], op["text"])))]
    if k == "save":
        return ["S%s=%s" % (f, esc(model_text(op["d"], op["text"])))]
    kind = op["kind"]
    if kind == "symbols":
        return ["Ys" + f]
    if kind == "completion-y":
        return ["Ye%s=%s" % (f, esc(DOCS[op["d"]][3]))]
    if kind in ("subtypes", "supertypes"):
        tree = startup_tree(h)
        cls = DOCS[op["d"]][0]
        rel = [c for c, p in tree.items() if p == cls] if kind == "subtypes" else ([tree[cls]] if tree.get(cls) else [])
        return ["Yt" + esc(c) for c in sorted(rel)] or []
    return ["Ya" + f]


def model_line(h):
    world = ["D%s=%s:%d" % (esc(FILE[d]), esc(DOCS[d][0]), DOCS[d][1]) for d in DOCS]
    world += ["T%s=%s" % (esc(FILE[d]), esc(model_text(d, h.disk[d]))) for d in DOCS]
    evs, spans = [], []
    for op in h.ops:
        e = model_events(h, op)
        spans.append((len(evs), len(e)))
        evs += e
    return "doc %s ; %s" % (" ".join(world), " ".join(evs)), spans


def request_of(root, d, kind, text):
    u = lsp.path_uri(os.path.join(root, FILE[d]))
    pos = positions(text)

    def at(key, dflt=(0, 0)):
        l, c = pos.get(key, dflt)
        return lsp.tdpos(u, l, c)
    if kind == "symbols":
        return "textDocument/documentSymbol", lsp.td(u)
    if kind == "diagnostic":
        return "textDocument/diagnostic", lsp.td(u)
    if kind == "completion-self":
        return "textDocument/completion", at("self.")
    if kind == "completion-y":
        return "textDocument/completion", at("y.")
    if kind == "completion-plain":
        return "textDocument/completion", at("plain")
    if kind == "definition-param":
        return "textDocument/definition", at("param")
    if kind == "definition-member":
        return "textDocument/definition", at("member")
    if kind == "prepare":
        return "textDocument/prepareTypeHierarchy", at("class")
    it = lsp.hierarchy_item(u, DOCS[d][0], 0)
    it["item"]["kind"] = 5
    return ("typeHierarchy/subtypes" if kind == "subtypes" else "typeHierarchy/supertypes"), it


def canon_json(x, root):
    """responses as multisets: lists sorted by their canonical dump; the root path abstracted"""
    if isinstance(x, dict):
        return {k: canon_json(v, root) for k, v in sorted(x.items())}
    if isinstance(x, list):
        return sorted((canon_json(v, root) for v in x), key=lambda v: json.dumps(v, sort_keys=True))
    if isinstance(x, str):
        return x.replace(lsp.path_uri(root), "<ROOT>").replace(root, "<ROOT>")
    return x


def response_of(srv, rid, method, params, deadline):
    srv.request(rid, method, params)
    r = srv.settle([rid], deadline)
    if rid not in r:
        return {"_no_response": True, "alive": srv.alive()}
    m = r[rid][0]
    if "error" in m:
        return {"_error": m["error"].get("code")}
    return {"result": m.get("result")}


def versions_in(resp):
    """(doc, version) pairs visible in the names of an answer"""
    out = set()
    for m in re.finditer(r'"(?:label|name)": "[FPEQ]_([A-Z])_(\d+)"', json.dumps(resp)):
        out.add("%s@%s" % (DOCS[m.group(1)][0], m.group(2)))
    return sorted(out)


def materialise(root, texts):
    os.makedirs(root, exist_ok=True)
    for d, t in texts.items():
        with open(os.path.join(root, FILE[d]), "w") as f:
            f.write(text_of(d, *t))


def run_hist(h, wsdir, deadline):
    """long-running server over the history; a fresh server per request; returns per-op observations"""
    shutil.rmtree(wsdir, ignore_errors=True)
    root = os.path.join(wsdir, "lr")
    materialise(root, {d: h.disk[d] for d in DOCS})
    root = os.path.realpath(root)
    disk = {d: list(h.disk[d]) for d in DOCS}
    changed = {}                       # d -> text triple the client changed it to (unsaved)
    vers = {}                          # d -> version number of the client's copy
    srv = lsp.Server(root, stderr_path=os.path.join(wsdir, "lr.stderr"))
    srv.wait_log(READY, deadline)
    obs = []
    rid = 0
    fresh_n = 0
    try:
        if not srv.init_ok:
            return [{"fatal": "no initialize response"}]
        for i, op in enumerate(h.ops):
            k, d = op["k"], op["d"]
            u = lsp.path_uri(os.path.join(root, FILE[d]))
            logical = dict(disk)
            logical.update(changed)
            if k == "open":
                srv.notify("textDocument/didOpen", lsp.did_open(u, text_of(d, *logical[d])))
                obs.append({})
            elif k == "change":
                changed[d] = op["text"]
                # client-side document versions: they restart after a close (a re-opened document starts at 1 again)
                vers[d] = vers.get(d, 0) + 1
                params = lsp.did_change(u, text_of(d, *op["text"]), vers[d])
                params["contentChanges"] = [{"text": text_of(d, *t)} for t in op.get("pre", [])] + params["contentChanges"]
                srv.notify("textDocument/didChange", params)
                obs.append({})
            elif k == "save":
                disk[d] = op["text"]
                changed.pop(d, None)
                with open(os.path.join(root, FILE[d]), "w") as f:
                    f.write(text_of(d, *op["text"]))
                srv.notify("textDocument/didSave", lsp.did_save(u))
                obs.append({})
            elif k == "close":
                changed.pop(d, None)
                vers.pop(d, None)
                srv.notify("textDocument/didClose", lsp.did_close(u))
                obs.append({})
            else:
                rid += 1
                method, params = request_of(root, d, op["kind"], text_of(d, *logical[d]))
                a = response_of(srv, rid, method, params, deadline)
                # the oracle: a freshly started binary on a materialised copy of the logical workspace
                fresh_n += 1
                froot = os.path.join(wsdir, "fresh%d" % fresh_n)
                materialise(froot, logical)
                froot = os.path.realpath(froot)
                fs = lsp.Server(froot, stderr_path=os.path.join(wsdir, "fresh%d.stderr" % fresh_n))
                try:
                    fm, fp = request_of(froot, d, op["kind"], text_of(d, *logical[d]))
                    # the class tree is built by a pool job at start-up: wait for its log line (no request is sent)
                    fs.wait_log(READY, deadline)
                    b = response_of(fs, 1, fm, fp, deadline) if fs.init_ok else {"_no_init": True}
                finally:
                    fs.kill()
                    shutil.rmtree(froot, ignore_errors=True)
                obs.append({"long": canon_json(a, root), "fresh": canon_json(b, froot),
                            "seen": versions_in(a), "seen_fresh": versions_in(b)})
        return obs
    finally:
        srv.kill()
        shutil.rmtree(wsdir, ignore_errors=True)


def echo_hists(rng, per_kind):
    """`[change d]? ; ask d K ; <notification about d> ; ask d K` for every request kind K and every notification: whatever the
    first answer left behind (a response cache, a table, a parse) must not survive a notification that changes what the
    document is — an unsaved change dropped by didClose, a save, a re-open"""
    out = []
    for kind in REQ_KINDS:
        for notif in ("close", "save", "change", "open", "close-open"):
            for _ in range(per_kind):
                d = rng.choice(["C", "C", "P", "G", "U", "X"])
                h = Hist()
                h.blanks = False
                for x in DOCS:
                    h.disk[x] = [1, DOCS[x][2], "plain"]
                v = 1
                if rng.chance(2, 3) or notif == "close":
                    v += 1
                    h.ops.append({"k": "change", "d": d, "text": [v, DOCS[d][2], rng.choice(["extra", "twoprocs", "plain"])]})
                h.ops.append({"k": "ask", "d": d, "kind": kind})
                if notif in ("close", "close-open"):
                    h.ops.append({"k": "close", "d": d})
                    if notif == "close-open":
                        h.ops.append({"k": "open", "d": d})
                elif notif == "open":
                    h.ops.append({"k": "open", "d": d})
                else:
                    v += 1
                    h.ops.append({"k": notif, "d": d, "text": [v, DOCS[d][2], rng.choice(["extra", "twoprocs", "plain"])]})
                h.ops.append({"k": "ask", "d": d, "kind": kind})
                out.append(h)
    return out


def header_changed(h, upto):
    """has any text up to op `upto` declared another parent than the start-up disk?"""
    for op in h.ops[:upto + 1]:
        if op["k"] in ("change", "save") and (op["text"][1] != h.disk[op["d"]][1] or op["text"][2] in ("empty", "blank")):
            return True      # another parent, or no class header at all any more (an emptied document)
    return False


def closed_unsaved_before(h, upto):
    changed = set()
    for op in h.ops[:upto]:
        if op["k"] == "change":
            changed.add(op["d"])
        elif op["k"] == "save":
            changed.discard(op["d"])
        elif op["k"] == "close":
            if op["d"] in changed:
                return True
    return False


def classify(h, i, guard_first_bad, spans):
    """signature of a fresh-vs-long-running mismatch at op i"""
    kind = h.ops[i]["kind"]
    if kind in ("subtypes", "supertypes") and header_changed(h, i):
        return "C02:hierarchy-tree-stale"
    if guard_first_bad is not None:
        # the model's guard (no depended-on document is changed / saved / closed) was violated before this request
        ev_start = spans[i][0]
        if guard_first_bad < ev_start + max(1, spans[i][1]):
            return "C02:parent-changed-child-cached"
    if closed_unsaved_before(h, i):
        return "C02:close-keeps-symbol-table"
    return "C02:stale-answer"


CORPUS = [
    # stale_parent: [req child; change parent; req child]
    {"disk": {d: [1, DOCS[d][2], "plain"] for d in DOCS},
     "ops": [{"k": "ask", "d": "C", "kind": "completion-self"}, {"k": "change", "d": "P", "text": [2, "aG", "plain"]},
             {"k": "ask", "d": "C", "kind": "completion-self"}]},
    # stale_close (pinned didClose): [change P; X asks for P's table; close P; X asks again]
    {"disk": {d: [1, DOCS[d][2], "plain"] for d in DOCS},
     "ops": [{"k": "change", "d": "P", "text": [2, "aG", "plain"]}, {"k": "ask", "d": "X", "kind": "completion-y"},
             {"k": "close", "d": "P"}, {"k": "ask", "d": "X", "kind": "completion-y"}]},
    # hierarchy: an edit re-parents C; the class tree built at start-up is never updated
    {"disk": {d: [1, DOCS[d][2], "plain"] for d in DOCS},
     "ops": [{"k": "save", "d": "C", "text": [2, "aG", "plain"]}, {"k": "ask", "d": "G", "kind": "subtypes"}]},
    # coherent: changes of a leaf and of an un-depended-on parent, save, close
    {"disk": {d: [1, DOCS[d][2], "plain"] for d in DOCS},
     "ops": [{"k": "change", "d": "P", "text": [2, "aG", "extra"]}, {"k": "ask", "d": "C", "kind": "completion-self"},
             {"k": "change", "d": "C", "text": [2, "aP", "plain"]}, {"k": "ask", "d": "C", "kind": "completion-self"},
             {"k": "save", "d": "C", "text": [3, "aP", "plain"]}, {"k": "ask", "d": "C", "kind": "symbols"},
             {"k": "close", "d": "C"}, {"k": "ask", "d": "C", "kind": "completion-y"}]},
]


def run(ctx):
    ctx.trusted += [
        "Lean 4.33 kernel + leanchecker; axioms ⊆ {propext, Classical.choice, Quot.sound}",
        "hand-written model lean/GoldModel/Model/DocStore.lean (cache layers opened / saved / symbol table / annotated tree with provenance), tied to src/manager/{document_service,semantic_analysis_service,mod}.rs and analyzers_v2/ast_annotator.rs by E7b and by the `doc` correspondence on the real binary",
        "parse / analyse are uninterpreted: an answer is identified with what it was computed from (texts of the document, of its ancestors, of the entity asked about); that equal provenance gives equal answers is the determinism of the analysis, tested by the fresh-vs-long-running oracle itself",
        "the re-indexing inside didSave is omitted from the C02 model (unchanged tree: C19 index_preserves / index_idem); the entity tree of the hierarchy requests is not modelled (built once at start-up: known finding)",
        "vlib/lsp.py (process driver), lean_exe compilation of the driver",
    ]
    ctx.assumptions += [
        "histories are sequential (the client waits for each response) and about readable files of the workspace; no files are created or deleted (C19, C01)",
        "inheritance stays acyclic (every parent an edit names is ranked lower; cycles: C14)",
        "didOpen carries the text that is on disk",
    ]
    if ctx.replay:
        return replay(ctx)
    ctx.extract(["E7b_DocFlags"])
    ctx.prove("GoldModel.Props.C02")
    if not ctx.build_repo_bin():
        return ctx.finish(rule=RULE)
    os.makedirs(WS, exist_ok=True)
    n = 400 if ctx.tier == "quick" else 6000
    maxops = 12 if ctx.tier == "quick" else 25
    hists = [Hist.from_json(c) for c in CORPUS]
    for _ in range(n):
        hists.append(gen_hist(ctx.rng, maxops))
    for _ in range(n // 8):
        hists.append(gen_hist(ctx.rng, maxops, blanks=True))
        ctx.count("histories with emptied documents (oracle only)")
    echo = echo_hists(ctx.rng, 1 if ctx.tier == "quick" else 6)
    hists += echo
    ctx.count("ask / notification / same ask histories", len(echo))
    ctx.log("%d histories (%d corpus), up to %d ops" % (len(hists), len(CORPUS), maxops + 2))
    t0 = time.time()
    with concurrent.futures.ThreadPoolExecutor(max_workers=8) as ex:
        futs = [ex.submit(run_hist, h, os.path.join(WS, "c02-%d-%d" % (os.getpid(), i)), 30.0) for i, h in enumerate(hists)]
        observations = [f.result() for f in futs]
    ctx.log("binary runs done in %.1fs" % (time.time() - t0))
    lines, spans_all = [], []
    for h in hists:
        l, sp = model_line(h)
        lines.append(l)
        spans_all.append(sp)
    model = ctx.run_driver(lines)
    bad = 0
    nreq = 0
    for h, obs, line, spans, mod in zip(hists, observations, lines, spans_all, model):
        ctx.evaluations += 1
        mw = mod.split(" ")
        g = mw[-1].split("=", 1)[1] if mw and mw[-1].startswith("guard=") else "?"
        first_bad = None if g == "ok" else (int(g) if g.isdigit() else None)
        ctx.count("guard " + ("ok" if first_bad is None else "violated"))
        if obs and obs[0].get("fatal"):
            ctx.oracle_fail("C02:no-initialize-response", obs[0]["fatal"], {"mode": "doc", "history": h.to_json()})
            continue
        mismatch_here = False
        for i, (op, o) in enumerate(zip(h.ops, obs)):
            ctx.count("op:" + op["k"] + (":" + op["kind"] if op["k"] == "ask" else ""))
            if op["k"] != "ask":
                continue
            nreq += 1
            if o["long"] != o["fresh"]:
                sig = classify(h, i, first_bad, spans)
                mismatch_here = mismatch_here or sig != "C02:hierarchy-tree-stale"   # (the class tree is outside M-DOC)
                ctx.oracle_fail(sig, "request %d (%s on %s): the long-running server shows %s, a fresh server on the logical workspace shows %s"
                                % (i, op["kind"], FILE[op["d"]], o["seen"] or o["long"], o["seen_fresh"] or o["fresh"]),
                                {"mode": "doc", "history": h.to_json(), "at": i, "model_line": line,
                                 "long_running": o["long"], "fresh": o["fresh"]})
            # model correspondence on the observable kinds
            if op["kind"] in ("symbols", "completion-self", "completion-y") and not getattr(h, "blanks", False):
                st, ln = spans[i]
                word = mw[st + ln - 1] if st + ln - 1 < len(mw) else "?"
                pred = sorted(core.unesc(x) for x in word.split("=", 1)[1].split(",")) if "=" in word and word.split("=", 1)[1] else []
                if pred != o["seen"]:
                    bad += 1
                    if len(ctx.disagreements) < 50:
                        ctx.disagreements.append(("doc", line, "op %d sees %s" % (i, o["seen"]), "op %d predicts %s" % (i, pred)))
        if any(op["k"] == "ask" for op in h.ops):
            ctx.distinct.add(hashlib.md5(json.dumps([o.get("long") for o in obs], sort_keys=True).encode()).digest())
        # guard-ok histories must be coherent (the partial theorem's domain)
        if first_bad is None and mismatch_here:
            ctx.count("guard ok but incoherent")
    ctx.oblige("tie:correspondence:doc (%d histories, %d requests on the real binary)" % (len(hists), nreq), bad == 0,
               "%d disagreements; first: %s" % (bad, ctx.disagreements[0] if ctx.disagreements else ""))
    ctx.samples = [{"history": hists[i].to_json()["ops"][:8], "model_line": lines[i][:500], "model": model[i][:300]}
                   for i in (0, len(CORPUS), len(hists) - 1)]
    shutil.rmtree(WS, ignore_errors=True)
    return ctx.finish(rule=RULE)


RULE = ("histories = 4 corpus witnesses + generated sequential histories over 5 documents (inheritance chain aC(aP(aG)), used entity aU, "
        "aX with a variable of class aP): didOpen / didChange (new version; 1 in 6 re-parents; plain, extra declaration, extra function, "
        "broken syntax) / didSave (file rewritten first) / didClose and the 7 request kinds at 10 kinds of positions; every declaration "
        "name embeds document and version; after every request a fresh binary on a materialised copy of the logical workspace is asked "
        "the same; distinct_nontrivial = distinct tuples of long-running responses among histories with at least one request")


def replay(ctx):
    d = json.load(open(ctx.replay))
    case = d.get("case", {})
    if not isinstance(case, dict) or "history" not in case:
        print("replay file names no input:", json.dumps(d.get("broken", d), indent=1)[:3000])
        return 1
    ctx.extract(["E7b_DocFlags"])
    ctx.build_repo_bin()
    ctx.lake_build(["driver"])
    os.makedirs(WS, exist_ok=True)
    h = Hist.from_json(case["history"])
    obs = run_hist(h, os.path.join(WS, "c02-replay-%d" % os.getpid()), 30.0)
    line, spans = model_line(h)
    mod = ctx.run_driver([line])[0]
    print("history       :", line)
    print("model         :", mod)
    badn = 0
    for i, (op, o) in enumerate(zip(h.ops, obs)):
        if op["k"] != "ask":
            print("  %2d %-6s %s %s" % (i, op["k"], FILE[op["d"]], model_text(op["d"], op["text"]) if "text" in op else ""))
            continue
        same = o["long"] == o["fresh"]
        print("  %2d ask    %s %-18s long-running sees %s | fresh sees %s | %s" % (
            i, FILE[op["d"]], op["kind"], o["seen"], o["seen_fresh"], "equal" if same else "DIFFERENT"))
        badn += 0 if same else 1
    shutil.rmtree(WS, ignore_errors=True)
    if badn:
        print("VIOLATION property=C02 replay=%s" % ctx.replay)
        return 1
    print("long-running and fresh answers agree on this history")
    return 0
