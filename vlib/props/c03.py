"""C03 — concurrent requests and changes never corrupt each other's answers (DESIGN §4 C03).

theorems : lean/GoldModel/Props/C03.lean over the interleaving model lean/GoldModel/Model/Conc.lean
           (every number of request threads, every list of notifications, every schedule)
tie 1    : E7c_ConcFlags — is didChange one atomic swap?  + the code shapes the model is written against
tie 2    : correspondence `conc` — the REAL ProjectManager, k threads on clones, under a FORCED schedule
           at the yield points of src/verif_hooks.rs (harness mode `conc`) vs the model's prediction for
           the same schedule (driver mode `conc`): same parking points step by step, same answer classes
oracle   : (a) forced and free-running in-process runs: every real answer must equal the answer of the
           same request alone (fresh manager) for a version the document had between receipt and reply;
           probes after the run must show the final version; no deadlock.
           (b) black box on the real binary over stdio: a pipelined batch of requests (+ didChange in
           between) vs the same requests one at a time, per request id.
"""
import concurrent.futures
import hashlib
import itertools
import json
import os
import shutil
import time

from .. import core, lsp

WS = os.path.join(core.CACHE, "ws")

KINDS = ["sym", "diag", "compl", "def", "defp", "prep", "subc", "subm", "sup"]
ANALYSING = [k for k in KINDS if k != "sym"]
# the request kinds of the real server behind the harness kinds
LSP_KIND = {"sym": "documentSymbol", "diag": "diagnostic", "compl": "completion", "def": "definition", "defp": "definition",
            "prep": "prepareTypeHierarchy", "subc": "subtypes", "subm": "subtypes", "sup": "supertypes"}
TABLE_KINDS = {"subc", "subm", "sup", "xcompl"}

SIGS = {
    "half": ("C03:half-annotated-document",
             "a request was answered from an annotated tree that another request was still filling in (answer equals no solo answer)"),
    "stale-saved": ("C03:stale-saved-copy",
                    "a request overlapping a didChange was answered from a copy older than the version before the change"),
    "mixed": ("C03:mixed-versions", "one diagnostic answer combines parts computed from two versions of the document"),
    "stale-table": ("C03:stale-symbol-table-after-race",
                    "after the run had finished, the symbol table cached for the class still came from a version before the last change"),
    "stale-after": ("C03:stale-answer-after-race", "after the run had finished a request was still answered from an old version"),
    "corrupt-after": ("C03:corrupted-annotation-after-race",
                      "after the run had finished a request alone was still answered from a tree that equals no solo answer"),
    "deadlock": ("C03:deadlock", "requests blocked each other for ever"),
    "other": ("C03:unexplained-answer", "an answer equals no solo answer although no other request was analysing the document"),
    "none": ("C03:unanswered", "a request thread did not produce an answer"),
    "crash": ("C03:harness-crash", "the harness child crashed or printed something unexpected"),
}


# ---------------------------------------------------------------------------------------------------
# case lines
# ---------------------------------------------------------------------------------------------------

def case_line(ws, pre, main, threads, sched, probes):
    w = ["conc", core.esc(ws)]
    w += ["P" + p for p in pre]
    w += ["M" + m for m in main]
    w += ["T%d=%s:%s" % (i + 1, k, d) for i, (k, d) in enumerate(threads)]
    w += ["S" + ",".join(str(x) for x in sched)]
    w += ["Q%s:%s" % (k, d) for k, d in probes]
    return " ".join(w)


def parse_out(line):
    """'t1=v1/1 t2=other/1 q=v1/1,… tr=… fin=ok' -> dict; None for anything else"""
    if " fin=" not in " " + line:
        return None
    o = {"threads": {}, "q": [], "tr": [], "fin": None}
    for w in line.split():
        if "=" not in w:
            return None
        k, _, v = w.partition("=")
        if k == "q":
            o["q"] = [tuple(x.split("/", 1)) for x in v.split(",") if x]
        elif k == "tr":
            o["tr"] = [x for x in v.split(",") if x]
        elif k == "fin":
            o["fin"] = v
        elif k.startswith("t") and k[1:].isdigit():
            c, _, a = v.partition("/")
            o["threads"][int(k[1:])] = (c, [x for x in a.split(".") if x])
        else:
            return None
    return o


def versions_of(cls):
    return cls[1:].split(".") if cls.startswith("v") else None


def class_agrees(impl, model):
    """the harness lists every version whose solo answer matches; the model names the one it used"""
    if impl == model:
        return True
    vi, vm = versions_of(impl), versions_of(model)
    return vi is not None and vm is not None and len(vm) == 1 and vm[0] in vi


def same(impl, model):
    a, b = parse_out(impl), parse_out(model)
    if a is None or b is None:
        return False
    if a["fin"] != b["fin"] or a["tr"] != b["tr"] or set(a["threads"]) != set(b["threads"]) or len(a["q"]) != len(b["q"]):
        return False
    for t in a["threads"]:
        if not class_agrees(a["threads"][t][0], b["threads"][t][0]) or a["threads"][t][1] != b["threads"][t][1]:
            return False
    for x, y in zip(a["q"], b["q"]):
        if not class_agrees(x[0], y[0]) or x[1] != y[1]:
            return False
    return True


def judge(threads, out):
    """the property itself on one real run: [(kind-of-failure, what)]"""
    o = parse_out(out)
    if o is None:
        if out.startswith("hang"):
            return [("deadlock", "the case did not finish within the deadline (%s)" % out)]
        if out.startswith("stress fin=deadlock"):
            return [("deadlock", out)]
        return [("crash", out[:200])]
    bad = []
    if o["fin"] != "ok":
        bad.append(("deadlock", "fin=%s: every unfinished thread is blocked on a lock, none is parked at a yield point" % o["fin"]))
    docs = {}
    for i, (k, d) in enumerate(threads):
        docs.setdefault(d, []).append(k)
    for t, (cls, allowed) in sorted(o["threads"].items()):
        k, d = threads[t - 1]
        vs = versions_of(cls)
        if vs is not None:
            if not set(vs) & set(allowed):
                bad.append(("stale-table" if k in TABLE_KINDS else "stale-saved", "thread %d (%s on a%s) answered from version %s; between its receipt and its reply the document had version(s) %s"
                            % (t, k, d, "/".join(vs), ",".join(allowed))))
        elif cls.startswith("mix"):
            bad.append(("mixed", "thread %d (%s on a%s): %s, allowed %s" % (t, k, d, cls, ",".join(allowed))))
        elif cls == "other":
            overl = len([x for x in docs[d] if x != "sym"]) >= 2
            bad.append(("half" if overl and k != "sym" else "other", "thread %d (%s on a%s) got an answer that equals no solo answer" % (t, k, d)))
        elif cls == "none":
            if o["fin"] == "ok":
                bad.append(("none", "thread %d (%s on a%s)" % (t, k, d)))
        else:
            bad.append(("crash", "thread %d: %s" % (t, cls)))
    return bad, o


def judge_probes(probes, o):
    bad = []
    for (k, d), (cls, last) in zip(probes, o["q"]):
        vs = versions_of(cls)
        if vs is None or last not in vs:
            bad.append(("corrupt-after" if cls == "other" else "stale-table" if k in TABLE_KINDS else "stale-after",
                        "probe %s on a%s after the run: %s, the document has version %s" % (k, d, cls, last)))
    return bad


# ---------------------------------------------------------------------------------------------------
# generators
# ---------------------------------------------------------------------------------------------------

PRES = {
    "fresh": [],
    "saved": ["R:sym:D"],
    "opened": ["C:D:2"],
    "annotated": ["R:compl:D"],
    "opened+annotated": ["C:D:2", "R:def:D"],
    "table": ["R:sup:D"],
}
OPSEQS = [["C:D:3"], ["S:D:3"], ["K:D"], ["C:D:3", "C:D:4"], ["C:D:3", "K:D"], ["C:D:3", "S:D:4"], ["O:D", "C:D:3"], ["S:D:3", "C:D:4"]]
PROBES = [("sym", "D"), ("compl", "D"), ("subm", "D"), ("xcompl", "D"), ("diag", "D")]


def configs_2(ctx):
    """all configurations of two threads: request x request and request x notification handler"""
    quick = ctx.tier == "quick"
    kinds = ["sym", "diag", "compl", "def", "subm", "sup"] if quick else KINDS
    pres_rr = ["fresh", "opened"] if quick else ["fresh", "saved", "opened", "table", "annotated"]
    pres_rm = ["fresh", "saved", "opened", "annotated"] if quick else list(PRES)
    opseqs = OPSEQS[:5] if quick else OPSEQS
    out = []
    for pre in pres_rr:
        for a, b in itertools.product(kinds, kinds):
            out.append((PRES[pre], [], [(a, "D"), (b, "D")], [1, 2], "rr:%s" % pre))
    for a, b in itertools.product(["compl", "subm", "diag", "sym"], ["def", "sup"]):
        out.append(([], [], [(a, "D"), (b, "E")], [1, 2], "rr:two-docs"))
    for pre in pres_rm:
        for k in kinds:
            for ops in opseqs:
                out.append((PRES[pre], ops, [(k, "D")], [0, 1], "rm:%s" % pre))
    return out


def schedules(ids, depth):
    return [list(s) for s in itertools.product(ids, repeat=depth)]


def random_config(ctx, nreq_max, nops_max):
    rng = ctx.rng
    nreq = 2 + rng.below(nreq_max - 1)
    docs = ["D", "D", "D", "E"]
    threads = [(rng.choice(KINDS), rng.choice(docs)) for _ in range(nreq)]
    pre = []
    for d in ("D", "E"):
        r = rng.below(6)
        if r == 0:
            pre.append("R:sym:%s" % d)
        elif r == 1:
            pre.append("C:%s:2" % d)
        elif r == 2:
            pre.append("R:%s:%s" % (rng.choice(ANALYSING), d))
    ops = []
    ver = {"D": 3, "E": 3}
    for _ in range(rng.below(nops_max + 1)):
        d = rng.choice(["D", "D", "E"])
        r = rng.below(10)
        if r < 6:
            ops.append("C:%s:%d" % (d, ver[d]))
            ver[d] += 1
        elif r < 8:
            ops.append("S:%s:%d" % (d, ver[d]))
            ver[d] += 1
        elif r < 9:
            ops.append("K:%s" % d)
        else:
            ops.append("O:%s" % d)
    ids = list(range(0 if ops else 1, nreq + 1))
    sched = [rng.choice(ids) for _ in range(4 + rng.below(5 * len(ids)))]
    probes = [(k, d) for k in ("sym", "compl", "subm") for d in ("D", "E")] + [("xcompl", "D")]
    return pre, ops, threads, sched, probes


# ---------------------------------------------------------------------------------------------------
# running
# ---------------------------------------------------------------------------------------------------

def run_conc(ctx, lines, procs, deadline_ms=30000):
    """several watchdog+child pairs side by side"""
    if not lines:
        return []
    procs = max(1, min(procs, len(lines)))
    chunks = [lines[i::procs] for i in range(procs)]
    with concurrent.futures.ThreadPoolExecutor(max_workers=procs) as ex:
        res = list(ex.map(lambda ch: ctx._run_lines([core.HARNESS_BIN, "conc", str(deadline_ms)], ch, 1, 7200), chunks))
    out = [None] * len(lines)
    for i in range(procs):
        for k, o in enumerate(res[i]):
            out[i + k * procs] = o
    return out


def trace_key(model_out):
    o = parse_out(model_out)
    return None if o is None else " ".join(o["tr"])


def interleavings(ctx, ws, configs, maxdepth):
    """every maximal ordering of the threads at their hand-over points, explored level by level with
    the model as the oracle for 'this thread is parked' (a schedule entry for a thread that is not
    parked is a no-op and is pruned); returns [(config index, schedule)]"""
    frontier = [(ci, []) for ci in range(len(configs))]
    done = []
    for depth in range(maxdepth):
        cand = []
        for ci, sch in frontier:
            pre, ops, threads, ids, _ = configs[ci]
            for t in ids:
                cand.append((ci, sch + [t]))
        if not cand:
            break
        lines = [case_line(ws, configs[ci][0], configs[ci][1], configs[ci][2], sch, []) for ci, sch in cand]
        outs = ctx.run_driver(lines)
        alive = {}
        nxt = []
        for (ci, sch), o in zip(cand, outs):
            po = parse_out(o)
            if po is None:
                continue
            tok = po["tr"][len(sch) - 1] if len(po["tr"]) >= len(sch) else "?:-"
            if tok.endswith(":-"):
                continue            # the thread was not parked: the same ordering is reached without this entry
            nxt.append((ci, sch))
            alive[(ci, tuple(sch[:-1]))] = True
        # a prefix none of whose extensions moves anybody is complete
        for ci, sch in frontier:
            if (ci, tuple(sch)) not in alive:
                done.append((ci, sch))
        frontier = nxt
    done += frontier
    return done


def forced_part(ctx, ws):
    """exhaustive orderings of 2 threads (thorough: also 3 threads, to depth 14), random schedules with more threads"""
    quick = ctx.tier == "quick"
    cases = []   # (line, threads, probes, label)
    cfg2 = configs_2(ctx)
    t0 = time.time()
    for ci, sch in interleavings(ctx, ws, cfg2, 14):
        pre, ops, threads, ids, label = cfg2[ci]
        cases.append((case_line(ws, pre, ops, threads, sch, PROBES), threads, PROBES, "exh2:" + label))
    n2 = len(cases)
    if not quick:
        reps = [("compl", "D"), ("diag", "D"), ("subm", "D"), ("sym", "D")]
        cfg3 = []
        for a, b in itertools.combinations_with_replacement(reps, 2):
            for ops in (["C:D:3"], ["S:D:3"]):
                cfg3.append(([], ops, [a, b], [0, 1, 2], "three"))
        for a, b, c in itertools.combinations_with_replacement(reps[:3], 3):
            cfg3.append(([], [], [a, b, c], [1, 2, 3], "three-requests"))
        for ci, sch in interleavings(ctx, ws, cfg3, 14):
            pre, ops, threads, ids, label = cfg3[ci]
            cases.append((case_line(ws, pre, ops, threads, sch, PROBES), threads, PROBES, "exh3:" + label))
    ctx.log("%d complete orderings of two threads, %d of three (enumerated with the model in %.1fs)" % (n2, len(cases) - n2, time.time() - t0))
    nrand = 600 if quick else 10000
    for i in range(nrand):
        big = (not quick) or i % 4 == 0
        pre, ops, threads, sched, probes = random_config(ctx, 8 if big and not quick else (4 if big else 2), 4)
        cases.append((case_line(ws, pre, ops, threads, sched, probes), threads, probes, "rand%d" % (len(threads) + (1 if ops else 0))))
    lines = [c[0] for c in cases]
    t0 = time.time()
    model = ctx.run_driver(lines)
    ctx.log("model predictions for %d schedules in %.1fs" % (len(lines), time.time() - t0))
    # schedules that force the same sequence of hand-overs are one case: keep the first of each
    seen, keep = set(), []
    for i, (c, m) in enumerate(zip(cases, model)):
        # the configuration is everything but the schedule word
        key = (" ".join(w for w in c[0].split() if not w.startswith("S")), " ".join(x for x in (trace_key(m) or "?").split() if not x.endswith(":-")))
        if key in seen:
            continue
        seen.add(key)
        keep.append(i)
    ctx.log("%d distinct forced orderings" % len(keep))
    for i in keep:
        ctx.count(cases[i][3].split(":")[0])
    t0 = time.time()
    impl = run_conc(ctx, [lines[i] for i in keep], 12)
    ctx.log("real runs in %.1fs" % (time.time() - t0))
    bad = 0
    for i, a in zip(keep, impl):
        line, threads, probes, label = cases[i]
        m = model[i]
        ctx.evaluations += 1
        ctx.distinct.add(hashlib.md5((trace_key(m) or "").encode()).digest())
        r = judge(threads, a)
        fails, o = r if isinstance(r, tuple) else (r, None)
        if o is not None and o["fin"] == "ok":
            fails = fails + judge_probes(probes, o)
        for kind, what in fails:
            sig, gen = SIGS[kind]
            # a recorded finding is a mechanism the MODEL reproduces (its Lean witnesses); a failing run whose answers the
            # model does not predict is something else, whatever it looks like — it gets its own signature and is reported
            if not same(a, m):
                sig += ":not-predicted-by-the-model"
                gen = "(the model of the recorded mechanisms predicts a correct answer here) " + gen
            ctx.oracle_fail(sig, gen + " — " + what, {"mode": "conc", "case": line, "implementation": a, "model": m})
        if not same(a, m):
            bad += 1
            if len(ctx.disagreements) < 50:
                ctx.disagreements.append(("conc", line, a, m))
    dpath = os.path.join(core.VERIF, "replays", "C03", "disagreements-%s.txt" % ctx.tier)
    if os.path.exists(dpath):
        os.remove(dpath)
    if ctx.disagreements:
        with open(dpath, "w") as f:
            for _, c, a, m in ctx.disagreements:
                f.write("%s\n   impl : %s\n   model: %s\n" % (c, a, m))
    ctx.oblige("tie:correspondence:conc (%d forced schedules on the real ProjectManager)" % len(keep), bad == 0,
               "%d disagreements; first: %s" % (bad, ctx.disagreements[0] if ctx.disagreements else ""))
    ctx.samples += [{"case": lines[i], "implementation": a, "model": model[i]} for i, a in list(zip(keep, impl))[:3]]



# ---------------------------------------------------------------------------------------------------
# the Lean witnesses, replayed on the real code through the hook controller
# ---------------------------------------------------------------------------------------------------

# (name of the theorem, pre, main ops, threads, forced schedule, expected classes of the threads on the CURRENT source)
WITNESSES = [
    ("half_annotated_visible", [], [], [("def", "D"), ("def", "D")], [1, 1, 1, 2], {1: "v1", 2: "other"}),
    ("stale_saved_visible (pinned handler; repaired: answered from the version before)", ["C:D:2"], ["C:D:3"], [("sym", "D")],
     [0, 1], {1: "v2"}),
    ("mixed_versions_visible", [], ["C:D:3"], [("diag", "D")], [0, 1, 0, 1], {1: "mix1.3"}),
    ("stale_table_visible", [], ["C:D:2"], [("def", "D"), ("xcompl", "D")], [1, 1, 0, 0, 1, 1, 2], {1: "v1", 2: "v1"}),
    ("double_annotation_reachable", [], [], [("diag", "D"), ("diag", "D")], [1, 1, 2, 1, 2], {1: "v1", 2: "v1"}),
]


def witness_part(ctx, ws):
    lines = [case_line(ws, pre, ops, th, sch, PROBES) for _, pre, ops, th, sch, _ in WITNESSES]
    model = ctx.run_driver(lines)
    impl = run_conc(ctx, lines, 1)
    ok = True
    detail = []
    for (name, pre, ops, threads, sch, want), line, a, m in zip(WITNESSES, lines, impl, model):
        ctx.evaluations += 1
        o = parse_out(a)
        got = {t: c for t, (c, _) in o["threads"].items()} if o else {}
        good = o is not None and all(class_agrees(got.get(t, "?"), c) or got.get(t) == c for t, c in want.items()) and same(a, m)
        if not good:
            ok = False
            detail.append("%s: real %s / model %s" % (name, a, m))
            ctx.disagreements.append(("conc-witness", line, a, m))
        r = judge(threads, a)
        fails, oo = r if isinstance(r, tuple) else (r, None)
        if oo is not None and oo["fin"] == "ok":
            fails = fails + judge_probes(PROBES, oo)
        for kind, what in fails:
            sig, gen = SIGS[kind]
            ctx.oracle_fail(sig, gen + " — " + what + " [schedule of Gold.C03.%s]" % name.split()[0],
                            {"mode": "conc", "case": line, "implementation": a, "model": m})
        ctx.samples.append({"witness": name, "case": " ".join(line.split()[2:]), "implementation": a, "model": m})
    ctx.oblige("tie:witness-replay (%d Lean witnesses forced on the real code)" % len(WITNESSES), ok, "; ".join(detail))


# ---------------------------------------------------------------------------------------------------
# free-running stress on real parallel threads
# ---------------------------------------------------------------------------------------------------

def parse_stress(line):
    """'stress t1=v1/1 t2=… q=… fin=ok' -> ([(tid, class, allowed)], [(class,last)], fin)"""
    if not line.startswith("stress "):
        return None
    ths, q, fin = [], [], None
    for w in line.split()[1:]:
        k, _, v = w.partition("=")
        if k == "fin":
            fin = v
        elif k == "q":
            q = [tuple(x.split("/", 1)) for x in v.split(",") if x]
        elif k == "live":
            pass
        elif k.startswith("t") and k[1:].isdigit():
            c, _, a = v.partition("/")
            ths.append((int(k[1:]), c, [x for x in a.split(".") if x]))
        else:
            return None
    return ths, q, fin


def stress_part(ctx, ws):
    quick = ctx.tier == "quick"
    n = 300 if quick else 3000
    cases = []
    for i in range(n):
        rng = ctx.rng
        nreq = 2 + rng.below(4 if quick else 7)
        # most threads on one document: that is where requests corrupt each other
        threads = [(rng.choice(KINDS), "D" if rng.chance(4, 5) else "E") for _ in range(nreq)]
        pre = []
        if rng.chance(1, 3):
            pre.append("C:D:2")
        ops, ver = [], 3
        for _ in range(rng.below(4)):
            r = rng.below(10)
            if r < 7:
                ops.append("C:D:%d" % ver)
                ver += 1
            elif r < 9:
                ops.append("S:D:%d" % ver)
                ver += 1
            else:
                ops.append("K:D")
        probes = [("sym", "D"), ("compl", "D"), ("subm", "D"), ("xcompl", "D")]
        line = case_line(ws, pre, ops, threads, [], probes).replace(" S ", " X%d " % (1 + rng.below(3)))
        cases.append((line, threads, probes))
    # long analyses: texts grown by 150 procedures (`G150`), 2–4 requests of the heavy kinds on the same and on different
    # documents, no notifications — the answers of overlapping requests must still be the solo answers
    for i in range(12 if quick else 200):
        nreq = 2 + rng.below(3)
        threads = [(rng.choice(["diag", "diag", "compl", "def"]), "D" if rng.chance(2, 3) else "E") for _ in range(nreq)]
        probes = [("sym", "D"), ("compl", "D")]
        line = case_line(ws, [], [], threads, [], probes).replace(" S ", " G150 X%d " % (2 + rng.below(3)))
        cases.append((line, threads, probes))
        ctx.count("stress-long-analyses")
    t0 = time.time()
    outs = run_conc(ctx, [c[0] for c in cases], 4 if quick else 8, deadline_ms=90000)
    ctx.log("%d free-running stress runs in %.1fs" % (len(cases), time.time() - t0))
    nans = 0
    for (line, threads, probes), o in zip(cases, outs):
        ctx.evaluations += 1
        ctx.count("stress")
        if o.startswith("stress fin=deadlock") or o.startswith("hang"):
            sig, gen = SIGS["deadlock"]
            ctx.oracle_fail(sig, gen + " — " + o, {"mode": "conc-stress", "case": line, "implementation": o})
            continue
        ps = parse_stress(o)
        if ps is None or ps[2] != "ok":
            sig, gen = SIGS["crash"]
            ctx.oracle_fail(sig, gen + " — " + o[:200], {"mode": "conc-stress", "case": line, "implementation": o})
            continue
        ths, q, _ = ps
        docs = {}
        for k, d in threads:
            docs.setdefault(d, []).append(k)
        for t, cls, allowed in ths:
            nans += 1
            k, d = threads[t - 1]
            vs = versions_of(cls)
            kind = None
            if vs is not None:
                if not set(vs) & set(allowed):
                    kind = "stale-table" if k in TABLE_KINDS else "stale-saved"
            elif cls.startswith("mix"):
                kind = "mixed"
            elif cls == "other":
                kind = "half" if k != "sym" and len([x for x in docs[d] if x != "sym"]) >= 2 else "other"
            else:
                kind = "crash"
            if kind:
                sig, gen = SIGS[kind]
                ctx.oracle_fail(sig, gen + " — thread %d (%s on a%s): %s, allowed %s" % (t, k, d, cls, ",".join(allowed)),
                                {"mode": "conc-stress", "case": line, "implementation": o})
        for (k, d), (cls, last) in zip(probes, q):
            vs = versions_of(cls)
            if vs is None or last not in vs:
                sig, gen = SIGS["corrupt-after" if cls == "other" else "stale-table" if k in TABLE_KINDS else "stale-after"]
                ctx.oracle_fail(sig, gen + " — probe %s on a%s: %s, the document has version %s" % (k, d, cls, last),
                                {"mode": "conc-stress", "case": line, "implementation": o})
    ctx.coverage_stress = {"runs": len(cases), "answers_judged": nans}


# ---------------------------------------------------------------------------------------------------
# black box: a pipelined batch on the real binary vs the same requests one at a time
# ---------------------------------------------------------------------------------------------------

def text_of(doc, ver):
    """the texts of harness/src/modes/conc.rs::text_of (the two must stay identical)"""
    if doc == "X":
        return "class aX\n\nproc P_X(A : Int4)\n   var x : Int4\n   var y : aD\n   x = y.\nendProc\n"
    if doc in ("BD", "BE"):
        return "class a%s\n\nF_B : Int4\n\nproc M\nendProc\n" % doc
    fx = "x" * ver
    l = ["class a%s (aB%s)" % (doc, doc), "", "F_%s_%d%s : Int4" % (doc, ver, fx), "G_%s_%d : Int4" % (doc, ver), "",
         "proc P_%s_%d(A : Int4)" % (doc, ver), "   var x : Int4", "   var u_%s_%d : Int4" % (doc, ver),
         "   x = A + self.F_%s_%d%s" % (doc, ver, fx), "   x = self.", "endProc", ""]
    l += ["const cK%d = 'k'" % i for i in range(ver)]
    l += ["", "proc q_%s_%d" % (doc, ver), "endProc", "", "proc M", "endProc", ""]
    return "\n".join(l)


ALL_DOCS = ["D", "E", "X", "BD", "BE"]
READY = "Building class tree"


def bb_request(root, kind, doc):
    u = lsp.path_uri(os.path.join(root, "a%s.god" % doc))
    if kind == "sym":
        return "textDocument/documentSymbol", lsp.td(u)
    if kind == "diag":
        return "textDocument/diagnostic", lsp.td(u)
    if kind == "compl":
        return "textDocument/completion", lsp.tdpos(u, 9, len("   x = self."))
    if kind == "def":
        return "textDocument/definition", lsp.tdpos(u, 8, len("   x = A + self.") + 1)
    if kind == "defp":
        return "textDocument/definition", lsp.tdpos(u, 8, len("   x = "))
    if kind == "prep":
        return "textDocument/prepareTypeHierarchy", lsp.tdpos(u, 0, 7)
    if kind in ("subc", "subm"):
        ub = lsp.path_uri(os.path.join(root, "aB%s.god" % doc))
        it = lsp.hierarchy_item(ub, "aB%s" % doc if kind == "subc" else "M")
        it["item"]["kind"] = 5 if kind == "subc" else 12
        return "typeHierarchy/subtypes", it
    if kind == "sup":
        it = lsp.hierarchy_item(u, "M")
        it["item"]["kind"] = 12
        return "typeHierarchy/supertypes", it
    if kind == "xcompl":
        ux = lsp.path_uri(os.path.join(root, "aX.god"))
        return "textDocument/completion", lsp.tdpos(ux, 5, len("   x = y."))
    raise ValueError(kind)


def bb_canon(x, root):
    if isinstance(x, dict):
        return {k: bb_canon(v, root) for k, v in sorted(x.items())}
    if isinstance(x, list):
        return sorted((bb_canon(v, root) for v in x), key=lambda v: json.dumps(v, sort_keys=True))
    if isinstance(x, str):
        return x.replace(lsp.path_uri(root), "<ROOT>").replace(root, "<ROOT>")
    return x


def bb_answer(resps, rid, root):
    if rid not in resps:
        return None
    m = resps[rid][0]
    if "error" in m:
        return json.dumps({"_error": m["error"].get("code")})
    return json.dumps(bb_canon(m.get("result"), root), sort_keys=True)


def bb_materialise(root, vers):
    os.makedirs(root, exist_ok=True)
    for d in ALL_DOCS:
        with open(os.path.join(root, "a%s.god" % d), "w") as f:
            f.write(text_of(d, vers.get(d, 1)))
    return os.path.realpath(root)


_BB_SOLO = {}


def bb_solo(wsdir, doc, ver, kinds):
    """one at a time: a fresh binary whose file `doc` has version `ver`; every request waits for its answer"""
    need = [k for k in kinds if (k, doc, ver) not in _BB_SOLO]
    if need:
        root = bb_materialise(os.path.join(wsdir, "solo-%s-%d" % (doc, ver)), {doc: ver})
        srv = lsp.Server(root, stderr_path=root + ".stderr")
        try:
            srv.wait_log(READY, 30.0)
            for i, k in enumerate(need):
                m, p = bb_request(root, k, doc)
                srv.request(i + 1, m, p)
                r = srv.settle([i + 1], 30.0)
                _BB_SOLO[(k, doc, ver)] = bb_answer(r, i + 1, root)
        finally:
            srv.kill()
            shutil.rmtree(root, ignore_errors=True)
            try:
                os.remove(root + ".stderr")
            except OSError:
                pass
    return {k: _BB_SOLO[(k, doc, ver)] for k in kinds}


def bb_batch(ctx, wsdir, idx, msgs, probes):
    """msgs: [("req", kind, doc) | ("chg", doc, ver)]; everything is written to the server without waiting"""
    root = bb_materialise(os.path.join(wsdir, "bb-%d" % idx), {})
    srv = lsp.Server(root, stderr_path=root + ".stderr")
    out = {"answers": {}, "probes": [], "hang": None}
    try:
        srv.wait_log(READY, 30.0)
        ids = []
        for i, m in enumerate(msgs):
            if m[0] == "req":
                meth, par = bb_request(root, m[1], m[2])
                srv.request(i + 1, meth, par)
                ids.append(i + 1)
            else:
                u = lsp.path_uri(os.path.join(root, "a%s.god" % m[1]))
                srv.notify("textDocument/didChange", lsp.did_change(u, text_of(m[1], m[2]), m[2]))
        r = srv.settle(ids, 30.0)
        for i in ids:
            out["answers"][i] = bb_answer(r, i, root)
        missing = [i for i in ids if i not in r]
        if missing:
            out["hang"] = {"missing": missing, "alive": srv.alive(), "idle": srv.idle(1.0) if srv.alive() else False}
        else:
            for j, (k, d) in enumerate(probes):
                meth, par = bb_request(root, k, d)
                rid = 1000 + j
                srv.request(rid, meth, par)
                rr = srv.settle([rid], 30.0)
                out["probes"].append(bb_answer(rr, rid, root))
    finally:
        srv.kill()
        shutil.rmtree(root, ignore_errors=True)
        try:
            os.remove(root + ".stderr")
        except OSError:
            pass
    return out


def diag_items(ans):
    try:
        v = json.loads(ans)
        return [json.dumps(i, sort_keys=True) for i in v["items"]]
    except Exception:
        return None


def blackbox_part(ctx, ws):
    quick = ctx.tier == "quick"
    n = 30 if quick else 400
    wsdir = os.path.join(ws, "bb")
    os.makedirs(wsdir, exist_ok=True)
    batches = []
    for b in range(n):
        rng = ctx.rng
        msgs = []
        ver = {"D": 2, "E": 2}
        nreq = 2 + rng.below(7)
        nchg = rng.below(3)
        slots = ["req"] * nreq + ["chg"] * nchg
        rng.shuffle(slots)
        for sl in slots:
            d = "D" if rng.chance(4, 5) else "E"
            if sl == "req":
                msgs.append(("req", rng.choice(KINDS), d))
            else:
                msgs.append(("chg", d, ver[d]))
                ver[d] += 1
        batches.append((msgs, [("sym", "D"), ("compl", "D"), ("subm", "D"), ("xcompl", "D")]))
    t0 = time.time()
    with concurrent.futures.ThreadPoolExecutor(max_workers=6) as ex:
        futs = [ex.submit(bb_batch, ctx, wsdir, i, m, p) for i, (m, p) in enumerate(batches)]
        results = [f.result() for f in futs]
    nreqs = 0
    for (msgs, probes), res in zip(batches, results):
        ctx.evaluations += 1
        ctx.count("blackbox-batch")
        case = {"mode": "blackbox", "messages": [list(m) for m in msgs], "probes": [list(p) for p in probes]}
        # the versions of each document along the stream
        hist = {"D": [1], "E": [1]}
        lo_of = {}
        for i, m in enumerate(msgs):
            if m[0] == "chg":
                hist[m[1]].append(m[2])
            else:
                lo_of[i + 1] = len(hist[m[2]]) - 1     # notifications before it in the stream have returned
        if res["hang"]:
            h = res["hang"]
            unanswered = [msgs[i - 1] for i in h["missing"]]
            docs = {m[2] for m in unanswered}
            if h["alive"] and h["idle"] and len([m for m in unanswered if m[1] != "sym"]) >= 2 and len(docs) == 1:
                sig, gen = SIGS["deadlock"]
                ctx.oracle_fail(sig, gen + " — pipelined batch: %d analysis requests about a%s never answered, server alive and idle"
                                % (len(unanswered), list(docs)[0]), dict(case, observed=h))
            else:
                sig, gen = SIGS["none"]
                ctx.oracle_fail(sig, gen + " — pipelined batch: %s" % h, dict(case, observed=h))
            continue
        for i, m in enumerate(msgs):
            if m[0] != "req":
                continue
            nreqs += 1
            rid, k, d = i + 1, m[1], m[2]
            ans = res["answers"][rid]
            vers = hist[d]
            solos = {v: bb_solo(wsdir, d, v, [k])[k] for v in sorted(set(vers))}
            allowed = vers[lo_of[rid]:]
            if any(solos[v] == ans for v in allowed):
                continue
            stale = [v for v in vers[:lo_of[rid]] if solos[v] == ans]
            if stale:
                kind = "stale-table" if k in TABLE_KINDS else "stale-saved"
                what = "request #%d (%s on a%s) answered from version %s, the versions since its receipt are %s" % (rid, k, d, stale[0], allowed)
            else:
                kind = None
                if k == "diag":
                    items = diag_items(ans) if ans else None
                    if items is not None:
                        for a_ in sorted(set(vers)):
                            for b_ in sorted(set(vers)):
                                if a_ < b_:
                                    ia, ib = diag_items(solos[a_]) or [], diag_items(solos[b_]) or []
                                    if all(x in ia or x in ib for x in items) and any(x in ia and x not in ib for x in items) \
                                            and any(x in ib and x not in ia for x in items):
                                        kind = "mixed"
                                        what = "request #%d (diagnostic on a%s): items from versions %d and %d in one report" % (rid, d, a_, b_)
                if kind is None:
                    others = [x for x in msgs if x[0] == "req" and x[2] == d and x[1] != "sym"]
                    kind = "half" if k != "sym" and len(others) >= 2 else "other"
                    what = "request #%d (%s on a%s): the pipelined answer equals the one-at-a-time answer for no version %s" % (rid, k, d, sorted(set(vers)))
            sig, gen = SIGS[kind]
            ctx.oracle_fail(sig, gen + " — " + what, dict(case, request=rid, pipelined=ans, one_at_a_time=solos))
        for (k, d), ans in zip(probes, res["probes"]):
            last = hist["D"][-1]
            want = bb_solo(wsdir, "D", last, [k])[k]
            if ans != want:
                older = [v for v in sorted(set(hist["D"])) if bb_solo(wsdir, "D", v, [k])[k] == ans]
                sig, gen = SIGS[("stale-table" if k in TABLE_KINDS else "stale-after") if older else "corrupt-after"]
                ctx.oracle_fail(sig, gen + " — probe %s after the batch differs from the one-at-a-time answer for version %d" % (k, last),
                                dict(case, probe=k, after_batch=ans, one_at_a_time=want))
    ctx.log("%d pipelined batches (%d requests) on the real binary in %.1fs" % (n, nreqs, time.time() - t0))
    shutil.rmtree(wsdir, ignore_errors=True)
    return nreqs


RULE = ("(1) forced schedules on the real ProjectManager: every ordering at the hand-over points (start / op / change.window / parsed.unlocked / "
        "analyze.checked / annot.published) of two threads — request x request over the request kinds and pre-states (fresh, saved cached, "
        "changed, annotated, table cached), request x notification sequence (didChange / didSave / didClose / didOpen, one or two) — enumerated "
        "as all thread-id sequences up to depth 8..9 and deduplicated by the sequence of hand-overs they force (thorough: also three threads), "
        "plus random schedules of 2..9 threads (requests on two documents + notifications); every run is compared step by step with the model "
        "(parking points, blocked threads, answer classes, allowed versions) and judged against solo answers of a fresh manager per version; "
        "(2) the Lean witnesses replayed; (3) free-running stress on real parallel threads; (4) pipelined batches on the real binary vs one "
        "request at a time. evaluations = runs; distinct_nontrivial = distinct forced hand-over sequences")


def run(ctx):
    ctx.trusted += [
        "Lean 4.33 kernel + leanchecker; axioms ⊆ {propext, Classical.choice, Quot.sound}",
        "hand-written interleaving model lean/GoldModel/Model/Conc.lean, tied to src/manager/{mod,document_service,semantic_analysis_service}.rs "
        "and analyzers_v2/ast_annotator.rs by E7c_ConcFlags (code shapes) and by the `conc` correspondence: forced schedules on the real "
        "ProjectManager vs the model's prediction, step by step",
        "std::sync RwLock / Mutex by contract: mutual exclusion of the short critical sections (each one atomic step of the model), "
        "try_lock fails iff held; the node locks and symbol-table mutexes taken inside the annotation walk are below the model's cut points",
        "what the analysis computes is uninterpreted (provenance only): that equal provenance gives equal answers is checked by the oracle "
        "(solo answers of fresh managers, version-tagged texts)",
        "src/verif_hooks.rs (yield points + controller), harness/src/modes/conc.rs (blocked = sleeping in a futex wait, seen via /proc), "
        "vlib/lsp.py, lean_exe compilation of the driver",
    ]
    ctx.assumptions += [
        "notifications are handled one after the other on the main thread (main.rs); requests run on clones of the ProjectManager",
        "requests are about documents that do not refer to a changing document (parent / used entities are fixed): cross-document staleness is C02's subject",
        "the client rewrites a file before it sends didSave",
    ]
    if ctx.replay:
        return replay(ctx)
    ctx.extract(["E7c_ConcFlags"])
    ctx.prove("GoldModel.Props.C03")
    ws = os.path.join(WS, "c03-%d" % os.getpid())
    os.makedirs(ws, exist_ok=True)
    try:
        if not ctx.build_harness():
            return ctx.finish(rule=RULE)
        ctx.phase("witness-replay")
        witness_part(ctx, ws)
        ctx.phase("forced-schedules")
        forced_part(ctx, ws)
        ctx.phase("stress")
        stress_part(ctx, ws)
        ctx.phase("blackbox")
        nbb = 0
        if ctx.build_repo_bin():
            nbb = blackbox_part(ctx, ws)
    finally:
        shutil.rmtree(ws, ignore_errors=True)
    return ctx.finish(rule=RULE, extra={"exhaustive": True,
                                        "exhaustive_space": "all orderings of two threads at the six hand-over points for the listed kinds x pre-states x notification sequences",
                                        "stress": getattr(ctx, "coverage_stress", {}), "blackbox_requests": nbb})


def replay(ctx):
    d = json.load(open(ctx.replay))
    case = d.get("case", {})
    if not isinstance(case, dict) or ("case" not in case and "messages" not in case):
        dis = d.get("disagreements") or []
        if dis:
            case = {"mode": "conc", "case": dis[0].get("case")}
        else:
            print("replay file names no input:", json.dumps(d.get("broken", d), indent=1)[:3000])
            return 1
    ctx.extract(["E7c_ConcFlags"])
    ws = os.path.join(WS, "c03-replay-%d" % os.getpid())
    os.makedirs(ws, exist_ok=True)
    try:
        if case.get("mode") == "blackbox":
            ctx.build_repo_bin()
            msgs = [tuple(m) for m in case["messages"]]
            probes = [tuple(p) for p in case["probes"]]
            bad = 0
            for rep in range(10):
                res = bb_batch(ctx, os.path.join(ws, "bb"), rep, msgs, probes)
                print("run %d: %s" % (rep, "HANG %s" % res["hang"] if res["hang"] else "answered"))
                if res["hang"]:
                    bad += 1
                    continue
                hist = {"D": [1], "E": [1]}
                for i, m in enumerate(msgs):
                    if m[0] == "chg":
                        hist[m[1]].append(m[2])
                        continue
                    allowed = hist[m[2]][len(hist[m[2]]) - 1:] + [x[2] for x in msgs[i + 1:] if x[0] == "chg" and x[1] == m[2]]
                    solos = {v: bb_solo(os.path.join(ws, "bb"), m[2], v, [m[1]])[m[1]] for v in sorted(set(hist[m[2]] + allowed))}
                    okv = [v for v in allowed if solos[v] == res["answers"][i + 1]]
                    if not okv:
                        bad += 1
                        print("   #%d %s on a%s: equals the one-at-a-time answer of versions %s, allowed %s" %
                              (i + 1, m[1], m[2], [v for v in solos if solos[v] == res["answers"][i + 1]], allowed))
            if bad:
                print("VIOLATION property=C03 replay=%s" % ctx.replay)
                return 1
            print("the pipelined answers equal one-at-a-time answers in 10 repetitions")
            return 0
        ctx.build_harness()
        ctx.lake_build(["driver"])
        line = case["case"]
        words = line.split()
        words[1] = core.esc(ws)
        line = " ".join(words)
        reps = 20 if any(w.startswith("X") for w in words[2:]) else 1
        outs = run_conc(ctx, [line] * reps, 2, deadline_ms=90000)
        model = ctx.run_driver([line])[0]
        threads = [tuple(w.split("=")[1].split(":")) for w in words if w.startswith("T")]
        probes = [tuple(w[1:].split(":")) for w in words if w.startswith("Q")]
        bad = 0
        print("case          :", " ".join(words[2:]))
        if reps == 1:
            print("model         :", model)
        for o in outs[:5]:
            print("implementation:", o)
        for o in outs:
            if o.startswith("stress"):
                ps = parse_stress(o)
                if ps is None or ps[2] != "ok":
                    bad += 1
                    continue
                for t, cls, allowed in ps[0]:
                    vs = versions_of(cls)
                    if vs is None or not set(vs) & set(allowed):
                        bad += 1
                for (k, dd), (cls, last) in zip(probes, ps[1]):
                    vs = versions_of(cls)
                    if vs is None or last not in vs:
                        bad += 1
            else:
                r = judge(threads, o)
                fails, oo = r if isinstance(r, tuple) else (r, None)
                if oo is not None and oo["fin"] == "ok":
                    fails = fails + judge_probes(probes, oo)
                for kind, what in fails:
                    print("   %s: %s" % (SIGS[kind][0], what))
                bad += len(fails)
                if not same(o, model):
                    print("   the model predicts something else")
                    bad += 1
        if bad:
            print("VIOLATION property=C03 replay=%s" % ctx.replay)
            return 1
        print("the implementation satisfies the property on this case")
        return 0
    finally:
        shutil.rmtree(ws, ignore_errors=True)
