"""C03 — concurrent requests and changes never corrupt each other's answers (DESIGN §4 C03).

theorems : lean/GoldModel/Props/C03.lean over the interleaving model lean/GoldModel/Model/Conc.lean
           (every number of request threads, every list of notifications, every schedule)
tie 1    : E7c_ConcFlags — is didChange one atomic swap?  + the code shapes the model is written against
tie 2    : correspondence `conc` — the REAL ProjectManager, k threads on clones, under a FORCED schedule
           at the yield points of src/verif_hooks.rs (harness mode `conc`) vs the model's prediction for
           the same schedule (driver mode `conc`): same parking points step by step, same answer classes
oracle   : (a) forced and free-running in-process runs: every real answer must equal the answer of the
           same request alone (fresh manager) for a version the document had between receipt and reply;
           probes after the run must show the final version; no deadlock.
           (b) black box on the real binary over stdio: a pipelined batch of requests (+ didChange in
           between) vs the same requests one at a time, per request id.
"""
import concurrent.futures
import hashlib
import itertools
import json
import os
import shutil
import time

from .. import core, lsp

WS = os.path.join(core.CACHE, "ws")

KINDS = ["sym", "diag", "compl", "def", "defp", "prep", "subc", "subm", "sup"]
ANALYSING = [k for k in KINDS if k != "sym"]
# the request kinds of the real server behind the harness kinds
LSP_KIND = {"sym": "documentSymbol", "diag": "diagnostic", "compl": "completion", "def": "definition", "defp": "definition",
            "prep": "prepareTypeHierarchy", "subc": "subtypes", "subm": "subtypes", "sup": "supertypes"}
TABLE_KINDS = {"subc", "subm", "sup", "xcompl"}

SIGS = {
    "half": ("C03:half-annotated-document",
             "a request was answered from an annotated tree that another request was still filling in (answer equals no solo answer)"),
    "stale-saved": ("C03:stale-saved-copy",
                    "a request overlapping a didChange was answered from a copy older than the version before the change"),
    "mixed": ("C03:mixed-versions", "one diagnostic answer combines parts computed from two versions of the document"),
    "stale-table": ("C03:stale-symbol-table-after-race",
                    "after the run had finished, the symbol table cached for the class still came from a version before the last change"),
    "stale-after": ("C03:stale-answer-after-race", "after the run had finished a request was still answered from an old version"),
    "deadlock": ("C03:deadlock", "requests blocked each other for ever"),
    "other": ("C03:unexplained-answer", "an answer equals no solo answer although no other request was analysing the document"),
    "none": ("C03:unanswered", "a request thread did not produce an answer"),
    "crash": ("C03:harness-crash", "the harness child crashed or printed something unexpected"),
}


# ---------------------------------------------------------------------------------------------------
# case lines
# ---------------------------------------------------------------------------------------------------

def case_line(ws, pre, main, threads, sched, probes):
    w = ["conc", core.esc(ws)]
    w += ["P" + p for p in pre]
    w += ["M" + m for m in main]
    w += ["T%d=%s:%s" % (i + 1, k, d) for i, (k, d) in enumerate(threads)]
    w += ["S" + ",".join(str(x) for x in sched)]
    w += ["Q%s:%s" % (k, d) for k, d in probes]
    return " ".join(w)


def parse_out(line):
    """'t1=v1/1 t2=other/1 q=v1/1,… tr=… fin=ok' -> dict; None for anything else"""
    if " fin=" not in " " + line:
        return None
    o = {"threads": {}, "q": [], "tr": [], "fin": None}
    for w in line.split():
        if "=" not in w:
            return None
        k, _, v = w.partition("=")
        if k == "q":
            o["q"] = [tuple(x.split("/", 1)) for x in v.split(",") if x]
        elif k == "tr":
            o["tr"] = [x for x in v.split(",") if x]
        elif k == "fin":
            o["fin"] = v
        elif k.startswith("t") and k[1:].isdigit():
            c, _, a = v.partition("/")
            o["threads"][int(k[1:])] = (c, [x for x in a.split(".") if x])
        else:
            return None
    return o


def versions_of(cls):
    return cls[1:].split(".") if cls.startswith("v") else None


def class_agrees(impl, model):
    """the harness lists every version whose solo answer matches; the model names the one it used"""
    if impl == model:
        return True
    vi, vm = versions_of(impl), versions_of(model)
    return vi is not None and vm is not None and len(vm) == 1 and vm[0] in vi


def same(impl, model):
    a, b = parse_out(impl), parse_out(model)
    if a is None or b is None:
        return False
    if a["fin"] != b["fin"] or a["tr"] != b["tr"] or set(a["threads"]) != set(b["threads"]) or len(a["q"]) != len(b["q"]):
        return False
    for t in a["threads"]:
        if not class_agrees(a["threads"][t][0], b["threads"][t][0]) or a["threads"][t][1] != b["threads"][t][1]:
            return False
    for x, y in zip(a["q"], b["q"]):
        if not class_agrees(x[0], y[0]) or x[1] != y[1]:
            return False
    return True


def judge(threads, out):
    """the property itself on one real run: [(kind-of-failure, what)]"""
    o = parse_out(out)
    if o is None:
        if out.startswith("hang"):
            return [("deadlock", "the case did not finish within the deadline (%s)" % out)]
        if out.startswith("stress fin=deadlock"):
            return [("deadlock", out)]
        return [("crash", out[:200])]
    bad = []
    if o["fin"] != "ok":
        bad.append(("deadlock", "fin=%s: every unfinished thread is blocked on a lock, none is parked at a yield point" % o["fin"]))
    docs = {}
    for i, (k, d) in enumerate(threads):
        docs.setdefault(d, []).append(k)
    for t, (cls, allowed) in sorted(o["threads"].items()):
        k, d = threads[t - 1]
        vs = versions_of(cls)
        if vs is not None:
            if not set(vs) & set(allowed):
                bad.append(("stale-table" if k in TABLE_KINDS else "stale-saved", "thread %d (%s on a%s) answered from version %s; between its receipt and its reply the document had version(s) %s"
                            % (t, k, d, "/".join(vs), ",".join(allowed))))
        elif cls.startswith("mix"):
            bad.append(("mixed", "thread %d (%s on a%s): %s, allowed %s" % (t, k, d, cls, ",".join(allowed))))
        elif cls == "other":
            overl = len([x for x in docs[d] if x != "sym"]) >= 2
            bad.append(("half" if overl and k != "sym" else "other", "thread %d (%s on a%s) got an answer that equals no solo answer" % (t, k, d)))
        elif cls == "none":
            if o["fin"] == "ok":
                bad.append(("none", "thread %d (%s on a%s)" % (t, k, d)))
        else:
            bad.append(("crash", "thread %d: %s" % (t, cls)))
    return bad, o


def judge_probes(probes, o):
    bad = []
    for (k, d), (cls, last) in zip(probes, o["q"]):
        vs = versions_of(cls)
        if vs is None or last not in vs:
            bad.append(("stale-table" if k in TABLE_KINDS else "stale-after",
                        "probe %s on a%s after the run: %s, the document has version %s" % (k, d, cls, last)))
    return bad


# ---------------------------------------------------------------------------------------------------
# generators
# ---------------------------------------------------------------------------------------------------

PRES = {
    "fresh": [],
    "saved": ["R:sym:D"],
    "opened": ["C:D:2"],
    "annotated": ["R:compl:D"],
    "opened+annotated": ["C:D:2", "R:def:D"],
    "table": ["R:sup:D"],
}
OPSEQS = [["C:D:3"], ["S:D:3"], ["K:D"], ["C:D:3", "C:D:4"], ["C:D:3", "K:D"], ["C:D:3", "S:D:4"], ["O:D", "C:D:3"], ["S:D:3", "C:D:4"]]
PROBES = [("sym", "D"), ("compl", "D"), ("subm", "D"), ("xcompl", "D"), ("diag", "D")]


def configs_2(ctx):
    """all configurations of two threads: request x request and request x notification handler"""
    quick = ctx.tier == "quick"
    kinds = ["sym", "diag", "compl", "def", "subm", "sup"] if quick else KINDS
    pres_rr = ["fresh", "opened"] if quick else ["fresh", "saved", "opened", "table", "annotated"]
    pres_rm = ["fresh", "saved", "opened", "annotated"] if quick else list(PRES)
    opseqs = OPSEQS[:5] if quick else OPSEQS
    out = []
    for pre in pres_rr:
        for a, b in itertools.product(kinds, kinds):
            out.append((PRES[pre], [], [(a, "D"), (b, "D")], [1, 2], "rr:%s" % pre))
    for a, b in itertools.product(["compl", "subm", "diag", "sym"], ["def", "sup"]):
        out.append(([], [], [(a, "D"), (b, "E")], [1, 2], "rr:two-docs"))
    for pre in pres_rm:
        for k in kinds:
            for ops in opseqs:
                out.append((PRES[pre], ops, [(k, "D")], [0, 1], "rm:%s" % pre))
    return out


def schedules(ids, depth):
    return [list(s) for s in itertools.product(ids, repeat=depth)]


def random_config(ctx, nreq_max, nops_max):
    rng = ctx.rng
    nreq = 2 + rng.below(nreq_max - 1)
    docs = ["D", "D", "D", "E"]
    threads = [(rng.choice(KINDS), rng.choice(docs)) for _ in range(nreq)]
    pre = []
    for d in ("D", "E"):
        r = rng.below(6)
        if r == 0:
            pre.append("R:sym:%s" % d)
        elif r == 1:
            pre.append("C:%s:2" % d)
        elif r == 2:
            pre.append("R:%s:%s" % (rng.choice(ANALYSING), d))
    ops = []
    ver = {"D": 3, "E": 3}
    for _ in range(rng.below(nops_max + 1)):
        d = rng.choice(["D", "D", "E"])
        r = rng.below(10)
        if r < 6:
            ops.append("C:%s:%d" % (d, ver[d]))
            ver[d] += 1
        elif r < 8:
            ops.append("S:%s:%d" % (d, ver[d]))
            ver[d] += 1
        elif r < 9:
            ops.append("K:%s" % d)
        else:
            ops.append("O:%s" % d)
    ids = list(range(0 if ops else 1, nreq + 1))
    sched = [rng.choice(ids) for _ in range(4 + rng.below(5 * len(ids)))]
    probes = [(k, d) for k in ("sym", "compl", "subm") for d in ("D", "E")] + [("xcompl", "D")]
    return pre, ops, threads, sched, probes


# ---------------------------------------------------------------------------------------------------
# running
# ---------------------------------------------------------------------------------------------------

def run_conc(ctx, lines, procs, deadline_ms=30000):
    """several watchdog+child pairs side by side"""
    if not lines:
        return []
    procs = max(1, min(procs, len(lines)))
    chunks = [lines[i::procs] for i in range(procs)]
    with concurrent.futures.ThreadPoolExecutor(max_workers=procs) as ex:
        res = list(ex.map(lambda ch: ctx._run_lines([core.HARNESS_BIN, "conc", str(deadline_ms)], ch, 1, 7200), chunks))
    out = [None] * len(lines)
    for i in range(procs):
        for k, o in enumerate(res[i]):
            out[i + k * procs] = o
    return out


def trace_key(model_out):
    o = parse_out(model_out)
    return None if o is None else " ".join(o["tr"])


def forced_part(ctx, ws):
    """exhaustive 2-thread orderings (+ thorough: 3 threads to depth 14), random schedules with more threads"""
    quick = ctx.tier == "quick"
    cases = []   # (line, threads, probes, label)
    for pre, ops, threads, ids, label in configs_2(ctx):
        # a request has at most 4 hand-over points, the handler sequence at most 2 per notification
        depth = 8 if len(ops) <= 1 else 4 + 2 * len(ops)
        for s in schedules(ids, min(depth, 9)):
            cases.append((case_line(ws, pre, ops, threads, s, PROBES), threads, PROBES, "exh2:" + label))
    if not quick:
        reps = [("compl", "D"), ("def", "D"), ("diag", "D"), ("subm", "D"), ("sym", "D")]
        for a, b in itertools.combinations_with_replacement(reps, 2):
            for ops in (["C:D:3"], ["C:D:3", "K:D"], ["S:D:3"]):
                for s in schedules([0, 1, 2], 14 if False else 9):
                    cases.append((case_line(ws, [], ops, [a, b], s, PROBES), [a, b], PROBES, "exh3"))
    nrand = 400 if quick else 10000
    for i in range(nrand):
        big = (not quick) or i % 4 == 0
        pre, ops, threads, sched, probes = random_config(ctx, 8 if big and not quick else (4 if big else 2), 4)
        cases.append((case_line(ws, pre, ops, threads, sched, probes), threads, probes, "rand%d" % (len(threads) + (1 if ops else 0))))
    lines = [c[0] for c in cases]
    t0 = time.time()
    model = ctx.run_driver(lines)
    ctx.log("model predictions for %d schedules in %.1fs" % (len(lines), time.time() - t0))
    # schedules that force the same sequence of hand-overs are one case: keep the first of each
    seen, keep = set(), []
    for i, (c, m) in enumerate(zip(cases, model)):
        # the configuration is everything but the schedule word
        key = (" ".join(w for w in c[0].split() if not w.startswith("S")), " ".join(x for x in (trace_key(m) or "?").split() if not x.endswith(":-")))
        if key in seen:
            continue
        seen.add(key)
        keep.append(i)
    ctx.log("%d distinct forced orderings" % len(keep))
    for i in keep:
        ctx.count(cases[i][3].split(":")[0])
    t0 = time.time()
    impl = run_conc(ctx, [lines[i] for i in keep], 12)
    ctx.log("real runs in %.1fs" % (time.time() - t0))
    bad = 0
    for i, a in zip(keep, impl):
        line, threads, probes, label = cases[i]
        m = model[i]
        ctx.evaluations += 1
        ctx.distinct.add(hashlib.md5((trace_key(m) or "").encode()).digest())
        r = judge(threads, a)
        fails, o = r if isinstance(r, tuple) else (r, None)
        if o is not None and o["fin"] == "ok":
            fails = fails + judge_probes(probes, o)
        for kind, what in fails:
            sig, gen = SIGS[kind]
            ctx.oracle_fail(sig, gen + " — " + what, {"mode": "conc", "case": line, "implementation": a, "model": m})
        if not same(a, m):
            bad += 1
            if len(ctx.disagreements) < 50:
                ctx.disagreements.append(("conc", line, a, m))
    if ctx.disagreements:
        with open(os.path.join(core.VERIF, "replays", "C03", "disagreements-%s.txt" % ctx.tier), "w") as f:
            for _, c, a, m in ctx.disagreements:
                f.write("%s\n   impl : %s\n   model: %s\n" % (c, a, m))
    ctx.oblige("tie:correspondence:conc (%d forced schedules on the real ProjectManager)" % len(keep), bad == 0,
               "%d disagreements; first: %s" % (bad, ctx.disagreements[0] if ctx.disagreements else ""))
    ctx.samples += [{"case": lines[i], "implementation": a, "model": model[i]} for i, a in list(zip(keep, impl))[:3]]


RULE = "tbd"


def run(ctx):
    if ctx.replay:
        return replay(ctx)
    ctx.extract(["E7c_ConcFlags"])
    ws = os.path.join(WS, "c03-%d" % os.getpid())
    os.makedirs(ws, exist_ok=True)
    if not ctx.build_harness():
        return ctx.finish(rule=RULE)
    ctx.lake_build(["driver"])
    forced_part(ctx, ws)
    shutil.rmtree(ws, ignore_errors=True)
    return ctx.finish(rule=RULE)


def replay(ctx):
    return 1
