"""C20 — the worker pool runs every job exactly once and drains before it is dropped (DESIGN §4 C20).

theorems : lean/GoldModel/Props/C20.lean over the transition system lean/GoldModel/Model/Pool.lean
           (every pool size, every job list, every drop position, every interleaving)
tie      : trace conformance — every run of the REAL ThreadPool (harness mode `pool`, hooks of
           src/threadpool.rs under --cfg gold_lsp_verif) yields an event trace that the model's
           step function must accept (driver mode `pooltrace`): implementation behaviours ⊆ model
           behaviours.  A rejected trace is a model disagreement.
oracle   : measured inside the submitted closures, independent of the hooks: execution counters,
           completion flags at the instant `drop` returns, a rendezvous that needs all `size`
           workers at once, long jobs that wait for later jobs, OS thread count, and a deadline
           on `drop` itself.
"""
import hashlib
import json
import os
import threading

from .. import core

SIG = {
    "hang": ("C20:hang", "dropping the pool did not return within the deadline"),
    "panic": ("C20:panic", "the pool (or a worker) panicked during the run"),
    "once": ("C20:job-not-exactly-once", "a submitted job was not executed exactly once"),
    "early": ("C20:drop-returned-early", "drop returned while a submitted job had not finished"),
    "par": ("C20:no-parallelism", "size barrier jobs never ran at the same time (rendezvous of all workers timed out)"),
    "indep": ("C20:long-job-blocks-others", "jobs submitted after a long job did not finish while the long job was running"),
    "joined": ("C20:worker-alive-after-drop", "worker threads were still alive after drop returned"),
    "lockheld": ("C20:lock-held-while-job-runs", "a job was entered while its worker still held the receiver lock"),
}

SLEEPS_Q = [0, 20, 100, 300, 1000]
SLEEPS_T = [0, 20, 100, 300, 1000, 3000]


def fix_barriers(kinds, n):
    """the rendezvous needs `n` parties: keep the number of barrier jobs a multiple of n"""
    idx = [i for i, k in enumerate(kinds) if k == "b"]
    for i in idx[len(idx) - len(idx) % n:]:
        kinds[i] = "i"
    return kinds


def with_pauses(ctx, toks, dens):
    out = []
    for t in toks:
        if dens and ctx.rng.chance(1, dens):
            out.append("y" if ctx.rng.chance(1, 3) else "p%d" % ctx.rng.below(400))
        out.append(t)
    return out


def make_case(ctx, n, m, dpos, profile, sleeps):
    """a case line: the first `dpos` of `m` intended jobs are submitted, then the pool is dropped"""
    rng = ctx.rng
    kinds = []
    for _ in range(m):
        r = rng.below(10)
        if profile == "instant":
            kinds.append("i")
        elif profile == "sleep":
            kinds.append("s%d" % rng.choice(sleeps))
        elif profile == "barrier":
            kinds.append("b" if r < 6 else ("i" if r < 8 else "s%d" % rng.choice(sleeps)))
        elif profile == "long":
            kinds.append("i" if r < 6 else "s%d" % rng.choice(sleeps))
        else:  # mixed
            kinds.append("i" if r < 5 else ("s%d" % rng.choice(sleeps) if r < 8 else "b"))
    kinds = kinds[:dpos]
    if profile == "long" and n >= 2 and len(kinds) >= 2:
        j = rng.below(len(kinds) - 1)
        kinds[j] = "w%d" % (1 + rng.below(min(4, len(kinds) - 1 - j)))
    kinds = fix_barriers(kinds, n)
    dens = rng.choice([0, 0, 2, 4, 8])
    toks = with_pauses(ctx, kinds, dens)
    if rng.chance(1, 2):
        # let the workers come up and block in recv() before the first submission
        toks = ["p%d" % (200 + rng.below(1500))] + toks
    return "pool %d %s" % (n, " ".join(toks + ["D"]))


def gen_cases(ctx):
    cases = []
    corpus = os.path.join(core.VERIF, "corpus", "C20", "cases.txt")
    if os.path.exists(corpus):
        cases += [l.strip() for l in open(corpus) if l.strip() and not l.startswith("#")]
    quick = ctx.tier == "quick"
    sizes = range(1, 5) if quick else range(1, 9)
    maxjobs = 20 if quick else 200
    sleeps = SLEEPS_Q if quick else SLEEPS_T
    reps = 1 if quick else 20
    # systematic part: per size — empty pool, exactly `n` barrier jobs (the all-workers rendezvous),
    # two rendezvous generations, a burst, a long job followed by short ones, drop at every position
    # of a short mixed sequence
    for _ in range(reps):
        for n in sizes:
            cases.append("pool %d D" % n)
            cases.append("pool %d %s D" % (n, " ".join(["b"] * n)))
            cases.append("pool %d %s D" % (n, " ".join(with_pauses(ctx, ["b"] * (2 * n) + ["i"] * 3, 3))))
            cases.append("pool %d %s D" % (n, " ".join(["i"] * maxjobs)))
            # a backlog far beyond any small queue bound at the moment of the drop; and drops issued by the unwinding of a
            # panicking owner (Drop runs while thread::panicking()): both must drain like any other drop
            cases.append("pool %d %s D" % (n, " ".join(["s1000"] * 150)))
            cases.append("pool %d %s U" % (n, " ".join(["s2000"] * 6)))
            # jobs submitted with request ids that repeat (execute_req): the id a job carries must not matter
            cases.append("pool %d R1 %s D" % (n, " ".join(["s1000"] * 12)))
            cases.append("pool %d R3 %s D" % (n, " ".join(["i", "s500", "i", "i", "s2000", "i"] * 2)))
            # jobs still running long after the drop was issued (1.5 s each): drop waits for all of them
            cases.append("pool %d %s D" % (n, " ".join(["s1500000"] * (n + 1))))
            cases.append("pool %d %s U" % (n, " ".join(["i"] * 5 + ["s3000"] * 3)))
            if n >= 2:
                cases.append("pool %d w3 i i i D" % n)
                cases.append("pool %d i w%d %s D" % (n, min(maxjobs - 2, 10), " ".join(["i"] * (maxjobs - 2))))
            m = 6 if quick else 10
            for d in range(0, m + 1):
                cases.append(make_case(ctx, n, m, d, "mixed", sleeps))
    nsys = len(cases)
    target = 200 if quick else 30000
    while len(cases) < target:
        n = ctx.rng.choice(list(sizes))
        m = ctx.rng.below(maxjobs + 1)
        if not quick and ctx.rng.chance(2, 3):
            m = ctx.rng.below(41)          # most runs short, a third up to 200 jobs
        where = ctx.rng.below(5)
        dpos = [0, min(1, m), m // 2, max(0, m - 1), m][where] if ctx.rng.chance(1, 2) else ctx.rng.below(m + 1)
        profile = ctx.rng.choice(["mixed", "mixed", "barrier", "sleep", "instant", "long"])
        cases.append(make_case(ctx, n, m, dpos, profile, sleeps))
    return cases, nsys


def run_pool(ctx, lines, procs, case_deadline_ms=40000, barrier_deadline_ms=8000):
    """several harness processes side by side (the extra load is part of the 'random timing')"""
    procs = max(1, min(procs, len(lines)))
    chunks = [lines[i::procs] for i in range(procs)]
    res = [None] * procs

    def work(i):
        res[i] = ctx._run_lines([core.HARNESS_BIN, "pool", str(case_deadline_ms), str(barrier_deadline_ms)],
                                chunks[i], 1, 3600)

    ths = [threading.Thread(target=work, args=(i,)) for i in range(procs)]
    for t in ths:
        t.start()
    for t in ths:
        t.join()
    out = [None] * len(lines)
    for i in range(procs):
        for k, o in enumerate(res[i]):
            out[i + k * procs] = o
    return out


def parse_out(line):
    """'size=2 subm=4 once=ok … :: tok tok' -> (fields, [tokens]); None if the harness said something else"""
    if " ::" not in line:
        return None
    head, _, tr = line.partition(" ::")
    f = {}
    for w in head.split():
        if "=" in w:
            k, _, v = w.partition("=")
            f[k] = v
    return f, tr.split()


def lock_held_at_begin(tokens):
    """property clause evaluated directly on the hook trace: no job is entered under the lock"""
    held = set()
    for i, t in enumerate(tokens):
        p = t.split(":")
        if p[0] == "lock":
            held.add(p[1])
        elif p[0] == "unl":
            held.discard(p[1])
        elif p[0] == "beg" and p[1] in held:
            return i
    return None


def judge(ctx, case, out, verdict):
    """implementation-level oracle on one run; returns the list of failure kinds"""
    kinds = []
    po = parse_out(out)
    if po is None:
        kinds.append("panic" if out.startswith("panic") or out.startswith("<no-output") else "panic")
        return kinds, None
    f, toks = po
    if f.get("drop") == "hang":
        kinds.append("hang")
    elif f.get("drop") == "panic":
        kinds.append("panic")
    else:
        for k in ("once", "early", "joined"):
            if f.get(k) != "ok":
                kinds.append(k)
        for k in ("par", "indep"):
            if f.get(k) not in ("ok", "na"):
                kinds.append(k)
    if lock_held_at_begin(toks) is not None:
        kinds.append("lockheld")
    return kinds, po


def run(ctx):
    ctx.trusted += [
        "Lean 4.33 kernel + leanchecker; axioms ⊆ {propext, Classical.choice, Quot.sound}",
        "hand-written transition system lean/GoldModel/Model/Pool.lean, tied to src/threadpool.rs by trace conformance only: "
        "every hook trace of a real run must be a path of the model (stepFn, proved equivalent to Step)",
        "modelled, not verified: std::sync::mpsc is a FIFO channel, Mutex a non-reentrant lock, recv blocks on an empty queue, "
        "JoinHandle::join returns after the thread function returned; jobs return (do not panic or loop)",
        "the hooks of src/threadpool.rs (TracedReceiver/TracedGuard log inside the critical section; one global log mutex gives a total "
        "order consistent with happens-before), harness/src/modes/pool.rs, lean_exe compilation of the driver",
        "real simultaneous execution and scheduler fairness are measured (barrier / long-job runs), not proved",
    ]
    ctx.assumptions += [
        "one submitting thread that also drops the pool (as in main.rs); submitted closures return and do not panic",
        "pool size >= 1 (ThreadPool::new asserts it)",
    ]
    if ctx.replay:
        return replay(ctx)
    ctx.prove("GoldModel.Props.C20")
    if not ctx.build_harness():
        return ctx.finish(rule=RULE)
    cases, nsys = gen_cases(ctx)
    ctx.log("%d runs (%d systematic/corpus, %d random)" % (len(cases), nsys, len(cases) - nsys))
    ctx.phase("real-runs")
    outs = run_pool(ctx, cases, 4 if ctx.tier == "quick" else 8)
    ctx.phase("trace-conformance")
    parsed = []
    tlines = []
    for c, o in zip(cases, outs):
        kinds, po = judge(ctx, c, o, None)
        parsed.append((kinds, po))
        if po is not None:
            tlines.append("pooltrace %s %s" % (po[0].get("size", "0"), " ".join(po[1])))
        else:
            tlines.append("pooltrace 0")
    verdicts = ctx.run_driver(tlines)
    bad_trace = 0
    skipped = 0
    maxpar_hist = {}
    for c, o, (kinds, po), v in zip(cases, outs, parsed, verdicts):
        if o == "skipped-after-hang":
            skipped += 1
            continue
        ctx.evaluations += 1
        n = int(c.split()[1])
        ctx.count("size=%d" % n)
        for k in kinds:
            sig, what = SIG[k]
            ctx.oracle_fail(sig, what, {"mode": "pool", "case": c, "implementation": o[:4000], "acceptor": v})
        if po is None:
            continue
        f, toks = po
        nj = sum(1 for t in toks if t.startswith("sub:"))
        ctx.count("jobs:%s" % ("0" if nj == 0 else "1-20" if nj <= 20 else "21-100" if nj <= 100 else "101-200"))
        for t in c.split()[2:]:
            ctx.count("op:" + t[0])
        if nj >= 1:
            ctx.distinct.add(hashlib.md5((" ".join(toks)).encode()).digest())
        ok = v.startswith("accepted")
        fin = dict(w.split("=", 1) for w in v.split()[1:] if "=" in w)
        if ok and f.get("drop") == "ret":
            # a completed run must end in `done`; the parallelism seen by the acceptor can only be
            # larger than the one measured inside the closures (beg/end enclose the closure)
            if fin.get("final") != "done" or (f.get("maxconc", "0").isdigit() and int(fin.get("maxpar", "0")) < int(f["maxconc"])):
                ok = False
        if ok:
            mp = fin.get("maxpar", "?")
            maxpar_hist["n=%d maxpar=%s" % (n, mp)] = maxpar_hist.get("n=%d maxpar=%s" % (n, mp), 0) + 1
        else:
            bad_trace += 1
            if len(ctx.disagreements) < 50:
                ctx.disagreements.append(("pooltrace", c, o[:4000], v))
    ctx.oblige("tie:trace-conformance:pooltrace (%d real traces accepted by the model)" % (ctx.evaluations - bad_trace),
               bad_trace == 0, "%d traces rejected; first: %s" % (bad_trace, ctx.disagreements[0] if ctx.disagreements else ""))
    if skipped:
        ctx.notes.append("%d cases not run after a hang" % skipped)
        ctx.log("%d cases skipped after a hang" % skipped)
    full = [i for i, (k, po) in enumerate(parsed) if po and po[0].get("par") == "ok"]
    ctx.samples = []
    for i in ([full[0]] if full else []) + [nsys, len(cases) - 1]:
        if 0 <= i < len(cases):
            o = outs[i]
            ctx.samples.append({"case": cases[i], "implementation": o if len(o) < 1500 else o[:1500] + " …", "acceptor": verdicts[i]})
    return ctx.finish(rule=RULE, extra={
        "traces_validated_against_impl": ctx.evaluations - bad_trace,
        "runs_with_all_worker_rendezvous": len(full),
        "observed_parallelism": dict(sorted(maxpar_hist.items())),
        "notes": ctx.notes,
    })


RULE = ("runs of the real ThreadPool: per size n (quick 1..4, thorough 1..8) a systematic family (empty pool; exactly n barrier jobs; 2n barrier jobs "
        "+ instants with pauses; a burst of instant jobs; long job followed by short ones; a mixed sequence dropped at every position) and random "
        "runs (jobs 0..20 quick / 0..200 thorough; kinds instant / sleeping / barrier / long; drop position anywhere; random pauses and yields of the "
        "submitting thread; several harness processes side by side as timing noise). evaluations = runs executed; distinct_nontrivial = number of "
        "distinct hook traces among runs with at least one submitted job")


def replay(ctx):
    d = json.load(open(ctx.replay))
    case = d.get("case", {})
    line = case.get("case") if isinstance(case, dict) else case
    if not line:
        dis = d.get("disagreements") or []
        if dis:
            line = dis[0].get("case")
    if not line:
        print("replay file names no input:", json.dumps(d.get("broken", d), indent=1)[:3000])
        return 1
    ctx.build_harness()
    ctx.lake_build(["driver"])
    reps = 25
    outs = run_pool(ctx, [line] * reps, 4)
    bad = 0
    shown = 0
    for o in outs:
        kinds, po = judge(ctx, line, o, None)
        v = ctx.run_driver(["pooltrace %s %s" % (po[0].get("size", "0"), " ".join(po[1]))])[0] if po else "-"
        fail = bool(kinds) or not v.startswith("accepted")
        bad += fail
        if fail and shown < 3:
            shown += 1
            print("case          :", line)
            print("implementation:", o[:3000])
            print("acceptor      :", v)
            print("failed        :", ", ".join(SIG[k][0] for k in kinds) or "trace rejected by the model")
    print("%d of %d repetitions fail" % (bad, reps))
    if bad:
        print("VIOLATION property=C20 replay=%s" % ctx.replay)
        return 1
    print("the implementation satisfies the property on this case (%d repetitions)" % reps)
    return 0
