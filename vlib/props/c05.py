"""C05 — tokens partition the source and carry exact start positions (DESIGN §4 C05).

theorems : lean/GoldModel/Props/C05.lean  (M-LEX: order, value at offset, gaps, true line/column,
           keyword classification; all texts, no bound) + the table facts in Lemmas/Lexer.lean
tie 1    : translator items E1_TokenKind, E2_Keywords, E3_Symbols (regenerated from src/lexer on every run)
tie 2    : correspondence `lex` — GoldLexer::lex on the text vs the model, token by token
oracle   : driver mode `lexspec` evaluates the property itself (the definitions of Props/C05.lean)
           on the *implementation's* tokens and errors
"""
import itertools
import os

from .. import core

ALPHA = ["a", "B", "_", "1", ".", " ", "\n", "\r", "'", '"', ";", "#", "<", "=", "+", "&", "$"]
SIGS = {"order", "value-at-offset", "gap", "line-col", "keyword-case"}
BATCH = 1_000_000

RULE = ("cases = corpus (corpus/C05/cases.txt) + EVERY string up to length N over the 17-symbol alphabet "
        "{a,B,_,1,.,space,LF,CR,',\",;,#,<,=,+,&,$} (N = 5 quick, 6 thorough; exhaustive) + random long texts "
        "(keywords of the extracted table in random letter case, identifiers, numbers, every operator, both kinds of "
        "literals incl. ones spanning lines and unterminated ones, comments, LF/CRLF/lone-CR line ends, non-ASCII and "
        "unknown characters). Each case is lexed by the real GoldLexer and by the model (outputs must be equal) and the "
        "property clauses are evaluated on the real output. distinct_nontrivial = number of distinct implementation "
        "outputs with at least one token or error, counted over corpus + random + the exhaustive strings of length <= 4 "
        "(longer exhaustive strings are evaluated but not counted, to bound memory)")


def keywords():
    """keys of the generated keyword table (so that the soups follow the code's current table)"""
    import re
    p = os.path.join(core.LEAN, "GoldModel", "Gen", "E2_Keywords.lean")
    return re.findall(r'^\s*\("([^"]*)", \.', open(p).read(), re.M)


def rand_case(rng, kws):
    out = []
    n = 3 + rng.below(40)
    eol = rng.choice(["\n", "\r\n", "\n", "\r\n", None])   # None = mixed, incl. lone CR now and then

    def nl():
        if eol is not None:
            return eol
        return rng.choice(["\n", "\r\n", "\n", "\r\n", "\r"])

    def recase(w):
        return "".join(c.upper() if rng.chance(1, 2) else c.lower() for c in w)

    for _ in range(n):
        k = rng.below(20)
        if k < 5:
            out.append(recase(rng.choice(kws)))
        elif k < 7:
            w = rng.choice(["x", "Foo", "_a1", "endx", "iff", "class_", "ORd", "tO0", "I", "zz9_"])
            out.append(recase(w) if rng.chance(1, 2) else w)
        elif k < 9:
            out.append(rng.choice(["0", "12", "3.14", "1e5", "7abc", "0x1F", "9..9", "42.", "18446744073709551616", "1e400", "4294967296"]))
        elif k < 12:
            out.append(rng.choice(["(", ")", "[", "]", "{", "}", "*", "/", "%", "@", ".", "=", ",", "<", ">", "+", "-", ":", "&",
                                   "<<", "<=", "<>", ">>", ">=", "&&", "++", "+=", "--", "-=", ":=", "#", "#65", "#1 ", "#4294967295", "#4294967296", "#99999999999999999999", "#00000000000000000000065"]))
        elif k < 14:
            q = rng.choice(["'", '"'])
            body = []
            for _ in range(rng.below(6)):
                body.append(rng.choice(["a", "b c", nl(), "''" if q == "'" else "'", "é", "漢", ";", "#", " ", nl()]))
            closing = "" if rng.chance(1, 12) else q
            out.append(q + "".join(body) + closing)
        elif k < 15:
            out.append(";" + rng.choice(["", " note", " 'quoted' \"x\"", " é漢😀", ";;", " end"]) + nl())
        elif k < 16:
            out.append(rng.choice(["$", "?", "!", "~", "^", "\\", "|", "`", "é", "ß", "漢", "😀", " ", "İ", "ǆ"]))
        elif k < 18:
            out.append(nl() + rng.choice(["", " ", "\t", "  "]))
        else:
            out.append(rng.choice([" ", "\t", "  "]))
        if rng.chance(2, 3):
            out.append(rng.choice([" ", " ", "\t", nl(), ""]))
    # one text in forty starts with a byte order mark (a UTF-8 file with BOM, read lossily, keeps it as U+FEFF)
    return ("\ufeff" if rng.chance(1, 40) else "") + "".join(out)


def exhaustive(n):
    ea = [core.esc(c) for c in ALPHA]
    for L in range(n + 1):
        for s in itertools.product(ea, repeat=L):
            yield "".join(s)


def run(ctx):
    ctx.trusted += [
        "Lean 4.33 kernel + leanchecker; axioms ⊆ {propext, Classical.choice, Quot.sound}",
        "hand-written model lean/GoldModel/Model/Lexer.lean; its tables are the generated Gen/E1..E3, its function bodies are tied to src/lexer/mod.rs by the `lex` correspondence only",
        "vlib/extractors/{tokens,lexer}.py transcribe enum TokenType, the arms of create_word_token / read_symbol / read_double_char_op and the character classes (fail closed)",
        "str::to_uppercase as an arbitrary function `upper` in the theorems, ASCII upper-casing in executable runs (words are [A-Za-z_][A-Za-z0-9_]*, so only ASCII reaches it)",
        "String::len as the sum of Char.utf8Size (end columns only; the property is about start positions)",
        "harness/src/modes/lex.rs (calls GoldLexer::new().lex), lean_exe compilation of the driver, specExtent of Drive/LexSpec.lean (checked against the model's ghost extents on every case)",
    ]
    ctx.assumptions += [
        "one fresh GoldLexer per text (as parser callers do); the lexer is never re-used across texts",
        "a lone CR is not a line end (neither in the code nor in trueLineCol); the line/column clause of the oracle is evaluated on texts with LF or CRLF line ends, the theorem lex_linecol_all holds for all texts",
    ]
    if ctx.replay:
        return replay(ctx)
    ctx.extract(["E1_TokenKind", "E2_Keywords", "E3_Symbols"])
    ctx.prove("GoldModel.Props.C05")
    if any(n.startswith("thm:build") for n, _, _ in ctx.broken()):
        # the driver imports the property module (the oracle evaluates its definitions): without a
        # fresh driver the correspondence would compare against a stale model — stop here
        import re
        out = getattr(ctx, "lean_out", "")
        stm = re.findall(r"^error: (\S+:\d+:\d+: .*(?:\n(?!error|warning|info|trace|✖|✔|⚠).*){0,4})", out, re.M)
        ctx.oblige("thm:statements-that-no-longer-check", False, "\n".join(stm[:6]) or out[-1500:])
        return ctx.finish(rule=RULE)
    if not ctx.build_harness():
        return ctx.finish(rule=RULE)
    if not os.path.exists(core.DRIVER_BIN):
        ctx.oblige("tie:driver-built", False, "lean driver missing (the theorem build failed?)")
        return ctx.finish(rule=RULE)

    nmax = 5 if ctx.tier == "quick" else 6
    nrand = 20000 if ctx.tier == "quick" else 200000
    kws = keywords()
    corpus = []
    cp = os.path.join(core.VERIF, "corpus", "C05", "cases.txt")
    if os.path.exists(cp):
        corpus = [l.rstrip("\n") for l in open(cp) if l.strip() and not l.startswith("#")]
    rand = [core.esc(rand_case(ctx.rng, kws)) for _ in range(nrand)]
    ctx.count("corpus", len(corpus))
    ctx.count("random long texts", len(rand))
    ctx.dist["random text length (chars) min/median/max"] = "%d/%d/%d" % (
        (lambda l: (l[0], l[len(l) // 2], l[-1]))(sorted(len(core.unesc(r)) for r in rand)))

    stats = {"bad_corr": 0, "bad_extent": 0, "tokens": 0, "errors": 0, "with_error": 0, "multiline_literal": 0}
    first_dis = []
    sigcount = {}

    def process(texts, counted):
        cases = ["lex =" + t for t in texts]
        impl = ctx.run_harness("lex", cases)
        model = ctx.run_driver(cases)
        verdict = ctx.run_driver(["lexspec =%s %s" % (t, a) for t, a in zip(texts, impl)])
        for t, c, a, b, v in zip(texts, cases, impl, model, verdict):
            if a != b:
                stats["bad_corr"] += 1
                if len(ctx.disagreements) < 50:
                    ctx.disagreements.append(("lex", c, a, b))
            if v != "ok":
                for w in v.split(" "):
                    if w in SIGS:
                        sigcount[w] = sigcount.get(w, 0) + 1
                        if sigcount[w] > 300 and len(t) > 12:
                            continue        # enough witnesses of this clause; keep only further short ones
                        ctx.oracle_fail("C05:" + w, "GoldLexer::lex output violates the %s clause of the property" % w,
                                        {"mode": "lex", "case": c, "text": core.unesc(t), "implementation": a, "model": b, "failed_clauses": v})
                    elif w == "extent-model":
                        stats["bad_extent"] += 1
                        first_dis.append(c)
                    else:
                        ctx.oracle_fail("C05:crash-or-shape", "the implementation's output could not be read back (%s)" % a[:80],
                                        {"mode": "lex", "case": c, "text": core.unesc(t), "implementation": a, "model": b, "failed_clauses": v})
        ctx.evaluations += len(cases)
        if counted:
            for a in impl:
                if a != "-":
                    ctx.distinct.add(a)
        for a in impl[:: max(1, len(impl) // 5000)]:     # sampled output statistics
            stats["tokens"] += a.count("t,")
            stats["errors"] += a.count(" e,") + a.startswith("e,")
        return impl

    # corpus and random first (small), then the exhaustive space in batches
    ctx.phase("corpus+random")
    impl = process(corpus + rand, True)
    off = len(corpus)
    ctx.samples = [{"text": core.unesc(rand[i]), "implementation": impl[off + i]} for i in (0, 1, 2) if i < len(rand)]
    for t, a in zip(rand, impl[off:]):
        if " e," in a or a.startswith("e,"):
            stats["with_error"] += 1
        if "t,StringLiteral," in a and "%{a}" in a.split("t,StringLiteral,", 1)[1].split(",", 1)[0]:
            stats["multiline_literal"] += 1
    ctx.phase("exhaustive")
    batch = []

    def flush(b, counted):
        if b:
            process(b, counted)
    for s in exhaustive(nmax):
        batch.append(s)
        if len(batch) >= BATCH:
            flush(batch, False)
            batch = []
    # strings of length ≤ 4 are at the front of the enumeration; count their distinct outputs separately
    flush(batch, False)
    n4 = sum(17 ** k for k in range(5))
    small_cases = list(itertools.islice(exhaustive(4), n4))
    impl4 = ctx.run_harness("lex", ["lex =" + t for t in small_cases])
    for a in impl4:
        if a != "-":
            ctx.distinct.add(a)
    for L in range(nmax + 1):
        ctx.count("exhaustive len=%d" % L, 17 ** L)
    ctx.samples += [{"text": core.unesc(small_cases[i]), "implementation": impl4[i]} for i in (n4 - 1, n4 // 2)]
    ctx.dist["random texts with >=1 lexical error"] = stats["with_error"]
    ctx.dist["random texts with a literal spanning lines"] = stats["multiline_literal"]
    ctx.dist["tokens / errors in the sampled outputs"] = "%d / %d" % (stats["tokens"], stats["errors"])
    ctx.oblige("tie:correspondence:lex (%d cases)" % ctx.evaluations, stats["bad_corr"] == 0,
               "%d disagreements; first: %s" % (stats["bad_corr"], ctx.disagreements[0] if ctx.disagreements else ""))
    ctx.oblige("tie:spec-extent = model ghost extent (%d cases)" % ctx.evaluations, stats["bad_extent"] == 0,
               "%d cases; first: %s" % (stats["bad_extent"], first_dis[:1]))
    if sigcount:
        ctx.dist["oracle failures per clause (all cases)"] = dict(sigcount)
    ctx.phase("verdict")
    return ctx.finish(rule=RULE, extra={
        "exhaustive": True,
        "exhaustive_space": "all %d strings of length <= %d over the 17-symbol alphabet" % (sum(17 ** k for k in range(nmax + 1)), nmax),
        "extracted": getattr(ctx, "extract_info", {}),
    })


def replay(ctx):
    import json
    d = json.load(open(ctx.replay))
    case = d.get("case", {})
    line = case.get("case") if isinstance(case, dict) else case
    if not line:
        ds = d.get("disagreements") or []
        if ds:
            line = ds[0].get("case")
    if not line:
        print("replay file names no input:", json.dumps(d.get("broken", d), indent=1)[:3000])
        return 1
    ctx.build_harness()
    ctx.lake_build(["driver"])
    text = line.split(" ", 1)[1] if " " in line else "="
    impl = ctx.run_harness("lex", [line])[0]
    model = ctx.run_driver([line])[0]
    old = ctx.run_driver(["lexold " + text])[0]
    verdict = ctx.run_driver(["lexspec %s %s" % (text, impl)])[0]
    print("text           :", repr(core.unesc(text[1:])))
    print("implementation :", impl)
    print("model          :", model)
    print("model (pinned) :", old)
    print("property       :", verdict)
    if verdict != "ok" or impl != model:
        print("VIOLATION property=C05 replay=%s" % ctx.replay)
        return 1
    print("implementation satisfies the property on this case and agrees with the model")
    return 0
