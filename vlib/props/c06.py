"""C06 — well-formed programs parse to the intended tree without diagnostics (DESIGN §4 C06).  PARTIAL.

theorems : lean/GoldModel/Props/C06.lean — ladder_spec (the operator ladder regenerated from
           body_parser.rs equals the property's ladder and is the one the model uses),
           foldBin_left_assoc (every level associates to the left, unboundedly),
           operator_pairs (all 23 x 23 operator pairs, kernel-evaluated on the model:
           `a op1 b op2 c` binds by precedence and associates to the left), range lemmas;
           lean/GoldModel/Props/C06Expr.lean — expr_roundtrip / level_roundtrip / expr_roundtrip_memo: parse_expr (print e ++ k)
           = (tree e, k, no diagnostics) for every well-formed expression e of the full expression grammar (unbounded);
           lean/GoldModel/Props/C06Prog.lean — stmt_roundtrip / body_roundtrip / block_roundtrip / decl_roundtrip / prog_roundtrip /
           prog_roundtrip_memo / prog_roundtrip_ex: parse_gold (print p) = (tree p, no diagnostics) for every well-formed PROGRAM p
           (statements, declarations, types; any size and nesting; expressions abstract, instantiated with Ex);
           lean/GoldModel/Props/C06ProgText.lean — prog_text_roundtrip: the same from the TEXT (lex_render_layout composed).
           lean/GoldModel/Props/C06Ranges.lean — expr_ranges_ok / expr_encloses / expr_range / expr_maxLine: for EVERY expression
           whose tokens are in source order the intended tree has start <= end everywhere, every node encloses its children
           (recursively), its range is the span first..last token of the tree, no line beyond the last token; parsed_expr_ranges:
           the same for the tree parse_expr returns on every well-formed expression (composition with expr_roundtrip).
tie      : E5 (operator ladder) regenerated from the source; `parse` correspondence; `exspec` / `progspec`: the Lean specification
           (Ex / Prog: toks, tree, wfb) evaluated on the real lexer's tokens must re-print them and equal the tree the real parser
           built (ranges and selection ranges included), zero diagnostics.
oracle   : grammar-directed generator that emits text + expected tree (vlib/gen/wf.py):
           parse_gold(lex(text)) must have zero diagnostics and the expected shape; every
           node's range encloses its children's; the innermost node at an identifier is it.
"""
import re

from .. import core, ranges, sexp
from ..gen import wf, parsecases, exspec, words, progspec

RULE = ("cases = well-formed programs from the grammar-directed generator vlib/gen/wf.py (every construct of the supported grammar, depth/size bounded) "
        "under random layout and keyword case, + every ordered pair of binary operators (a op1 b op2 c), + every block statement nested in every "
        "other block statement; distinct_nontrivial = distinct expected trees")

OPWORDS = wf.KEYWORDS


def norm_shape(n):
    ident = n.ident
    # the layout step re-cases every word that is a keyword — also where the grammar takes it as a NAME (`proc Top`)
    if n.kind in ("bin_op", "unary_op") or ident.lower() in OPWORDS or any(p_.lower() in OPWORDS for p_ in ident.split("#")):
        ident = ident.lower()
    # comments are layout (the token parsers skip them); they are not constructs of the tree under comparison
    return "(%s %s%s)" % (n.kind, ident, "".join(" " + norm_shape(k) for k in n.kids if k.kind != "comment"))


def norm_expected(n):
    kind, ident, kids = n
    if kind in ("bin_op", "unary_op") or ident.lower() in OPWORDS or any(p_.lower() in OPWORDS for p_ in ident.split("#")):
        ident = ident.lower()
    return "(%s %s%s)" % (kind, ident, "".join(" " + norm_expected(k) for k in kids if k[0] != "comment"))


def innermost_ok(root, line_toks, real=None):
    """the innermost node at the position of every identifier token is a node named by it; `real` = the answers of the
    services' own position lookup (harness mode `encase`: manager::utils::search_encasing_node on the annotated tree):
    wherever the tree has a node named by the identifier as its innermost node, the real lookup must return a node of that name"""
    bad = []
    found = {}
    for w in (real or "").split(" "):
        if "=" in w:
            k, v = w.split("=", 1)
            found[k] = v.split("|")
    nodes = list(root.walk())
    for w in line_toks:
        p = w.split(":")
        if p[0] != "Identifier":
            continue
        l, c = int(p[2]), int(p[3])
        val = core.unesc(p[1])
        best = None
        for n in nodes:
            if n.kind == "root":
                continue
            if (n.rng[0], n.rng[1]) <= (l, c) <= (n.rng[2], n.rng[3]):
                size = (n.rng[2] - n.rng[0], n.rng[3] - n.rng[1] if n.rng[2] == n.rng[0] else 10 ** 6)
                if best is None or size < best[0]:
                    best = (size, n)
        if best is None:
            continue    # identifiers that are not kept as nodes (e.g. names inside uses lists, record parents) are not addressed
        # names kept as attributes of a node (uses lists, the parent of a class, options / inverse of a reference type) are not nodes
        if best[1].ident != val and best[1].kids == [] and best[1].kind not in ("uses", "class", "type_ref"):
            bad.append((val, (l, c), best[1].kind, best[1].ident))
        elif best[1].ident == val and real is not None and best[1].kind in ("terminal", "method_call", "array_access", "type_basic"):
            f = found.get("%d:%d" % (l, c))
            if f is None or core.unesc(f[1]) != val:
                bad.append((val, (l, c), "position lookup of the services returns", "%s %s" % (f[0], core.unesc(f[1])) if f else "nothing"))
    return bad


def run(ctx):
    ctx.trusted += [
        "Lean 4.33 kernel + leanchecker; axioms ⊆ {propext, Classical.choice, Quot.sound}; `decide +kernel` for the finite operator-pair table",
        "translator items E5 (operator ladder of body_parser.rs) and E6 (order of the alternatives of every ordered choice of mod.rs / body_parser.rs)",
        "the generator vlib/gen/wf.py IS the statement of 'the tree the grammar prescribes' for the oracle (a second, independent description of the grammar)",
    ]
    ctx.assumptions += [
        "PARTIAL: the round-trip theorem parse(print p) = (tree p, no diagnostics) is proved for EXPRESSIONS (Props/C06Expr: the full grammar of "
        "parse_expr) and for PROGRAMS (Props/C06Prog, unbounded): statements (assignment to any member-access chain, expression statements = every expression parse_assignment leaves alone incl. calls `f(x)` / `a.b.c(1)`, return, exit/break/continue, var [absolute], type, uses, const; if/elseif/else, while, loop, for [step], foreach, repeat/until, switch/when/else — statement lists of any length nested to any depth), declarations (proc/func with Name#Event, parameters, modifiers, forward/external without body, body cut out by take_until; const [multiLang], fields with memory/modifiers/absolute, class [(parent)], module, uses, type, annotations before class/module/type/field and on their own), types (names, sized, refTo/listOf [options] [inverse], ranges, sets, pointers, arrays, instanceOf, enumerations, sums, records, proc/func types); "
        "NOT covered by a theorem: comments (the token parsers skip them, so where a comment becomes a node depends on what follows it), OQL, "
        "annotations inside enumerations and records; these, and the implementation itself, are covered by the generator oracle and the ties "
        "(exspec, progspec: the Lean specification evaluated on the real lexer's tokens = the tree the real parser built)",
    ]
    if ctx.replay:
        return replay(ctx)
    ctx.extract(["E5_OperatorLadder", "E6_AltOrders", "E6b_TokenLists"])
    ctx.prove("GoldModel.Props.C06")
    ctx.prove("GoldModel.Props.C06Expr")
    ctx.prove("GoldModel.Props.C06Alts")
    ctx.prove("GoldModel.Props.C06Text")
    ctx.prove("GoldModel.Props.C06Prog")
    ctx.prove("GoldModel.Props.C06ProgText")
    ctx.prove("GoldModel.Props.C06Ranges")
    if not ctx.build_harness():
        return ctx.finish(rule=RULE)
    q = ctx.tier == "quick"
    texts, expected = [], []
    # every ordered pair of binary operators
    ops = [(lv, op) for lv, l in enumerate(wf.LEVELS) for op in l]
    for (l1, o1) in ops:
        for (l2, o2) in ops:
            texts.append("proc P\n x = a %s b %s c\nendproc\n" % (o1, o2))
            if l1 <= l2:
                e = ("bin_op", o2, [("bin_op", o1, [("terminal", "a", []), ("terminal", "b", [])]), ("terminal", "c", [])])
            else:
                e = ("bin_op", o1, [("terminal", "a", []), ("bin_op", o2, [("terminal", "b", []), ("terminal", "c", [])])])
            body = ("bin_op", "=", [("terminal", "x", []), e])
            expected.append(("root", "", [("proc_decl", "P", [("terminal", "P", []), ("method_body", "method_body", [body])])]))
            ctx.count("operator-pair")
    # dot binds tighter than everything
    for (l1, o1) in ops:
        texts.append("proc P\n x = a.b %s c.d\nendproc\n" % o1)
        dot = lambda a, b: ("bin_op", ".", [("terminal", a, []), ("terminal", b, [])])
        expected.append(("root", "", [("proc_decl", "P", [("terminal", "P", []), ("method_body", "method_body",
                        [("bin_op", "=", [("terminal", "x", []), ("bin_op", o1, [dot("a", "b"), dot("c", "d")])])])])]))
        ctx.count("dot-vs-operator")
    # every block statement nested in every other
    blocks = {
        "if": ("if c\n%s\nendif", lambda k: ("if", "if", [("cond_block", "cond_block", [("terminal", "c", [])] + k)])),
        "for": ("for i = 1 to 9\n%s\nendfor", lambda k: ("for", "for", [("bin_op", "to", [("terminal", "1", []), ("terminal", "9", [])])] + k)),
        "foreach": ("foreach v in l\n%s\nendfor", lambda k: ("foreach", "foreach", [("bin_op", "in", [("terminal", "v", []), ("terminal", "l", [])])] + k)),
        "while": ("while c\n%s\nendwhile", lambda k: ("while", "while", [("cond_block", "cond_block", [("terminal", "c", [])] + k)])),
        "loop": ("loop\n%s\nendloop", lambda k: ("loop", "loop", k)),
        "switch": ("switch s\nwhen 1\n%s\nendwhen\nendswitch", lambda k: ("switch", "switch", [("terminal", "s", []), ("when", "when_block", [("set_literal", "set_literal", [("terminal", "1", [])])] + k)])),
        "repeat": ("repeat\n%s\nuntil c", lambda k: ("repeat", "repeat", [("cond_block", "cond_block", [("terminal", "c", [])] + k)])),
    }
    leaf_t, leaf_e = "y = 1", ("bin_op", "=", [("terminal", "y", []), ("terminal", "1", [])])
    for a, (ta, ea) in blocks.items():
        for b, (tb, eb) in blocks.items():
            texts.append("proc P\n" + (ta % (tb % leaf_t)) + "\nendproc\n")
            expected.append(("root", "", [("proc_decl", "P", [("terminal", "P", []), ("method_body", "method_body", [ea([eb([leaf_e])])])])]))
            ctx.count("nested-blocks")
    # random programs
    for i in range(4000 if q else 60000):
        e = wf.Emit(ctx.rng)
        toks, tree = e.program(3)
        texts.append(wf.render(ctx.rng, toks))
        expected.append(tree)
        ctx.count("generated-program")
    expr_spec(ctx, 3000 if q else 60000, 6)
    words.render_tie(ctx, 3000 if q else 60000)
    prog_spec(ctx, 2500 if q else 50000, 3)
    lines = parsecases.texts_to_lines(ctx, texts)
    ctx.log("%d programs" % len(lines))
    impl = ctx.run_harness("parse", lines, timeout=1200)
    model = ctx.run_driver(lines, timeout=1200)
    ctx.compare("parse", lines, impl, model)
    encased = ctx.run_harness("encase", ["encase" + l[5:] if l.startswith("parse") else l for l in lines], timeout=1200)
    for text, exp, line, a, enc_real in zip(texts, expected, lines, impl, encased):
        case = {"mode": "text", "text": text, "case": line}
        t, d = sexp.field(a, "T"), sexp.field(a, "D")
        if t is None:
            ctx.oracle_fail("C06:crash", "no tree", dict(case, implementation=a[:300]))
            continue
        ctx.distinct.add(norm_expected(exp))
        if d:
            ctx.oracle_fail("C06:diagnostic-on-well-formed-program", "a well-formed program produced a diagnostic: %s" % core.unesc(d)[:200], case)
            continue
        root = sexp.parse(t)
        got, want = norm_shape(root), norm_expected(exp)
        if got != want:
            i = 0
            while i < min(len(got), len(want)) and got[i] == want[i]:
                i += 1
            ctx.oracle_fail("C06:tree-differs-from-intended", "parsed tree differs from the tree the grammar prescribes near …%s" % want[max(0, i - 60):i + 60],
                            dict(case, got=got[max(0, i - 200):i + 200], want=want[max(0, i - 200):i + 200]))
            continue
        enc = ranges.encloses(root)
        if enc:
            what, p, k = enc[0]
            ctx.oracle_fail("C06:range-does-not-enclose-child", "node %s %s %s does not enclose child %s %s %s" % (p.kind, p.ident, p.rng, k.kind, k.ident, k.rng), case)
            continue
        inner = innermost_ok(root, line.split(" ")[1:], enc_real)
        if inner:
            ctx.oracle_fail("C06:innermost-node-is-not-the-identifier", "at identifier %s %s the innermost node is %s %s" % inner[0], case)
    ctx.samples = [{"text": texts[i][:400], "expected": norm_expected(expected[i])[:400]} for i in (0, len(texts) - 1, len(texts) // 2)]
    return ctx.finish(rule=RULE, extra={"exhaustive": True, "exhaustive_space": "all ordered pairs of the 23 binary operators; every block statement nested in every other"})


def dump_node(n):
    return "(%s %s %d:%d-%d:%d%s)" % ((n.kind, core.esc(n.ident)) + tuple(n.rng) + ("".join(" " + dump_node(k) for k in n.kids),))


# constructors of `Ex` / `Args` (call0 / set0 = empty list, 1 = one item, 2 = two or more: `Args.nil`, `.one`, `.more`)
EX_CONSTRUCTORS = ["atom", "paren", "bin", "pre", "post", "dot", "call0", "call1", "call2", "index", "set0", "set1", "set2"]


def expr_spec(ctx, n, depth):
    """tie of the SPEC side of `expr_roundtrip` (Ex.toks / Ex.tree / Ex.wfb, Lean) to the implementation: random abstract
    expressions are printed, lexed and parsed by the real code; the Lean spec, given the real tokens, must say `well formed`
    and its `Ex.tree` must be the subtree the implementation built for the right-hand side (kinds, names, ranges)"""
    cases = []
    used = {}
    for i in range(n):
        words, prefix, cons = exspec.case(ctx.rng, 1 + ctx.rng.below(depth))
        sep = [ctx.rng.choice([" ", " ", "  ", " \n  "]) for _ in words]
        text = "proc P\n x = " + "".join(w + s for w, s in zip(words, sep)) + "\nendproc\n"
        cases.append((text, words, prefix, cons))
        ctx.count("expr-spec")
    lines = parsecases.texts_to_lines(ctx, [c[0] for c in cases])
    impl = ctx.run_harness("parse", lines, timeout=1200)
    spec_lines = []
    for (text, words, prefix, cons), line in zip(cases, lines):
        toks = line.split(" ")[1:]
        # proc P x = <expr words> endproc
        ex = toks[4:4 + len(words)]
        spec_lines.append("exspec 8 " + " ".join(ex[int(w[1:])] if w.startswith("#") and int(w[1:]) < len(ex) else w for w in prefix))
    spec = ctx.run_driver(spec_lines, timeout=1200)
    ok, bad = 0, []
    for (text, words, prefix, cons), line, a, sp in zip(cases, lines, impl, spec):
        case = {"mode": "text", "text": text, "case": line}
        t, d = sexp.field(a, "T"), sexp.field(a, "D")
        toks = line.split(" ")[1:]
        if len(toks) != len(words) + 5:
            bad.append("the generator's words are not the lexer's tokens: %r" % text)
            continue
        if t is None or d:
            ctx.oracle_fail("C06:diagnostic-on-well-formed-program", "a well-formed expression produced %s" % (core.unesc(d or "")[:200] or "no tree"), case)
            continue
        w, st, k = sexp.field(sp, "W"), sexp.field(sp, "T"), sexp.field(sp, "K")
        if w != "1" or k != ",".join(toks[4:4 + len(words)]):
            bad.append("the Lean spec rejects (W=%s) or re-orders the tokens of a minimally parenthesised expression: %r" % (w, text))
            continue
        root = sexp.parse(t)
        try:
            rhs = root.kids[0].kids[1].kids[0].kids[1]
        except IndexError:
            rhs = None
        got = dump_node(rhs) if rhs is not None else "<none>"
        want = dump_node(sexp.parse(st))
        if got != want:
            ctx.oracle_fail("C06:tree-differs-from-intended", "the tree built for an expression differs from Ex.tree of the specification",
                            dict(case, got=got[:600], want=want[:600]))
            continue
        ok += 1
        for c in cons:
            used[c] = used.get(c, 0) + 1
    for c, m in sorted(used.items()):
        ctx.count("expr-spec:" + c, m)
    missing = [c for c in EX_CONSTRUCTORS if not used.get(c)]
    ctx.oblige("tie:exspec-covers-every-constructor", not missing, "never exercised: %s" % missing)
    ctx.log("exspec: constructors exercised (cases): %s" % " ".join("%s=%d" % kv for kv in sorted(used.items())))
    ctx.oblige("tie:exspec", not bad, "%d cases, first: %s" % (len(bad), bad[0] if bad else ""))
    ctx.log("exspec: %d expressions, implementation tree == Ex.tree (ranges included)" % ok)


def prog_spec(ctx, n, depth):
    """tie of the SPEC side of `prog_roundtrip` (Prog.toks / Prog.tree / Prog.wfb, Lean) to the implementation: random abstract
    programs (declarations, parameters, statements nested to `depth`) are printed, lexed and parsed by the real code; the Lean
    spec, given the real tokens, must say `well formed`, must print exactly these tokens, and its `Prog.tree` must be the tree
    the implementation built (kinds, names, ranges, selection ranges), with zero diagnostics"""
    cases = []
    for i in range(n):
        words, prefix, counts = progspec.case(ctx.rng, ctx.rng.below(depth + 1))
        text = progspec.layout(ctx.rng, words)
        cases.append((text, words, prefix))
        ctx.count("prog-spec")
        for k, v in counts.items():
            ctx.count("prog-spec:" + k, v)
    lines = parsecases.texts_to_lines(ctx, [c[0] for c in cases])
    impl = ctx.run_harness("parse", lines, timeout=1200)
    spec_lines, usable = [], []
    bad = []
    for (text, words, prefix), line in zip(cases, lines):
        toks = line.split(" ")[1:]
        if not line.startswith("parse") or len(toks) != len(words):
            bad.append("the generator's words are not the lexer's tokens: %r" % text)
            usable.append(False)
            spec_lines.append("progspec")
            continue
        usable.append(True)
        spec_lines.append("progspec " + " ".join(toks[int(w[1:])] if w.startswith("#") else w for w in prefix))
    spec = ctx.run_driver(spec_lines, timeout=1200)
    ok = 0
    for (text, words, prefix), line, a, sp, u in zip(cases, lines, impl, spec, usable):
        if not u:
            continue
        case = {"mode": "text", "text": text, "case": line}
        t, d = sexp.field(a, "T"), sexp.field(a, "D")
        toks = line.split(" ")[1:]
        w, st, k = sexp.field(sp, "W"), sexp.field(sp, "T"), sexp.field(sp, "K")
        if w != "1" or (k or "") != ",".join(toks):
            bad.append("the Lean spec rejects (W=%s) or does not re-print the tokens of a generated program: %r -> %s" % (w, text, sp[:200]))
            continue
        if t is None or d:
            ctx.oracle_fail("C06:diagnostic-on-well-formed-program", "a well-formed program produced %s" % (core.unesc(d or "")[:200] or "no tree"), case)
            continue
        if t != st:
            i = 0
            while i < min(len(t), len(st)) and t[i] == st[i]:
                i += 1
            ctx.oracle_fail("C06:tree-differs-from-intended", "the tree built for a program differs from Prog.tree of the specification",
                            dict(case, got=t[max(0, i - 300):i + 300], want=st[max(0, i - 300):i + 300]))
            continue
        ctx.distinct.add(st)
        ok += 1
    ctx.oblige("tie:progspec", not bad, "%d cases, first: %s" % (len(bad), bad[0] if bad else ""))
    ctx.log("progspec: %d programs, implementation tree == Prog.tree (ranges and selection ranges included), no diagnostics" % ok)


def replay(ctx):
    import json
    d = json.load(open(ctx.replay))
    case = d.get("case", {})
    if isinstance(case, dict) and case.get("mode") == "lex" and ("words" in case or "layout" in case):
        return words.replay(ctx, case)
    if not isinstance(case, dict) or "text" not in case:
        print("replay file names no input:", json.dumps(d.get("broken", d), indent=1)[:3000])
        return 1
    ctx.build_harness()
    line = parsecases.texts_to_lines(ctx, [case["text"]])[0]
    a = ctx.run_harness("parse", [line])[0]
    enc = ctx.run_harness("encase", ["encase" + line[5:]])[0]
    print("text:\n" + case["text"])
    print("tree :", sexp.field(a, "T"))
    print("diags:", core.unesc(sexp.field(a, "D") or ""))
    print("want :", case.get("want", ""))
    bad = []
    if sexp.field(a, "D"):
        bad.append("diagnostics on a well-formed program")
    t = sexp.field(a, "T")
    if t:
        root = sexp.parse(t)
        if case.get("want") and case.get("got") and case["want"] not in norm_shape(root):
            bad.append("tree differs from the intended tree near " + case["want"][:80])
        bad += ["range does not enclose child: %s" % (x,) for x in ranges.encloses(root)[:1]]
        bad += ["innermost node: %s" % (x,) for x in innermost_ok(root, line.split(" ")[1:], enc)[:3]]
    for b in bad:
        print("fails:", b)
    if bad:
        print("VIOLATION property=C06 replay=%s" % ctx.replay)
    return 1 if bad else 0
