"""C07 — expression memoisation is invisible and keeps parsing linear (DESIGN §4 C07).

theorems : lean/GoldModel/Props/C07.lean — memo_invisible (every token list: same tree, same
           diagnostic set), memo_invisible_from (from any cache state), body_memo_invisible,
           body_terminates, memo_scoped (no memoised parser outside a body slice).
tie      : `body` correspondence (statement lists through the public parser + context trait:
           real memo context, keep-nothing context, counting wrapper — vs the model's
           runM / runP / evaluation counter) and the whole-file `parse` correspondence.
oracle   : on the implementation alone: memo tree == no-memo tree, diagnostic sets equal,
           every (cache, length) evaluated at most once between two clears, a file parsed
           whole == its declarations parsed alone (no leak between bodies).
"""
import re

from .. import core
from ..gen import parsecases, prog, toks

RULE = ("body cases = every token sequence up to length L over a 16-kind alphabet as ONE method body, statement blocks of "
        "grammar-directed programs and their token mutations, keyword soups, nesting towers (depth 120); file cases = two "
        "consecutive method bodies (exhaustive short + generated) parsed whole and declaration by declaration; "
        "distinct_nontrivial = distinct implementation outputs whose memo run hit the cache or produced a diagnostic or a statement")


def field(s, name):
    m = re.search(r"(?:^| )%s=(\S*)" % name, s)
    return m.group(1) if m else None


def run(ctx):
    ctx.trusted += [
        "Lean 4.33 kernel + leanchecker; axioms ⊆ {propext, Classical.choice, Quot.sound}; `decide +kernel` on the grammar table",
        "hand-written models Model/{Peg,Grammar}.lean tied to src/parser/*.rs by the `body` and `parse` correspondences only",
        "harness/src/modes/body.rs: keep-nothing and counting implementations of the public IParserContext trait",
    ]
    ctx.assumptions += [
        "'work grows linearly': proved = the memoised result is position-determined (T1+T3) and, for EVERY body, the log of evaluations (cache, remaining length) of the "
        "memoising run has no duplicate and every logged evaluation ended in the cache (T4, `body_evaluated_once`); measured as well = evaluations per (cache, length) ≤ 1 on every case, "
        "on the implementation (counting wrapper) and on the model (identical counts); not proved = the cost of ONE evaluation excluding its memoised sub-calls",
    ]
    if ctx.replay:
        return replay(ctx)
    ctx.prove("GoldModel.Props.C07")
    if not ctx.build_harness():
        return ctx.finish(rule=RULE)
    q = ctx.tier == "quick"
    rng = ctx.rng
    kinds = list(toks.LEX.keys())
    body = []
    for l in parsecases.corpus("C07"):
        body.append(l)
        ctx.count("corpus")
    for s in toks.exhaustive(toks.ALPHA16, 3 if q else 5):
        body.append("body" + toks.line_of(s)[5:])
        ctx.count("exhaustive-body")
    for i in range(5000 if q else 60000):
        g = prog.Gen(rng)
        b = g.block(3, 1 + rng.below(5))
        if i % 3:
            b = prog.mutate(rng, b, kinds)
            ctx.count("block-mutated")
        else:
            ctx.count("block-wellformed")
        body.append("body" + prog.wire(b)[5:])
    for i in range(3000 if q else 40000):
        seq = [rng.choice(kinds) for _ in range(1 + rng.below(25))]
        body.append("body" + toks.line_of(seq)[5:])
        ctx.count("soup-body")
    for t in parsecases.towers(5):
        if t[0][0] == "Proc":   # strip `proc P … endproc`
            body.append("body" + prog.wire(t[2:-1], per_line=12)[5:])
            ctx.count("tower-depth5")
    # deep towers: parsing WITHOUT memoisation is exponential there, so only the memo run and its counter
    deep = []
    for depth in ((10, 40, 120) if q else (10, 20, 40, 80, 120)):
        for t in parsecases.towers(depth):
            if t[0][0] == "Proc":
                deep.append("bodymemo" + prog.wire(t[2:-1], per_line=12)[5:])
                ctx.count("tower-deep")
    # LONG bodies: many statements whose alternatives share memoised sub-parsers (call chains as statements, call chains as
    # assignment targets, calls in operands) — the memo tables of ONE body collect thousands of entries
    T = prog.T
    I = lambda s: T("Identifier", s)
    for nst, pad in [(n, p) for n in ((450,) if q else (450, 1200)) for p in range(12 if q else 16)]:
        for shape in range(3 if pad == 0 else 1):
            # `pad` plain statements first: shifts where in a statement a table reaches any given size
            b = [I("x"), T("Equals", "="), T("NumericLiteral", "1")] * pad
            for i in range(nst):
                k = (i + shape) % 3
                if k == 0:     # a.f(x).g(y)
                    b += [I("a"), T("Dot", "."), I("f"), T("OBracket"), I("x"), T("CBracket"), T("Dot", "."), I("g"), T("OBracket"), I("y"), T("CBracket")]
                elif k == 1:   # f(1).v = g(2)
                    b += [I("f"), T("OBracket"), T("NumericLiteral", "1"), T("CBracket"), T("Dot", "."), I("v"), T("Equals", "="),
                          I("g"), T("OBracket"), T("NumericLiteral", "2"), T("CBracket")]
                else:          # x = f(a, b) + g(c)
                    b += [I("x"), T("Equals", "="), I("f"), T("OBracket"), I("a"), T("Comma", ","), I("b"), T("CBracket"), T("Plus", "+"),
                          I("g"), T("OBracket"), I("c"), T("CBracket")]
            deep.append("bodymemo" + prog.wire(b, per_line=11)[5:])
            ctx.count("long-body")
    if ctx.harness_reduced:
        # the harness's own implementations of the parser-context trait no longer compile against /repo/src: the body modes
        # are not available; the tie is broken (and said so), the whole-file cases below still run
        ctx.oblige("tie:body-modes (keep-nothing / counting contexts written against the public IParserContext trait) compile against /repo/src",
                   False, "; ".join(ctx.notes)[-1500:])
        body, deep = [], []
    ideep = ctx.run_harness("bodymemo", deep, timeout=600)
    mdeep = ctx.run_driver(deep, timeout=600)
    ctx.compare("bodymemo(towers)", deep, ideep, mdeep)
    growth = []
    for c, a in zip(deep, ideep):
        w, e = field(a, "W"), field(a, "E")
        n = len(c.split(" ")) - 1
        if w is None or int(w) > 1:
            ctx.oracle_fail("C07:evaluated-more-than-once", "a memoised parser was evaluated more than once at one token position (W=%s)" % w,
                            {"mode": "bodymemo", "case": c[:3000], "implementation": a[:600]})
        if e is not None:
            growth.append((n, int(e)))
            if int(e) > 3 * (n + 1):
                ctx.oracle_fail("C07:superlinear", "more than 3 evaluations per token position (%s evaluations for %d tokens)" % (e, n),
                                {"mode": "bodymemo", "case": c[:3000], "implementation": a[:600]})
    ctx.coverage["evaluations_vs_tokens"] = sorted(set(growth))[:40]
    impl = ctx.run_harness("body", body, timeout=900)
    model = ctx.run_driver(body, timeout=900)
    ctx.compare("body", body, impl, model, nontrivial=lambda c, a: "M=[] MD= " not in a)
    for c, a in zip(body, impl):
        if a == "panic" or a.startswith("<no-output"):
            ctx.oracle_fail("C07:crash", "the body parse crashed under one of the contexts", {"mode": "body", "case": c, "implementation": a})
            continue
        if field(a, "M") != field(a, "N") or field(a, "MR") != field(a, "NR"):
            ctx.oracle_fail("C07:tree-differs", "the tree parsed with memoisation differs from the one parsed without", {"mode": "body", "case": c, "implementation": a})
        if set((field(a, "MD") or "").split("|")) != set((field(a, "ND") or "").split("|")):
            ctx.oracle_fail("C07:diagnostics-differ", "the diagnostic sets with and without memoisation differ", {"mode": "body", "case": c, "implementation": a})
        w = field(a, "W")
        if w is None or int(w) > 1:
            ctx.oracle_fail("C07:evaluated-more-than-once", "a memoised parser was evaluated more than once at one token position (W=%s)" % w,
                            {"mode": "body", "case": c, "implementation": a})
    # whole files with two bodies: parsed whole vs declaration by declaration
    files = []
    for s1 in toks.exhaustive(toks.ALPHA16[:8] + ["Equals", "Plus"], 2 if q else 3):
        for s2 in ([["Identifier", "Equals", "Identifier"], ["If", "Identifier", "EndIf"]] if q else toks.exhaustive(["Identifier", "Equals", "OBracket", "Dot"], 2)):
            d1 = ["Proc", "Identifier"] + [k for k in s1 if k not in ("EndProc", "End", "Proc")] + ["EndProc"]
            d2 = ["Func", "Identifier", "Return", "Identifier"] + list(s2) + ["EndFunc"]
            files.append((d1, d2))
    for i in range(1500 if q else 20000):
        g = prog.Gen(rng)
        files.append((g.method(2), g.method(2)))
    # a method body followed by FILE-LEVEL variable declarations (with and without `absolute`): whatever the tables of the body
    # still hold must not be seen by the declarations after it — the lengths are varied so that the number of tokens left at
    # a declaration's clauses meets the lengths at which the body's calls were memoised
    T, I = prog.T, (lambda s: prog.T("Identifier", s))
    calls = [[I("f"), T("OBracket"), T("NumericLiteral", "1"), T("CBracket")],
             [I("g"), T("OBracket"), T("NumericLiteral", "1"), T("Comma", ","), I("x"), T("CBracket")],
             [I("h"), T("OBracket"), T("CBracket")],
             [I("a"), T("Dot", "."), I("f"), T("OBracket"), I("x"), T("CBracket")]]
    gdecls = [[I("gC"), T("Colon"), I("int4")],
              [I("gD"), T("Colon"), I("int4"), T("Absolute", "absolute"), I("gE")],
              [T("Memory", "memory"), I("gM"), T("Colon"), I("int4")],
              [T("Type", "type"), I("tI"), T("Colon"), T("NumericLiteral", "1"), T("To", "to"), T("NumericLiteral", "10")],
              [I("gR"), T("Colon"), T("NumericLiteral", "1"), T("To", "to"), T("NumericLiteral", "5")],
              [T("Const", "const"), I("cK"), T("Equals", "="), T("NumericLiteral", "3")],
              [T("Type", "type"), I("tA"), T("Colon"), T("OSqrBracket"), T("NumericLiteral", "1"), T("To", "to"), T("NumericLiteral", "4"), T("CSqrBracket"), I("int4")]]
    for i in range(400 if q else 6000):
        d1 = [T("Proc", "proc"), I("P%d" % (i % 7))]
        for _ in range(1 + rng.below(4)):
            d1 += rng.choice(calls)
        d1 += [T("EndProc", "endproc")]
        d2 = []
        for _ in range(rng.below(3)):
            d2 += rng.choice(gdecls)
        d2 += [I("gA"), T("Colon"), I("int4"), T("Absolute", "absolute"), I("gB")]
        for _ in range(rng.below(4)):
            d2 += rng.choice(gdecls)
        files.append((d1, d2))
        ctx.count("method-then-file-level-declarations")
    whole, alone1, alone2 = [], [], []
    for d1, d2 in files:
        if d1 and isinstance(d1[0], tuple):
            w = prog.wire(d1 + d2)
            n1 = len(d1)
        else:
            w = toks.line_of(d1 + d2)
            n1 = len(d1)
        ws = w.split(" ")
        whole.append(w)
        alone1.append(" ".join(ws[:1 + n1]))
        alone2.append(" ".join(ws[:1] + ws[1 + n1:]))
        ctx.count("two-method-file")
    iw = ctx.run_harness("parse", whole)
    mw = ctx.run_driver(whole)
    ctx.compare("parse(two bodies)", whole, iw, mw)
    i1 = ctx.run_harness("parse", alone1)
    i2 = ctx.run_harness("parse", alone2)
    nomemo = ctx.run_driver(["parsenomemo" + w[5:] for w in whole])
    for w, a, b in zip(whole, mw, nomemo):
        if field(a, "T") != field(b, "T"):
            ctx.oblige("model:parse==parsenomemo", False, w)
            break
    pre = "(root%{20}0:0-0:0"
    for w, a, x, y in zip(whole, iw, i1, i2):
        ta, tx, ty = (re.search(r"T=(.*?) D=", s) for s in (a, x, y))
        if not (ta and tx and ty):
            continue
        inner = lambda t: t.group(1)[len("(root  0:0-0:0"):-1]
        if inner(ta) != inner(tx) + inner(ty):
            ctx.oracle_fail("C07:leak-between-bodies", "a file parsed whole differs from its declarations parsed alone",
                            {"mode": "parse", "case": w, "whole": a[:1500], "first-alone": x[:800], "second-alone": y[:800]})
    ctx.samples = [{"case": body[i][:300], "implementation": impl[i][:300]} for i in (5, len(body) // 2, len(body) - 1) if 0 <= i < len(body)]
    return ctx.finish(rule=RULE, extra={"exhaustive": True, "evaluations_vs_tokens(measured on towers)": ctx.coverage.get("evaluations_vs_tokens")})


def replay(ctx):
    import json
    d = json.load(open(ctx.replay))
    case = d.get("case", {})
    line = case.get("case") if isinstance(case, dict) else case
    if not line:
        print("replay file names no input:", json.dumps(d.get("broken", d), indent=1)[:3000])
        return 1
    ctx.build_harness()
    ctx.lake_build(["driver"])
    mode = "body" if line.startswith("body") else "parse"
    impl = ctx.run_harness(mode, [line])[0]
    model = ctx.run_driver([line])[0]
    print("case          :", line[:3000])
    print("implementation:", impl[:3000])
    print("model         :", model[:3000])
    if mode == "body":
        bad = field(impl, "M") != field(impl, "N") or set((field(impl, "MD") or "").split("|")) != set((field(impl, "ND") or "").split("|")) or int(field(impl, "W") or 99) > 1
        if bad:
            print("VIOLATION property=C07 replay=%s" % ctx.replay)
            return 1
    print("memoisation is invisible on this case")
    return 0
