"""C15 — unused-variable warnings are exact and per-method (DESIGN §4 C15, notes/C15.md).

theorems : lean/GoldModel/Props/C15.lean (unused_exact, lint_hom, lint_perm, lint_local, lint_file,
           unused_rename, negation witnesses for the pinned analyzer and for each guard)
ties     : E8_LintConsts / E9_FoldSites (regenerated from src on every run; the theorems are stated
           for the configuration they describe), `lint` correspondence (real diagnostics request
           on a one-file workspace vs parser model + M-LINT)
oracles  : 'Unused var' items vs the generator's verdicts; vs the Lean specification on the same
           tree; method permutations, consistent renamings, re-casings
"""
from .. import lintcheck

RULE = ("cases = one program per toggle (13 use modes, 9 purge modes, 9 names x 9 inherited variants, return types, naming) + random files of "
        "1..8 methods with 0..6 locals per method, every local with an independent use mode (never / once / only after a dot / inner member of a "
        "dot chain / nested blocks / other method only / other letter case / for counter / string literal / receiver / argument / index / "
        "expression), each followed by a method permutation, a consistent renaming of all locals and a re-casing of all uses; "
        "+ the discrepancy probes of corpus/<id>/probes.txt + grammar-wide token programs (vlib/gen/prog.py: every construct, token-level "
        "mutations, names colliding with the rule names) on which the real parser + analyzers are compared with the model and, wherever the "
        "guards of the theorems hold, with the specification; distinct_nontrivial = distinct implementation outputs with at least one item")


def run(ctx):
    return lintcheck.run(ctx, "C15", RULE)
