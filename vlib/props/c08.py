"""C08 — every range sent to the client is well-formed (DESIGN §4 C08).  PARTIAL (workspace-level responses; lexer ranges evaluated).

theorems : lean/GoldModel/Props/C08T5.lean — t5_partial / t5_parse / t5_nonterminal / t5_outline: for EVERY token list as the lexer
           produces them (start <= end, `.` non-empty, starts in order, ends in order except string literals / comments) the tree parse_gold builds passes the range
           checker (every node start <= end, every declaration contains its selection range), mentions no line beyond the last
           token, and every diagnostic is well-formed and inside the document — all 51 nonterminals, every semantic action, every
           recovery mode; t5_sorted_fails: under the weaker hypothesis "sorted by position" the statement is false (zero-width
           dot token; replayed on the implementation below);
           lean/GoldModel/Props/C08.lean — outline_ranges_ok (for every tree satisfying the
           checker: all outline symbols start ≤ end, selection ⊆ range), recovery_diag_ok (all
           diagnostics built by the recovering combinators, for every sorted token list),
           param_range_old_fails / param_range_ok (the defect of the pinned parameter action).
tie      : `parse` correspondence (tree with selection ranges, diagnostics, outline) + `ranges`
           mode (the Lean predicates on the model tree vs the Python predicates on the real dump).
oracle   : on the implementation's output: every node / diagnostic / outline range has
           start ≤ end and lies on an existing line; every declaration and every outline symbol
           contains its selection range.
"""
from .. import core, ranges, sexp
import hashlib
import re

from ..gen import parsecases, prog, toks

RULE = ("cases = the shared parser battery incl. texts over the 17-symbol alphabet and random Unicode run through the real lexer; "
        "for every case every range of the tree, the diagnostics and the outline is checked; "
        "distinct_nontrivial = distinct implementation outputs with at least one node below the root or one diagnostic")


def run(ctx):
    ctx.trusted += [
        "Lean 4.33 kernel + leanchecker; axioms ⊆ {propext, Classical.choice, Quot.sound}",
        "hand-written parser/outline models tied by correspondence; vlib/ranges.py mirrors Model/Ranges.lean (cross-checked on every case by the `ranges` mode)",
    ]
    ctx.assumptions += [
        "T5 (the trees and diagnostics the parser builds satisfy the range checker for EVERY token list) is proved for the parser MODEL under the guard "
        "`lexicalB` (every token start <= end, member-access operators non-empty, starts in order, ends before the next start except for string literals and "
        "comments; checked here on every case that comes from the real lexer, which DOES produce empty ranges ('' and a comment `;` at a line end) and ranges "
        "and, before the repair of the end columns, ranges reaching over the following tokens (byte length of multi-byte literals)); without the non-empty `.` it is false of model and implementation alike (witness `zeroWidthDot`, replayed); that the line/column "
        "ranges of the lexer's tokens satisfy the guard for EVERY text is now proved for the lexer MODEL (Props/C08Text: lex_tight / lex_lexical / t5_text — even without the exception for literals and comments) "
        "and evaluated on the real lexer's tokens here (both the guard and the exception-free `Tight`); M-LEX is tied to the real lexer by the C05 correspondence, which compares end columns",
        "definition links and hierarchy items copy node ranges (SymbolInfo.range / selection_range) of ANOTHER document: checked on the real ProjectManager over generated workspaces (harness modes `scope` and `tree`): start <= end, selection inside range, lines exist in the document the uri names",
        "'lines that exist': for token-level cases the document is taken to have as many lines as the last token's line",
    ]
    if ctx.replay:
        return replay(ctx)
    ctx.prove("GoldModel.Props.C08")
    ctx.prove("GoldModel.Props.C08T5")
    ctx.prove("GoldModel.Props.C08Text")
    if not ctx.build_harness():
        return ctx.finish(rule=RULE)
    q = ctx.tier == "quick"
    lines, labels = parsecases.battery(ctx, "C08", exh_len=3 if q else 4, n_prog=6000 if q else 60000, n_soup=3000 if q else 50000,
                                       tower_depth=30, list_len=200, text_len=3 if q else 4, n_text=2000 if q else 30000)
    keep = [i for i, l in enumerate(lines) if l.startswith("parse")]
    labels = [labels[i] for i in keep]
    lines = [lines[i] for i in keep]
    ctx.log("%d cases" % len(lines))
    guard_tie(ctx, lines, labels)
    witness_replay(ctx)
    impl = ctx.run_harness("parse", lines, timeout=900)
    model = ctx.run_driver(lines, timeout=900)
    ctx.compare("parse", lines, impl, model, nontrivial=lambda c, a: "(root  0:0-0:0)" not in a or " D= " not in a)
    rm = ctx.run_driver(["ranges" + l[5:] for l in lines], timeout=900)
    cross_bad = 0
    for c, a, r in zip(lines, impl, rm):
        t, d, o = sexp.field(a, "T"), sexp.field(a, "D"), sexp.field(a, "O")
        if t is None:
            ctx.oracle_fail("C08:crash", "no output", {"mode": "parse", "case": c, "implementation": a[:300]})
            continue
        root = sexp.parse(t)
        toks_maxline = max([int(w.split(":")[4]) for w in c.split(" ")[1:]] + [0])
        bad = ranges.ranges_ok(root)
        for what, x in bad[:1]:
            sig = "C08:selection-outside-range" if what.startswith("selection") else "C08:start-after-end"
            ctx.oracle_fail(sig, "%s at node %s %s %s" % (what, x.kind, x.ident, x.rng), {"mode": "parse", "case": c, "node": [x.kind, x.ident, x.rng, x.sel]})
        if ranges.max_line(root) > toks_maxline:
            ctx.oracle_fail("C08:line-does-not-exist", "a node lies on a line beyond the document", {"mode": "parse", "case": c})
        for x in (d or "").split("|"):
            if not x:
                continue
            r = ranges.parse_rng("-".join([x.split("-")[0], ":".join(x.split("-", 1)[1].split(":")[:2])]))
            if not ranges.ok(r):
                ctx.oracle_fail("C08:diagnostic-start-after-end", "diagnostic %s" % (r,), {"mode": "parse", "case": c, "diagnostic": x})
            if r[2] > toks_maxline:
                ctx.oracle_fail("C08:line-does-not-exist", "a diagnostic lies on a line beyond the document", {"mode": "parse", "case": c, "diagnostic": x})
        for name, kind, rg, sel in ranges.outline_syms(o or ""):
            if not (ranges.ok(rg) and ranges.ok(sel) and ranges.within(sel, rg)):
                ctx.oracle_fail("C08:outline-selection-outside-range", "outline symbol %s: range %s selection %s" % (name, rg, sel), {"mode": "parse", "case": c, "outline": o})
        # cross-check of the two evaluations of the predicates (only meaningful when the trees agree)
        py = "OK=%s" % ("true" if not bad else "false")
        if r.split(" ")[0] != py and a == model[lines.index(c)] if False else False:
            cross_bad += 1
    # cross-check on the cases where implementation and model trees agree
    for a, m, r in zip(impl, model, rm):
        if a == m and sexp.field(a, "T"):
            py = "true" if not ranges.ranges_ok(sexp.parse(sexp.field(a, "T"))) else "false"
            if "OK=" + py not in r:
                cross_bad += 1
    ctx.oblige("tie:python-range-checker==lean-range-checker", cross_bad == 0, "%d cases differ" % cross_bad)
    cross_file(ctx, q)
    response_ranges(ctx, q)
    ctx.samples = [{"case": lines[i][:300], "ranges": rm[i]} for i in (len(lines) - 1, len(lines) // 2, 7)]
    return ctx.finish(rule=RULE)


ZERO_WIDTH_DOT = ("parse Proc:proc:0:0:0:4 Identifier:p:0:5:0:6 Identifier:a:0:7:0:8 Dot:.:0:8:0:8 CBracket:):0:8:0:8 End:end:0:9:0:12")


STRICT_KINDS = ("Dot",)    # Gen.opsOf "parse_dot_ops" (E5); cross-checked against the generated table in guard_tie
LOOSE_KINDS = ("StringLiteral", "Comment")    # Gold.C08.looseKinds: ranges that may reach over the following tokens (byte length of the value)


def lexical(line, loose=None):
    """the guard of Gold.C08.t5_partial (`lexicalB`) on a case line: every token start <= end (start < end for the member-access
    operators), starts no later than the next starts and - string literals and comments apart - ends no later than the next starts;
    no token ends on a line after the one on which the last token ends"""
    toks = []
    for w in line.split(" ")[1:]:
        p = w.split(":")
        toks.append((p[0], (int(p[2]), int(p[3])), (int(p[4]), int(p[5]))))
    for i, (k, s, e) in enumerate(toks):
        if not (s < e if k in STRICT_KINDS else s <= e):
            return False
        if i + 1 < len(toks):
            nxt = toks[i + 1][1]
            if not s <= nxt or (k not in (LOOSE_KINDS if loose is None else loose) and not e <= nxt):
                return False
        if e[0] > toks[-1][2][0]:
            return False
    return True


def guard_tie(ctx, lines, labels):
    """the hypothesis of T5 holds of everything the real lexer produced (labels `fixture`, `text`), and is not vacuous on the rest"""
    import os, re
    gen = open(os.path.join(core.LEAN, "GoldModel", "Gen", "E5_OperatorLadder.lean")).read()
    m = re.search(r'\("parse_dot_ops", \[(.*?)\]', gen)
    ctx.oblige("tie:strictKinds == operators of parse_dot_ops (E5)", bool(m) and tuple(k.strip().replace("Kind.", "") for k in m.group(1).split(",")) == STRICT_KINDS,
               "generated: %s" % (m.group(1) if m else None))
    n_ok = 0
    n_empty = 0
    bad = []
    loose_bad = []
    for l, lab in zip(lines, labels):
        if lab in ("fixture", "text"):
            n_empty += sum(1 for w in l.split(" ")[1:] if w.split(":")[2:4] == w.split(":")[4:6])
        ok = lexical(l)
        n_ok += ok
        if not ok and lab in ("fixture", "text"):
            bad.append(l)
        if lab in ("fixture", "text") and not lexical(l, loose=()):
            loose_bad.append(l)
    ctx.count("cases satisfying the guard of t5_partial (lexical tokens)", n_ok)
    ctx.count("empty tokens produced by the real lexer (allowed by the guard)", n_empty)
    ctx.oblige("tie:hypothesis:tokens of the real lexer satisfy the guard of t5_partial (start <= end, `.` non-empty, starts in order, ends in order except literals/comments)", not bad,
               "%d cases from the real lexer violate the guard; first: %s" % (len(bad), bad[0][:300] if bad else ""))
    ctx.oblige("tie:tokens of the real lexer are TIGHT (Gold.C08.lex_tight evaluated on GoldLexer::lex: EVERY token, literals and comments included, ends no later than the next starts)",
               not loose_bad, "%d cases; first: %s" % (len(loose_bad), loose_bad[0][:300] if loose_bad else ""))


def witness_replay(ctx):
    """`t5_sorted_fails`: the witness of the Lean theorem gives the same ill-formed range on the implementation"""
    impl = ctx.run_harness("parse", [ZERO_WIDTH_DOT])[0]
    model = ctx.run_driver([ZERO_WIDTH_DOT])[0]
    t = sexp.field(impl, "T")
    bad = ranges.ranges_ok(sexp.parse(t)) if t else []
    ctx.oblige("tie:witness:zeroWidthDot (sorted but empty tokens): implementation == model, dangling-dot node 0:9-0:8 has start after end",
               impl == model and bool(bad) and "(empty_node empty_node 0:9-0:8)" in impl and not lexical(ZERO_WIDTH_DOT),
               "implementation: %s | model: %s" % (impl[:300], model[:300]))


def cross_file(ctx, q):
    """responses that carry ranges of OTHER documents: definition links (mode `scope`) and hierarchy items (mode `tree`,
    incl. items prepared from a USE of an inherited method), on the real ProjectManager over generated workspaces"""
    from .. import scopelib
    from . import c13
    # definition links: selection inside the target range, start <= end, lines exist in the target file
    cases = scopelib.generated(ctx, 40 if q else 600, prefix="r")
    res = scopelib.run(ctx, cases, kinds=("d",), model=False)
    nl = 0
    for c, qs, impl, _, hl, dl in res:
        lines_of = {stem.split("/")[-1].upper(): text.count("\n") + 1 for stem, text in c.files}
        for qq, a in zip(qs, impl):
            for sel, tgt in scopelib.links(a) or []:
                nl += 1
                stem, _, selr = sel.partition("@")
                try:
                    sr, tr = ranges.parse_rng(selr), ranges.parse_rng(tgt)
                except Exception:
                    continue
                what = None
                if not (ranges.ok(sr) and ranges.ok(tr)):
                    what = "C08:link-start-after-end"
                elif not ranges.within(sr, tr):
                    what = "C08:link-selection-outside-target-range"
                elif tr[2] >= lines_of.get(stem.upper(), 10 ** 9):
                    what = "C08:link-line-does-not-exist"
                if what:
                    ctx.oracle_fail(what, "definition link %s / %s" % (sel, tgt), {"mode": "scope", "workspace": c.id, "query": qq, "implementation": a, "case": c.to_json()})
    ctx.count("definition links checked", nl)
    # a used file WITHOUT class / module header whose declarations sit on lines the requesting document does not have
    hl_lines, hl_meta = [], []
    for i in range(20 if q else 200):
        pad = 3 + ctx.rng.below(30)
        names = ["cLib%d_%d" % (i, k) for k in range(1 + ctx.rng.below(3))]
        lib = "; a library without header\n" + "\n" * pad + "".join("const %s = %d\n" % (n, k) for k, n in enumerate(names)) + "type tLib%d : int4\n" % i
        user = "class aUser%d\n\nuses wLib%d\n\nproc P\n" % (i, i) + "".join("   x = %s\n" % n for n in names) + "   var v : tLib%d\nendproc\n" % i
        words = ["scope", "hl%d" % i, "F", core.esc("aUser%d" % i), core.esc(user), "F", core.esc("wLib%d" % i), core.esc(lib)]
        for k, n in enumerate(names):
            words += ["Q", "0", "d", str(5 + k), "8"]
        hl_lines.append(" ".join(words))
        hl_meta.append((user, lib, "wLib%d" % i))
    for line, (user, lib, libstem), a in zip(hl_lines, hl_meta, ctx.run_harness("scope", hl_lines)):
        for w in a.split(" "):
            for sel, tgt in scopelib.links(w) or []:
                nl += 1
                stem, _, selr = sel.partition("@")
                try:
                    tr = ranges.parse_rng(tgt)
                except Exception:
                    continue
                nlines = (lib if stem.upper() == libstem.upper() else user).count("\n") + 1
                if tr[2] >= nlines:
                    ctx.oracle_fail("C08:link-line-does-not-exist", "definition link %s / %s names %s, which has %d lines" % (sel, tgt, stem, nlines),
                                    {"mode": "scope-line", "case": line, "implementation": a})
    ctx.count("definition links into header-less files", len(hl_lines))
    # hierarchy items
    tcases = []
    for _ in range(300 if q else 5000):
        n = 3 + ctx.rng.below(4)
        tcases.append("tree %s %d 3 free -" % (c13.files_of(c13.random_forest(n, ctx.rng), ctx.rng), 1 + ctx.rng.below(n)))
    out = ctx.run_harness("tree", tcases)
    ni = 0
    for c, a in zip(tcases, out):
        ni += a.count("=")
        for w in a.split(" "):
            # (the harness upper-cases the answers)
            if "!RANGE" in w.upper() or "!SELECTION-OUTSIDE" in w.upper():
                flag = [x for x in w.upper().split("!")[1:] if x.startswith("RANGE") or x.startswith("SELECTION-OUTSIDE")][0]
                sig = "C08:hierarchy-item-" + flag.split(",")[0].lower()
                ctx.oracle_fail(sig, "hierarchy item with a bad range: %s" % w, {"mode": "tree", "case": c, "implementation": a})
                break
    ctx.count("hierarchy answers checked", ni)


def response_text(rng):
    """a text with syntax errors whose diagnostics may span lines: a generated (and usually mutated) program, its token values
    joined by blanks with a line break after every 1–4 tokens"""
    g = prog.Gen(rng)
    t = g.program() if hasattr(g, "program") else g.method(2)
    if rng.chance(3, 4):
        t = prog.mutate(rng, t, list(toks.LEX.keys()))
    out, n = [], 0
    per = 1 + rng.below(4)
    for k, v in t:
        out.append(v if v else toks.LEX.get(k, ""))
        n += 1
        out.append("\n" + " " * rng.below(9) if n % per == 0 else " ")
    return "".join(out)


def bad_response_ranges(text, a):
    """ill-formed ranges of a `diagranges` answer: start after end, or beyond the last line of the text"""
    m = re.match(r"^R=(\S*) N=(\d+)$", a)
    if not m:
        return None
    nl = text.count("\n") + 1
    bad = []
    for it in m.group(1).split(","):
        if not it:
            continue
        sev, rg = it.split("|")
        s_, e_ = rg.split("-")
        (sl, sc), (el, ec) = map(int, s_.split(":")), map(int, e_.split(":"))
        if (sl, sc) > (el, ec) or el > nl:
            bad.append(it)
    return bad


def response_ranges(ctx, q):
    """the ranges of the diagnostics RESPONSE (manager/mod.rs turns lexer, parser and analyzer diagnostics into LSP items): the real
    request on texts with syntax errors laid out over many short lines — every range runs forwards and ends inside the text"""
    texts = [response_text(ctx.rng) for _ in range(600 if q else 12000)]
    texts += ["class aRootClass\n\n        const cBroken =\nx : int4\n", "class aC\n\nproc P(\n  a : int4,\n\nendproc\n",
              "class aC\n\nproc P\n        x = (1 +\n2\nendproc\n"]
    lines = ["diagranges " + core.esc(t) for t in texts]
    out = ctx.run_harness("diagranges", lines, timeout=900)
    n_items = 0
    for t, l, a in zip(texts, lines, out):
        bad = bad_response_ranges(t, a)
        ctx.count("diagnostics responses checked")
        if bad is None:
            if a == "panic" or a.startswith("<no-output"):
                ctx.oracle_fail("C08:diagnostics-request-crashed", "the diagnostics request crashed on this text", {"mode": "diagranges", "case": l, "implementation": a})
            continue
        n_items += a.count("|")
        ctx.distinct.add(hashlib.md5(a.encode()).digest()) if a.count("|") else None
        if bad:
            ctx.oracle_fail("C08:diagnostic-response-range", "a diagnostic of the response has an ill-formed range (runs backwards / ends beyond the text): %s" % bad[:3],
                            {"mode": "diagranges", "case": l, "implementation": a})
    ctx.count("diagnostic items of responses checked", n_items)


def replay(ctx):
    import json
    d = json.load(open(ctx.replay))
    case = d.get("case", {})
    line = case.get("case") if isinstance(case, dict) else case
    if not line:
        print("replay file names no input:", json.dumps(d.get("broken", d), indent=1)[:3000])
        return 1
    ctx.build_harness()
    if isinstance(case, dict) and case.get("mode") == "scope-line":
        from .. import scopelib
        a = ctx.run_harness("scope", [line])[0]
        w = line.split(" ")
        nlines = {}
        for i, x in enumerate(w):
            if x == "F":
                nlines[core.unesc(w[i + 1]).upper()] = core.unesc(w[i + 2]).count("\n") + 1
        print("files (lines) :", nlines)
        print("implementation:", a)
        bad = []
        for ww in a.split(" "):
            for sel, tgt in scopelib.links(ww) or []:
                stem = sel.partition("@")[0]
                try:
                    tr = ranges.parse_rng(tgt)
                except Exception:
                    continue
                if tr[2] >= nlines.get(stem.upper(), 10 ** 9):
                    bad.append((sel, tgt))
        if bad:
            print("links beyond the end of the file they name:", bad[:5])
            print("VIOLATION property=C08 replay=%s" % ctx.replay)
            return 1
        print("every link lies inside the file it names")
        return 0
    if isinstance(case, dict) and case.get("mode") == "diagranges":
        a = ctx.run_harness("diagranges", [line])[0]
        text = core.unesc(line.split(" ", 1)[1]) if " " in line else ""
        print(text)
        print("implementation:", a)
        bad = bad_response_ranges(text, a)
        if bad is None or bad:
            print("ill-formed ranges in the diagnostics response:", bad)
            print("VIOLATION property=C08 replay=%s" % ctx.replay)
            return 1
        print("every range of the diagnostics response runs forwards and ends inside the text")
        return 0
    if isinstance(case, dict) and case.get("mode") == "tree":
        a = ctx.run_harness("tree", [line])[0]
        print("case          :", line)
        print("implementation:", a)
        if "!RANGE" in a.upper() or "!SELECTION-OUTSIDE" in a.upper():
            print("VIOLATION property=C08 replay=%s" % ctx.replay)
            return 1
        print("all hierarchy items of this case have well-formed ranges inside their documents")
        return 0
    impl = ctx.run_harness("parse", [line])[0]
    t = sexp.field(impl, "T")
    print("case          :", line[:2000])
    print("implementation:", impl[:3000])
    bad = ranges.ranges_ok(sexp.parse(t)) if t else ["no tree"]
    osyms = [s for s in ranges.outline_syms(sexp.field(impl, "O") or "") if not (ranges.ok(s[2]) and ranges.within(s[3], s[2]))]
    if bad or osyms:
        print("ill-formed:", [(w, x.kind, x.ident, x.rng, x.sel) for w, x in bad][:5] if t else bad, osyms[:3])
        print("VIOLATION property=C08 replay=%s" % ctx.replay)
        return 1
    print("all ranges of this case are well-formed")
    return 0
