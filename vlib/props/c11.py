"""C11 — completion offers exactly the visible names (DESIGN §4 C11).

theorems : lean/GoldModel/Props/C11.lean (complete_dot, complete_plain, dangling_parse,
           dangling_resolves, dot_node_resolves, complete_case; tables through Props/C18.lean `collect_wf`)
tie      : correspondence `scope` — real ProjectManager::generate_completion_proposals over the
           materialised workspace vs the model, every dot position (complete, partial, dangling)
           and every statement start of every method
oracle   : the real label lists (sorted, duplicates kept) vs the generator's visibility sets, and
           the Lean specification (`scopespec`) vs those sets
"""
import json

from .. import core, scopelib

PROP = "C11"
KINDS = ("c",)


def signatures(q, impl):
    kinds = scopelib.classify_completion(q["expect"], scopelib.labels(impl))
    return ["%s:%s%s" % (PROP, k, scopelib.deviation_suffix(q["tags"])) for k in kinds]


def make_cases(ctx):
    cases = scopelib.corpus_cases(PROP)
    n = 100 if ctx.tier == "quick" else 2000
    ndev = n // 10
    cases += scopelib.generated(ctx, n - ndev, prefix="w")
    cases += scopelib.generated(ctx, ndev, deviations=("forward",), prefix="v")
    return cases


def run(ctx):
    ctx.trusted += [
        "Lean 4.33 kernel + leanchecker; axioms ⊆ {propext, Classical.choice, Quot.sound}",
        "hand-written models lean/GoldModel/Model/{Scope,ScopeTree}.lean (+ parser model Grammar/Peg, symbol tables SymTab), tied to src/analyzers_v2/{ast_annotator,type_resolver}.rs and src/manager/{completion_service,utils}.rs by the `scope` correspondence only",
        "tokens come from the real lexer (harness mode `toks`); the parser model is the one tied byte-exactly to the real parser by the `parse` correspondence (C04/C06/C09)",
        "harness/src/modes/scope.rs (ProjectManager::new + index_files + generate_completion_proposals as main.rs; files are read from disk, incomplete lines included), lean_exe compilation of the driver",
        "generator vlib/gen/ws.py: its visibility sets are the oracle",
    ]
    ctx.assumptions += [
        "WellFormedWs (Lemmas/Scope.lean) as for C10; cross-kind name clashes along a chain (a constant named like an ancestor's field) are outside the generator's domain: the specification lets the nearest declaration of a name win and then keeps it if it is a member",
        "dangling_parse / dangling_resolves are about the memo-free interpreter `runP`; that the memoising parser returns the same tree is C07's theorem and the `parse` correspondence",
        "the KEYWORD statement that directly follows a dangling `x.` lies, for the parser, inside the dot expression's empty operand (its range reaches the end of the token at which the operand search stopped): no statement-start position is queried there",
        "line ends separate nothing: an identifier-initial line after a dangling `x.` continues the chain (`x.⏎name` is `x.name`); positions between that dot and the name (right behind the dot, on an empty line in between, at the start of the name) are positions after the dot and must offer the members of x's class",
        "one manager per queried file (see C10)",
    ]
    ctx.extract(["E8_ScopeConsts"])      # native keys, intrinsics, completion filters: the model consumes them
    if ctx.replay:
        return replay(ctx)
    ctx.prove("GoldModel.Props.C11")
    if not ctx.build_harness():
        return ctx.finish(rule=RULE)
    ctx.phase("generate")
    cases = make_cases(ctx)
    ctx.phase("tie")
    res = scopelib.run(ctx, cases, kinds=KINDS)
    flat_cases, flat_impl, flat_model = [], [], []
    for c, qs, impl, model, hl, dl in res:
        ctx.count("workspaces " + c.origin)
        cj = c.to_json()["files"]
        for q, a, b in zip(qs, impl, model):
            flat_cases.append({"workspace": c.id, "query": q, "files": cj})
            flat_impl.append(scopelib.value(a))
            flat_model.append(scopelib.value(b))
            for t in q["tags"]:
                ctx.count("tag " + t)
            ctx.count("expected labels %s" % ("none" if q["expect"] is None else min(len(q["expect"]), 12)))
    ctx.log("%d workspaces, %d completion positions" % (len(cases), len(flat_cases)))
    ctx.compare("scope(completion)", flat_cases, flat_impl, flat_model, nontrivial=lambda c, a: bool(a))
    ctx.phase("oracle")
    spec = scopelib.run_lines([core.DRIVER_BIN], ["scopespec" + dl[5:] for _, _, _, _, _, dl in res])
    bad_spec, bad_wf = [], []
    for (c, qs, impl, model, hl, dl), sp in zip(res, spec):
        sw = sp.split(" ")
        wf, sw = sw[0], sw[1:]
        edge = "edge-" in c.id and "after-dangling" not in c.id
        if (wf == "WF=1") == edge or wf not in ("WF=0", "WF=1"):
            bad_wf.append((c.id, wf))
        if len(sw) != len(qs):
            bad_spec.append((c.id, sp[:200]))
            continue
        for q, s in zip(qs, sw):
            if q["expect"] is None or any(t in scopelib.DEVIATIONS for t in q["tags"]):
                continue
            if scopelib.labels(s) != q["expect"]:
                bad_spec.append((c.id, q, s))
    ctx.oblige("tie:generated workspaces satisfy WellFormedWs (decided by the driver)", not bad_wf, str(bad_wf[:5]))
    ctx.oblige("tie:lean-specification = generator's visibility sets (%d workspaces)" % len(res), not bad_spec,
               "first: %s" % (json.dumps(bad_spec[0], default=str)[:1500] if bad_spec else ""))
    for c, qs, impl, model, hl, dl in res:
        for q, a in zip(qs, impl):
            if q["expect"] is None:
                continue
            for sig in signatures(q, a):
                ctx.oracle_fail(sig, "completion proposals differ from the visible names (%s)" % q["what"],
                                {"workspace": c.id, "query": q, "implementation": a, "case": c.to_json()})
    ctx.samples = [{"workspace": res[i][0].id, "file": res[i][0].files[0][0], "text": res[i][0].files[0][1][:1500],
                    "queries": [{"q": q, "implementation": a} for q, a in list(zip(res[i][1], res[i][2]))[:6]]}
                   for i in (0, len(res) // 2, len(res) - 1) if i < len(res)]
    return ctx.finish(rule=RULE)


RULE = ("cases = corpus/C11 witnesses + generated workspaces (as C10) x every position right after a dot of every chain (complete member name, partial "
        "name with the cursor anywhere in it, dangling dot at the end of a body and in its middle followed by exit / an if block / an assignment / a call / a chain, "
        "possibly after an empty line, a while block, break / continue / return); the operand left of the dot has a class in two cases of three and none in the third (native or undeclared type, "
        "untyped parameter, undeclared name, procedure / intrinsic result, a variable spelt like a class or module of the workspace but of another type) — no proposals there whatever follows) and every statement start (first column of every statement, empty lines; also in methods that follow body-less "
        "external / forward methods with parameters; in classes / modules whose tables hold a name twice — a method announced by one or two forward declarations and defined "
        "further down or in a descendant, a field / constant / local declared twice, a local named like a parameter: each name once, the latest spelling; in methods whose body "
        "declares constants, types and variables between its statements, on those declaration lines, and in every OTHER method of that class and of its descendants: "
        "a method's constants and variables are offered in that method only); one evaluation = one completion request on the real ProjectManager, labels sorted with duplicates kept, compared with "
        "the model and with the generator's visibility set; distinct_nontrivial = number of distinct non-empty implementation answers")


def replay(ctx):
    d = json.load(open(ctx.replay))
    case = d.get("case", {})
    if not isinstance(case, dict) or "case" not in case:
        print("replay file names no input:", json.dumps(d.get("broken", d), indent=1)[:3000])
        return 1
    c = scopelib.Case.from_json(case["case"], "replay")
    q = case["query"]
    c.queries = [q]
    ctx.build_harness()
    ctx.lake_build(["driver"])
    (c, qs, impl, model, hl, dl), = scopelib.run(ctx, [c], kinds=KINDS)
    print("workspace     :", c.id, [s for s, _ in c.files])
    print("position      : file %s line %d col %d  (%s)" % (c.files[q["f"]][0], q["line"], q["col"], q["what"]))
    print("   |" + c.files[q["f"]][1].split("\n")[q["line"]])
    print("expected      :", q["expect"])
    print("implementation:", impl[0])
    print("model         :", model[0])
    sigs = signatures(q, impl[0]) if q["expect"] is not None else []
    if sigs:
        print("VIOLATION property=%s replay=%s (%s)" % (PROP, ctx.replay, ",".join(sigs)))
        return 1
    print("implementation agrees with the visibility set on this case")
    return 0
