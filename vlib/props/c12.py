"""C12 — the outline lists every top-level declaration once, in source order (DESIGN §4 C12).

theorems : lean/GoldModel/Props/C12.lean — for EVERY tree: entries = one per top-level
           const/type/field/proc/func child, named as declared, kind of the construct, source
           order, nested under the first class/module child; insert / remove / reorder lemmas.
           lean/GoldModel/Props/C12Prog.lean — for PROGRAMS: the declared outline read off the abstract
           syntax (Prog.outline) and outline (parse_gold (print p)) = Prog.outline p for every well-formed p.
tie      : the `parse` correspondence carries the outline of the real
           DocumentSymbolGeneratorFromAst next to the model's (same line, compared verbatim).
oracle   : on the implementation alone: the outline it returns vs the rule evaluated on the
           tree it returned; declaration-level edits (insert / remove / swap a declaration)
           change the outline in exactly that way.
"""
from .. import core, sexp
from ..gen import parsecases, prog, toks, wf

RULE = ("cases = the shared parser battery (corpus, fixtures, exhaustive short token sequences, generated programs and mutations, soups) "
        "+ declaration-level edits of generated programs + files with zero, one or several class/module headers; "
        "distinct_nontrivial = distinct implementation outlines with at least one entry")

KIND = {"const_decl": "Constant", "type_decl": "Property", "gvar_decl": "Field", "proc_decl": "Method", "func_decl": "Function"}


def expected_outline(root):
    """the property's rule, evaluated on a dumped tree"""
    rs = lambda r: "%d:%d-%d:%d" % r
    entries = ["%s|%s|%s|%s" % (core.esc(k.ident), KIND[k.kind], rs(k.rng), rs(k.sel or k.rng)) for k in root.kids if k.kind in KIND]
    hdr = next((k for k in root.kids if k.kind in ("class", "module")), None)
    if hdr:
        return "%s|%s|%s|%s[%s]" % (core.esc(hdr.ident), "Class" if hdr.kind == "class" else "Module", rs(hdr.rng), rs(hdr.rng), ",".join(entries))
    return ",".join(entries)


def safe_decl(g, rng):
    """a declaration whose parse does not depend on its neighbours"""
    T = prog.T
    c = rng.below(5)
    if c == 0:
        return [T("Const", "const"), g.ident("c"), T("Equals", "="), T("NumericLiteral", "7")]
    if c == 1:
        return [T("Type", "type"), g.ident("t"), T("Colon"), T("Identifier", "int")]
    if c == 2:
        return [g.ident("f"), T("Colon"), T("Identifier", "tFoo")]
    if c == 3:
        return [T("Proc", "proc"), g.ident("M"), T("OBracket"), T("CBracket")] + g.block(1, rng.below(3)) + [T("EndProc", "endProc")]
    return [T("Func", "func"), g.ident("M"), T("Return", "return"), T("Identifier", "int")] + g.block(1, rng.below(2)) + [T("EndFunc", "endFunc")]


def run(ctx):
    ctx.trusted += [
        "Lean 4.33 kernel + leanchecker; axioms ⊆ {propext, Classical.choice, Quot.sound}",
        "hand-written Model/Outline.lean tied to src/analyzers_v2/doc_symbol_generator.rs by the `parse` correspondence (outline printed on every line)",
        "the composition with the parser relies on the parser model (C04/C06/C07)",
    ]
    if ctx.replay:
        return replay(ctx)
    ctx.prove("GoldModel.Props.C12")
    ctx.prove("GoldModel.Props.C12Prog")
    if not ctx.build_harness():
        return ctx.finish(rule=RULE)
    q = ctx.tier == "quick"
    lines, labels = parsecases.battery(ctx, "C12", exh_len=3 if q else 4, n_prog=5000 if q else 50000, n_soup=2000 if q else 30000, in_body=False,
                                       tower_depth=8, list_len=50)
    lines = [l for l in lines if l.startswith("parse")]
    T = prog.T
    rng = ctx.rng
    # headers: zero, one, several
    edits = []
    for i in range(1500 if q else 15000):
        g = prog.Gen(rng)
        decls = [safe_decl(g, rng) for _ in range(rng.below(6))]
        hdrs = [[T("Class", "class"), T("Identifier", "aFoo")], [T("Module", "module"), T("Identifier", "mBar")],
                [T("Class", "class"), T("Identifier", "aBaz"), T("OBracket"), T("Identifier", "aFoo"), T("CBracket")]]
        nh = rng.below(4)
        pos = sorted(rng.below(len(decls) + 1) for _ in range(nh))
        groups = list(decls)
        for k, p in enumerate(pos):
            groups.insert(p + k, rng.choice(hdrs))
        d = safe_decl(g, rng)
        at = rng.below(len(groups) + 1)
        base = sum(groups, [])
        withd = sum(groups[:at] + [d] + groups[at:], [])
        sw = list(groups)
        if len(sw) >= 2:
            a, b = rng.below(len(sw)), rng.below(len(sw))
            sw[a], sw[b] = sw[b], sw[a]
        edits.append((prog.wire(base), prog.wire(withd), prog.wire(sum(sw, [])), len(groups), at))
        ctx.count("decl-edit headers=%d" % nh)
    lines += [e[0] for e in edits] + [e[1] for e in edits] + [e[2] for e in edits]
    ctx.log("%d cases" % len(lines))
    impl = ctx.run_harness("parse", lines, timeout=900)
    model = ctx.run_driver(lines, timeout=900)
    ctx.compare("parse+outline", lines, impl, model, nontrivial=lambda c, a: not a.endswith("O="))
    names = lambda o: sorted(x.split("|")[0] + "|" + x.split("|")[1] for x in o.replace("[", ",").replace("]", "").split(",") if x)
    for c, a in zip(lines, impl):
        t, o = sexp.field(a, "T"), sexp.field(a, "O")
        if t is None or o is None:
            ctx.oracle_fail("C12:crash", "no outline returned", {"mode": "parse", "case": c, "implementation": a[:500]})
            continue
        exp = expected_outline(sexp.parse(t))
        if exp != o:
            ctx.oracle_fail("C12:outline-differs-from-rule", "the outline is not 'one entry per top-level declaration, in order, under the first header'",
                            {"mode": "parse", "case": c, "implementation": a[:2000], "expected_outline": exp})
    generated_expected(ctx, 1500 if q else 20000)
    n = len(edits)
    off = len(lines) - 3 * n
    for i, e in enumerate(edits):
        ob, od, osw = (sexp.field(impl[off + k * n + i], "O") or "" for k in range(3))
        nb, nd, ns = names(ob), names(od), names(osw)
        # inserting one declaration adds exactly one entry (multiset of name|kind grows by one)
        extra = list(nd)
        for x in nb:
            if x in extra:
                extra.remove(x)
        if len(nd) != len(nb) + 1 or len(extra) != 1:
            ctx.oracle_fail("C12:insert-changes-more", "inserting one declaration did not add exactly one outline entry",
                            {"mode": "parse", "case": e[1], "before": ob, "after": od})
        hb = lambda o: (o.split("|")[0] if "[" in o else "")
        if nb != ns and hb(ob) == hb(osw):
            ctx.oracle_fail("C12:reorder-changes-entries", "swapping two declarations changed the set of outline entries",
                            {"mode": "parse", "case": e[2], "before": ob, "after": osw})
    ctx.samples = [{"case": lines[i][:300], "outline": sexp.field(impl[i], "O")} for i in (len(lines) - 1, len(lines) // 2, 3)]
    return ctx.finish(rule=RULE)


def generated_expected(ctx, n):
    """the entry list KNOWN TO THE GENERATOR (vlib/gen/wf.py: text + the tree the grammar prescribes): the outline of the real
    pipeline text -> lexer -> parser -> outline must be exactly the generator's top-level declarations — name and kind, in source
    order, under the header — whatever the parser made of the text (a declaration swallowed by its neighbour shows here, not
    in the tree-relative rule above)"""
    texts, exps = [], []
    for i in range(n):
        e = wf.Emit(ctx.rng)
        tk, tree = e.program(2)
        texts.append(wf.render(ctx.rng, tk))
        kids = tree[2]
        ent = ["%s|%s" % (k[1], KIND[k[0]]) for k in kids if k[0] in KIND]
        hdr = next((k for k in kids if k[0] in ("class", "module")), None)
        exps.append((hdr and (hdr[1], "Class" if hdr[0] == "class" else "Module"), ent))
        ctx.count("generated-expected-outline")
    glines = parsecases.texts_to_lines(ctx, texts)
    impl = ctx.run_harness("parse", glines, timeout=900)
    for text, (hdr, ent), line, a in zip(texts, exps, glines, impl):
        o = sexp.field(a, "O")
        if o is None:
            ctx.oracle_fail("C12:crash", "no outline returned", {"mode": "text", "text": text, "case": line, "implementation": a[:500]})
            continue
        inner = o
        got_hdr = None
        if "[" in o:
            head, inner = o.split("[", 1)
            inner = inner[:-1] if inner.endswith("]") else inner
            got_hdr = (core.unesc(head.split("|")[0]), head.split("|")[1])
        got = ["%s|%s" % (core.unesc(x.split("|")[0]), x.split("|")[1]) for x in inner.split(",") if x]
        fold = lambda l: [x.lower() if x.split("|")[0].split("#")[0].lower() in wf.KEYWORDS else x for x in l]   # keyword-like names are re-cased by the layout step
        if fold(got) != fold(ent) or (got_hdr or None) != (hdr or None):
            ctx.oracle_fail("C12:outline-differs-from-declarations", "the outline is not the generator's list of top-level declarations",
                            {"mode": "text", "text": text, "case": line, "outline": [got_hdr, got], "declared": [hdr, ent]})


def replay(ctx):
    import json
    d = json.load(open(ctx.replay))
    case = d.get("case", {})
    line = case.get("case") if isinstance(case, dict) else case
    if not line:
        print("replay file names no input:", json.dumps(d.get("broken", d), indent=1)[:3000])
        return 1
    ctx.build_harness()
    ctx.lake_build(["driver"])
    impl = ctx.run_harness("parse", [line])[0]
    model = ctx.run_driver([line])[0]
    t, o = sexp.field(impl, "T"), sexp.field(impl, "O")
    exp = expected_outline(sexp.parse(t)) if t else None
    print("case     :", line[:2000])
    print("outline  :", o)
    print("rule     :", exp)
    print("model    :", sexp.field(model, "O"))
    if exp != o:
        print("VIOLATION property=C12 replay=%s" % ctx.replay)
        return 1
    print("the outline follows the rule on this case")
    return 0
