"""C14 — analysis terminates on every workspace shape (DESIGN §4 C14).

theorems : lean/GoldModel/Props/C14.lean — requests_complete (every request of every kind returns on every workspace), link_acyclic (the repaired linking rule never creates a cycle
           of parent tables, for every parent assignment / uses-graph / request order), lookup_terminates,
           walks_terminate (every graph) / walks_terminate_acyclic, negation witnesses self_cycle, mutual_cycle
tie 1    : E11ParentLink — self-parent guard, chain check and visited sets read from the source on every run;
           E11TableCache — the table is published before the tree walk and a published table is handed out
           whoever owns it (class, module, nobody = file without header)
tie 2    : correspondence `lock` — the real ProjectManager on materialised workspaces of every shape: the model
           predicts per request completes | deadlocks | diverges and the final parent pointer of every class table
oracle   : every request of every kind on every file completes before a deadline on its own thread, a second
           request afterwards completes too, and no table / document / entity lock is left held
"""
import itertools
import json
import os
import re

from .. import core

NAMES = ["aQa", "aQb", "aQc", "aQd"]
KINDS = ["diag", "def", "comp", "hier", "hierx"]


def recase(s, rng):
    k = rng.below(4)
    if k == 0:
        return s
    if k == 1:
        return s.upper()
    if k == 2:
        return s.lower()
    return "".join(c.upper() if rng.chance(1, 2) else c.lower() for c in s)


GHOSTS = ["aGhost", "aNoFile", "aTypo"]      # entities that have no file in the workspace
DRESS = "bcalmrs"                               # wsutil::render: what stands above the header / how the file is encoded (no `k` here)


def dress(rng, p=(1, 4)):
    if not rng.chance(*p):
        return ""
    if rng.chance(1, 2):
        return DRESS[rng.below(len(DRESS))]
    return "".join(c for c in DRESS if rng.chance(1, 3))


def with_ghosts(us, rng, p=(1, 5)):
    """a uses list with entities that have no file put in at any position (first, middle, last)"""
    if not rng.chance(*p):
        return us
    us = list(us)
    for _ in range(1 + rng.below(2)):
        us.insert(rng.below(len(us) + 1), recase(GHOSTS[rng.below(len(GHOSTS))], rng))
    return us


def mk_case(n, parents, uses, rng, rev, noclass=False, kinds=KINDS, headerless=(), extras=True):
    """parents[i] in {None, 0..n-1, n (= a class that does not exist)}; uses: i -> [j…] (j = i: the file uses itself;
    j >= n: an entity WITHOUT a file, GHOSTS[j - n]);
    headerless: the files that have no `class` line (flag n) — they keep their uses list, members, unknown types
    and bodies (a field of an unknown type, flag u, is what sends a look-up through the uses list);
    extras: some uses lists also get entities without a file at random positions, some files a dressed header / another encoding"""
    fs = []
    for i in range(n):
        p = parents[i]
        par = "-" if p is None else ("aMissing" if p == n else recase(NAMES[p], rng))
        mem = [recase(m, rng) for m in ["m1", "m2", "f1"] if rng.chance(1, 2)]
        us = [recase(NAMES[j] if j < n else GHOSTS[(j - n) % len(GHOSTS)], rng) for j in uses.get(i, [])]
        if extras:
            us = with_ghosts(us, rng)
        if i in headerless:
            flags = "n" + ("x" if rng.chance(1, 2) else "") + ("u" if rng.chance(4, 5) else "")
        else:
            flags = ("x" if (us or rng.chance(1, 2)) else "") + ("u" if rng.chance(2, 5) else "")
        if extras:
            if i in headerless and rng.chance(1, 8):
                flags = "ne"          # an empty file: nothing, or only what the dressing puts there (blank lines, comments, a byte order mark)
            elif i not in headerless and rng.chance(1, 8):
                flags += "d"          # `module <stem>`: a header without parent
            flags += dress(rng)
        fs.append("%s:%s:%s:%s:%s" % (NAMES[i], par, "+".join(mem) or "-", "+".join(us) or "-", flags or "-"))
    if noclass:
        fs.append("aNoClass:-:-:-:n")
    idx = list(range(len(fs)))
    if rev:
        idx.reverse()
    reqs = ["%s@%d" % (k, i) for i in idx for k in kinds]
    return "lock %s %s" % (",".join(fs), ",".join(reqs))


def uses_graphs(m, selfuse=False):
    """all uses-graphs over m entities (without / with self-uses)"""
    pairs = [(i, j) for i in range(m) for j in range(m) if selfuse or i != j]
    for bits in itertools.product([0, 1], repeat=len(pairs)):
        u = {}
        for (i, j), b in zip(pairs, bits):
            if b:
                u.setdefault(i, []).append(j)
        yield u


def masks(n):
    """the non-empty sets of files without a header"""
    return [tuple(i for i in range(n) if (b >> i) & 1) for b in range(1, 1 << n)]


def gen_headerless(ctx, cases):
    """files WITHOUT class / module header that have uses lists: cycles among them, between them and classes,
    self-use; unknown types and members; classes that name such a file as parent"""
    rng = ctx.rng
    quick = ctx.tier == "quick"

    def parents(n):
        return tuple(None if rng.chance(1, 2) else rng.below(n + 1) for _ in range(n))
    # two files: every uses-graph incl. self-use x every choice of header-less files x both orders
    for hl in masks(2):
        for u in uses_graphs(2, selfuse=True):
            for rev in (False, True):
                cases.append(mk_case(2, parents(2), u, rng, rev, headerless=hl))
                ctx.count("header-less: exhaustive uses-graphs (with self-use) x header-less sets x orders, n=2")
    # three files: every uses-graph incl. self-use (512); quick: one random header-less set / order each
    for u in uses_graphs(3, selfuse=True):
        for hl in ([masks(3)[rng.below(7)]] if quick else masks(3)):
            for rev in ([rng.chance(1, 2)] if quick else (False, True)):
                cases.append(mk_case(3, parents(3), u, rng, rev, headerless=hl))
                ctx.count("header-less: exhaustive uses-graphs (with self-use) n=3" + (" (random header-less set / order each)" if quick else " x header-less sets x orders"))
    # four files, the last one a class that looks at the others from outside: every uses-graph over the first three
    # (no self-use) x every header-less subset of them, random uses of the fourth
    ug = list(uses_graphs(3))
    for u in ug:
        for hl in ([masks(3)[rng.below(7)]] if quick else masks(3)):
            u4 = dict(u)
            u4[3] = [j for j in range(3) if rng.chance(1, 2)] or [rng.below(3)]
            ps = parents(3) + (None if rng.chance(1, 2) else rng.below(5),)
            cases.append(mk_case(4, ps, u4, rng, rng.chance(1, 2), headerless=hl))
            ctx.count("header-less: uses-graphs n=3 + a class using them")


def gen_ghosts(ctx, cases):
    """uses lists that name entities WITHOUT a file, at every position, with unknown types / bodies with unresolvable names
    (flags u, x: what sends a look-up through the whole uses list), all request kinds"""
    rng = ctx.rng
    quick = ctx.tier == "quick"
    G, H = "aGhost", "aNoFile"
    # deterministic core (no rng): one user file (class or header-less) x every placement of one or two ghosts among
    # 0..2 real entities x flags, the requests on the user first / last
    lists = [[G], [G, H], ["aQb", G], [G, "aQb"], ["aQb", G, "aQc"], [G, "aQb", "aQc"], ["aQb", "aQc", G],
             [G, "aQb", H], ["aQa", G], [G, "aQa"], ["aghost", "AGHOST"]]
    for us in lists:
        for fl in ("x", "u", "xu", "-", "nx", "nu", "nxu"):
            for par in ("-", "aQb", "aMissing"):
                if par != "-" and (fl.startswith("n") or fl == "-"):
                    continue
                fs = ["aQa:%s:m1+f1:%s:%s" % (par, "+".join(us), fl),
                      "aQb:-:m1:%s:x" % ("aQa" if "aQb" in us else "-"),
                      "aQc:aQb:f1:%s:u" % (G if len(us) > 2 else "-")]
                for order in ((0, 1, 2), (2, 1, 0)):
                    reqs = ",".join("%s@%d" % (k, i) for i in order for k in KINDS)
                    cases.append("lock %s %s" % (",".join(fs), reqs))
                    ctx.count("uses of entities without a file: deterministic placements x flags x parents x orders")
    # random: 2..4 files, every file's uses list drawn over real entities (incl. itself) and ghosts
    for _ in range(150 if quick else 6000):
        n = 2 + rng.below(3)
        uses = {}
        for i in range(n):
            k = rng.below(4)
            uses[i] = [rng.below(n + 3) for _ in range(k)]
        if not any(j >= n for v in uses.values() for j in v):
            uses[rng.below(n)].insert(0, n + rng.below(3))
        ps = tuple(None if rng.chance(1, 2) else rng.below(n + 1) for _ in range(n))
        hl = tuple(i for i in range(n) if rng.chance(1, 4))
        cases.append(mk_case(n, ps, uses, rng, rng.chance(1, 2), headerless=hl))
        ctx.count("uses of entities without a file: random workspaces")


def gen_odd_files(ctx, cases):
    """deterministic: empty files (zero bytes / a byte order mark / blank lines / comments only) and modules as the used entity,
    the parent and the user of classes and header-less files; a chain of 24 classes (every request walks the whole chain)"""
    for odd in ("ne", "nem", "neb", "nec", "nebclmr", "d", "xd", "xud", "dcm"):
        for us in ("aQa", "aQa+aGhost", "aGhost+aQa"):
            fs = ["aQa:-:m1+f1:%s:%s" % ("aQb" if "e" not in odd else "-", odd),
                  "aQb:aQa:m1:%s:xu" % us,
                  "aQc:-:f1:%s:nxu" % us,
                  "aQd:aQb:m2:-:-"]
            for order in ((0, 1, 2, 3), (3, 2, 1, 0), (1, 0, 3, 2)):
                cases.append("lock %s %s" % (",".join(fs), ",".join("%s@%d" % (k, i) for i in order for k in KINDS)))
                ctx.count("empty files / modules as used entity and parent (deterministic)")
    depth = 24
    for top in ("-", "aMissing", "aD00", "aD%02d" % (depth - 1)):       # a root, a missing parent, a self parent, one big cycle
        fs = ["aD%02d:%s:%s:%s:%s" % (i, ("aD%02d" % (i - 1)) if i else top, "m1" if i % 5 == 0 else "-", "aGhost" if i == depth - 1 else "-", "xu" if i == depth - 1 else "-")
              for i in range(depth)]
        for at in (depth - 1, 0):
            cases.append("lock %s %s" % (",".join(fs), ",".join("%s@%d" % (k, at) for k in KINDS)))
            ctx.count("chain of %d classes (deterministic)" % depth)


def ghost_uses(case):
    """the uses entries of the case that name no file of the workspace"""
    files = [f.split(":") for f in case.split()[1].split(",")]
    stems = {w[0].upper() for w in files}
    return [u for w in files if len(w) > 3 and w[3] != "-" for u in w[3].split("+") if u.upper() not in stems]


def gen_cases(ctx):
    cases = []
    corpus = os.path.join(core.VERIF, "corpus", "C14", "cases.txt")
    if os.path.exists(corpus):
        cases += [l.strip() for l in open(corpus) if l.strip() and not l.startswith("#")]
    ncorpus = len(cases)
    rng = ctx.rng
    quick = ctx.tier == "quick"
    # first (they run in the first wave): the shapes with header-less files
    nh = len(cases)
    gen_headerless(ctx, cases)
    hcases = cases[nh:]
    if quick:
        # the first wave shows a sample of them, the rest goes to the end
        rng.shuffle(hcases)
        cases[nh:] = hcases[:120]
        hrest = hcases[120:]
    else:
        hrest = []
    # then the uses lists that name entities without a file (first wave: FIRST_GHOSTS of them)
    ng = len(cases)
    gen_ghosts(ctx, cases)
    gcases = cases[ng:]
    rng.shuffle(gcases)
    cases[ng:] = gcases[:FIRST_GHOSTS]
    hrest += gcases[FIRST_GHOSTS:]
    no = len(cases)
    gen_odd_files(ctx, cases)
    hrest += cases[no:]
    del cases[no:]
    if quick:
        # every parent assignment over 1..3 classes, both analysis orders, one random uses-graph each
        for n in (1, 2, 3):
            for ps in itertools.product([None] + list(range(n + 1)), repeat=n):
                us = {i: [j for j in range(n) if j != i and rng.chance(2, 5)] for i in range(n)}
                for rev in (False, True):
                    cases.append(mk_case(n, ps, us, rng, rev, noclass=rng.chance(1, 6)))
                    ctx.count("exhaustive parents n=%d" % n)
        # every one of the 6^4 assignments over 4 classes, each with three random uses-graphs over 3 entities and random orders
        allps = list(itertools.product([None] + list(range(5)), repeat=4))
        rng.shuffle(allps)
        for ps in allps:
            for _ in range(3):
                us = {i: [j for j in range(3) if j != i and rng.chance(2, 5)] for i in range(3)}
                cases.append(mk_case(4, ps, us, rng, rng.chance(1, 2), noclass=rng.chance(1, 6)))
                ctx.count("exhaustive parents n=4 (three random uses-graphs / orders each)")
        # every uses-graph over 3 entities on a few parent shapes
        shapes = [(None, None, None), (1, 0, None), (1, 2, 0), (0, 0, 0), (3, 0, 1)]
        for u in uses_graphs(3):
            ps = shapes[rng.below(len(shapes))]
            cases.append(mk_case(3, ps, u, rng, rng.chance(1, 2)))
            ctx.count("exhaustive uses-graphs n=3")
    else:
        ug = list(uses_graphs(3))
        for ps in itertools.product([None] + list(range(5)), repeat=4):
            for u in ug:
                for rev in (False, True):
                    cases.append(mk_case(4, ps, u, rng, rev, noclass=rng.chance(1, 10)))
        ctx.count("exhaustive 6^4 parents x 64 uses-graphs x 2 orders", len(cases) - ncorpus)
        for n in (1, 2, 3):
            for ps in itertools.product([None] + list(range(n + 1)), repeat=n):
                for u in uses_graphs(n):
                    for rev in (False, True):
                        cases.append(mk_case(n, ps, u, rng, rev))
                        ctx.count("exhaustive n=%d" % n)
    cases += hrest
    return cases, ncorpus


def shape(case):
    """(has a self parent up to case, has a parent cycle of length >= 2)"""
    files = case.split()[1].split(",")
    par = {}
    for f in files:
        w = f.split(":")
        if w[1] != "-" and not (set("nd") & set(w[4] if len(w) > 4 else "")):
            par[w[0].upper()] = w[1].upper()
    selfp = any(k == v for k, v in par.items())
    cyc = False
    for k in par:
        seen, j = [], k
        while j in par and j not in seen:
            seen.append(j)
            j = par[j]
        if j in seen and len(seen) - seen.index(j) >= 2:
            cyc = True
    return selfp, cyc


def headerless_shape(case):
    """(number of files without header that have a uses list, some of them use each other / themselves in a cycle)"""
    files = [f.split(":") for f in case.split()[1].split(",")]
    hl = {w[0].upper(): [u.upper() for u in (w[3].split("+") if len(w) > 3 and w[3] != "-" else [])]
          for w in files if len(w) > 4 and "n" in w[4]}
    g = {k: [u for u in v if u in hl] for k, v in hl.items()}
    cyc = False
    for k in g:
        seen, todo = set(), list(g[k])
        while todo:
            j = todo.pop()
            if j == k:
                cyc = True
                break
            if j not in seen:
                seen.add(j)
                todo += g[j]
    return sum(1 for v in hl.values() if v), cyc


def canon(h):
    """harness line -> the part the model predicts"""
    w = [x for x in h.split() if not x.startswith("after:")]
    if any(re.search(r"=(deadlocks|spins|crash-\w+|child-timeout)$", x) for x in w):
        w = [x for x in w if x.startswith("r:")]
    return " ".join(re.sub(r"=(crash-signal\d+|crash-exit|spins)$", "=diverges", x) for x in w)


def classify(case, h):
    kinds = {}
    selfp, cyc = shape(case)
    toks = h.split()
    for x in toks:
        if x.startswith("r:"):
            req, res = x[2:].split("=", 1)
            if res == "completes":
                continue
            if res == "deadlocks":
                k = "deadlock-self-parent" if selfp and not cyc else ("deadlock-mutual-parent" if cyc else "deadlock")
            elif res == "spins" and ghost_uses(case) and not (req.startswith("hier") and (selfp or cyc)):
                # a busy loop (no stack growth): the shape that has one is the uses list with an entry that cannot be resolved
                k = "spins-uses-entity-without-file"
            elif res.startswith("crash") or res == "spins":
                # the walks over cyclic parents belong to the hierarchy requests; an analysis that never ends shows in any request
                hlc = headerless_shape(case)[1]
                if (selfp or cyc) and (req.startswith("hier") or not hlc):
                    k = "stack-overflow-cyclic-parents"
                else:
                    k = "stack-overflow-headerless-uses-cycle" if hlc else "crash"
            elif res == "panic":
                k = "panic"
            else:
                k = "request-timeout"
            kinds.setdefault(k, "request %s: %s" % (req, res))
        elif x.startswith("after:") and not x.endswith("=completes"):
            kinds.setdefault("lock-left-held", "after a request that did not return, %s" % x[6:])
        elif x.startswith("locks=held"):
            kinds.setdefault("lock-left-held", x)
    if not any(t.startswith("locks=") for t in toks) and not kinds:
        kinds["crash"] = "no result line"
    return kinds


WHAT = {
    "deadlock-self-parent": "a class that names itself as parent (in another letter case) dead-locks a request",
    "deadlock-mutual-parent": "classes that name each other as parent dead-lock a request",
    "deadlock": "a request blocks forever",
    "stack-overflow-cyclic-parents": "a member hierarchy request over cyclic parents recurses without end (the process aborts)",
    "stack-overflow-headerless-uses-cycle": "files without class / module header that use each other (or themselves) are analysed again and again: the request recurses without end (the process aborts)",
    "spins-uses-entity-without-file": "a request on a file whose uses list names an entity without a file never returns (the thread stays busy)",
    "crash": "the process died during a request",
    "panic": "a request panicked",
    "request-timeout": "a request did not finish within the overall deadline",
    "lock-left-held": "a lock is left held: a second request on the same manager blocks / a table, document or entity mutex cannot be taken",
}


FIRST_GHOSTS = 48


def run_sharded(ctx, cases, nshards=16):
    from concurrent.futures import ThreadPoolExecutor
    if not cases:
        return []
    n = max(1, min(nshards, (len(cases) + 9) // 10))
    size = (len(cases) + n - 1) // n
    parts = [cases[i * size:(i + 1) * size] for i in range(n)]
    parts = [p for p in parts if p]
    with ThreadPoolExecutor(len(parts)) as ex:
        outs = list(ex.map(lambda p: ctx.run_harness("lock", p, shards=1, timeout=7200), parts))
    return [x for o in outs for x in o]


def run(ctx):
    ctx.trusted += [
        "Lean 4.33 kernel + leanchecker; axioms ⊆ {propext, Classical.choice, Quot.sound}",
        "hand-written model lean/GoldModel/Model/Locks.lean (publish-before-walk, handle_class linking rule, lock structure of parent recursion, member walks), tied by the `lock` correspondence (per-request outcome + final parent pointers) and by E11ParentLink",
        "vlib/extractors/parent_link.py (reads guard, chain check, visited sets; fails closed on any other shape)",
        "vlib/extractors/table_cache.py (reads: table stored on the document info before walk_tree; get_symbol_table_for_uri_def_only returns the stored table unconditionally; fails closed on any other shape)",
        "std::sync::Mutex as a non-reentrant lock whose guard is dropped at the end of the statement; Arc identity as table identity",
        "harness/src/modes/lock.rs + wsutil.rs (real ProjectManager / services on materialised workspaces, one thread per request, deadline + /proc thread state to tell blocked from busy, child processes), lean_exe compilation of the driver",
    ]
    ctx.assumptions += [
        "'bounded time' is measured (deadline %s ms per request, confirmed blocked via /proc); the theorems give termination with all locks released on the model" % os.environ.get("VERIF_LOCK_DEADLINE_MS", "1500"),
        "requests run one at a time on a fresh manager per case (concurrent requests are C03's subject)",
        "file stem = class name; workspaces are the generator's (<= 4 files — 24 in the chain cases —, each a class, a module, a file without class header or an empty file, + optional bare file without a class; members m1 m2 f1, uses over <= 4 entities incl. self-use and over entities without a file, unknown types, method bodies); what stands above the header, the encoding, the directory and the extension's letter case change no declaration (the model ignores these flags)",
    ]
    if ctx.replay:
        return replay(ctx)
    ctx.extract(["E11ParentLink", "E11TableCache"])
    ctx.prove("GoldModel.Props.C14")
    if not ctx.build_harness():
        return ctx.finish(rule=RULE)
    cases, ncorpus = gen_cases(ctx)
    ctx.log("%d cases (%d corpus)" % (len(cases), ncorpus))
    # a hang costs its deadline, so (1) use every core even for few cases, (2) run a first wave and stop
    # there if the property is already violated (the verdict and the replay do not get better by waiting)
    first = ncorpus + 120 + FIRST_GHOSTS + 40
    impl = run_sharded(ctx, cases[:first])
    early = any(classify(c, h) for c, h in zip(cases, impl))
    if early:
        ctx.log("the first wave (%d cases) already violates the property: not running the remaining %d" % (len(impl), len(cases) - len(impl)))
        ctx.notes.append("stopped after the first wave")
        cases = cases[:first]
    else:
        impl += run_sharded(ctx, cases[first:])
    model = ctx.run_driver(["lock" + c[4:] for c in cases])
    ctx.compare("lock", cases, [canon(h) for h in impl], model,
                nontrivial=lambda c, a: any(shape(c)) or headerless_shape(c)[0] > 0)
    nreq = 0
    for c, h in zip(cases, impl):
        nreq += len(c.split()[2].split(","))
        for k, detail in sorted(classify(c, h).items()):
            ctx.oracle_fail("C14:" + k, WHAT[k] + " (" + detail + ")",
                            {"mode": "lock", "case": c, "implementation": h, "demanded": "every request completes, locks=free"})
    ctx.dist["requests issued"] = nreq
    ctx.dist["workspaces with a self parent (up to case)"] = sum(1 for c in cases if shape(c)[0])
    ctx.dist["workspaces with a parent cycle of length >= 2"] = sum(1 for c in cases if shape(c)[1])
    ctx.dist["workspaces with a header-less file that has a uses list"] = sum(1 for c in cases if headerless_shape(c)[0])
    ctx.dist["workspaces with a uses cycle among header-less files (incl. self-use)"] = sum(1 for c in cases if headerless_shape(c)[1])
    ctx.dist["workspaces with a uses entry that names no file"] = sum(1 for c in cases if ghost_uses(c))
    ctx.dist["workspaces with a dressed header / other encoding (flags b c a l m r)"] = sum(1 for c in cases if any(set(f.split(":")[4] if f.count(":") >= 4 else "") & set(DRESS) for f in c.split()[1].split(",")))
    ctx.samples = [{"case": cases[i], "harness": impl[i]} for i in (0, ncorpus, len(cases) - 1) if 0 <= i < len(cases)]
    return ctx.finish(rule=RULE, extra={"exhaustive": ctx.tier == "thorough", "exhaustive_space":
                                        "thorough: all 6^4 parent assignments over 4 classes x all 64 uses-graphs over 3 entities x both analysis orders, and everything over 1..3 classes; quick: all assignments over 1..4 classes (three random uses-graphs / orders each for 4) + all 64 uses-graphs"})


RULE = ("cases = corpus (self parent in every letter case, mutual parents, longer cycles, subclass of a cycle, uses cycles, missing parents, file without a class, unknown types, "
        "header-less files that use each other / themselves / classes) "
        "+ parent assignments (each class: none, any class incl. itself, a missing class; parent references in random letter case) x uses-graphs x analysis order (requests on the files "
        "forwards or backwards); every case issues diag, def, comp, hier, hierx on every file, each on its own thread with a deadline. "
        "uses lists that name entities WITHOUT a file at every position (first, middle, last, only, twice in two spellings) x flags (body with unresolvable names, unknown types, header-less) x parents "
        "(none, a class, a missing class) deterministically, + random workspaces over real entities and ghosts, + ghosts put into one uses list in five of all other cases; def / hier also ask about "
        "the names in the uses line, the types of the locals and the undeclared names, comp also after `o.` for a local whose type has no file; "
        "empty files (zero bytes, byte order mark / blank lines / comments only) and `module` headers as used entity, parent and user; chains of 24 classes (rooted, missing parent, one big cycle); "
        "one file in four dressed (blank lines / comment / annotation above the header, Latin-1 bytes, byte order mark, CRLF, sub-directory). "
        "header-less files (flag n: no class line, but uses list, members, unknown types, bodies): every uses-graph incl. self-use over 2 and 3 files x header-less subsets, "
        "and over 3 files used by a class. distinct_nontrivial = distinct implementation outputs among workspaces that have a self parent, a parent cycle or a header-less file with a uses list")


def replay(ctx):
    d = json.load(open(ctx.replay))
    case = d.get("case", {})
    line = case.get("case") if isinstance(case, dict) else case
    if not line:
        print("replay file names no input:", json.dumps(d.get("broken", d), indent=1)[:3000])
        return 1
    ctx.extract(["E11ParentLink", "E11TableCache"])
    ctx.build_harness()
    ctx.lake_build(["driver"])
    h = ctx.run_harness("lock", [line])[0]
    model = ctx.run_driver(["lock" + line[4:]])[0]
    print("case          :", line)
    print("implementation:", h)
    print("model         :", model)
    print("demanded      : every request completes, locks=free")
    bad = classify(line, h)
    if bad:
        for k, v in sorted(bad.items()):
            print("  C14:%s — %s" % (k, v))
        print("VIOLATION property=C14 replay=%s" % ctx.replay)
        return 1
    print("every request completed and no lock is held")
    return 0
