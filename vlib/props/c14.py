"""C14 — analysis terminates on every workspace shape (DESIGN §4 C14).

theorems : lean/GoldModel/Props/C14.lean — requests_complete (every request of every kind returns on every workspace), link_acyclic (the repaired linking rule never creates a cycle
           of parent tables, for every parent assignment / uses-graph / request order), lookup_terminates,
           walks_terminate (every graph) / walks_terminate_acyclic, negation witnesses self_cycle, mutual_cycle
tie 1    : E11ParentLink — self-parent guard, chain check and visited sets read from the source on every run
tie 2    : correspondence `lock` — the real ProjectManager on materialised workspaces of every shape: the model
           predicts per request completes | deadlocks | diverges and the final parent pointer of every class table
oracle   : every request of every kind on every file completes before a deadline on its own thread, a second
           request afterwards completes too, and no table / document / entity lock is left held
"""
import itertools
import json
import os
import re

from .. import core

NAMES = ["aQa", "aQb", "aQc", "aQd"]
KINDS = ["diag", "def", "comp", "hier", "hierx"]


def recase(s, rng):
    k = rng.below(4)
    if k == 0:
        return s
    if k == 1:
        return s.upper()
    if k == 2:
        return s.lower()
    return "".join(c.upper() if rng.chance(1, 2) else c.lower() for c in s)


def mk_case(n, parents, uses, rng, rev, noclass=False, kinds=KINDS):
    """parents[i] in {None, 0..n-1, n (= a class that does not exist)}; uses: i -> [j…]"""
    fs = []
    for i in range(n):
        p = parents[i]
        par = "-" if p is None else ("aMissing" if p == n else recase(NAMES[p], rng))
        mem = [recase(m, rng) for m in ["m1", "m2", "f1"] if rng.chance(1, 2)]
        us = [recase(NAMES[j], rng) for j in uses.get(i, [])]
        flags = ("x" if (us or rng.chance(1, 2)) else "") + ("u" if rng.chance(2, 5) else "")
        fs.append("%s:%s:%s:%s:%s" % (NAMES[i], par, "+".join(mem) or "-", "+".join(us) or "-", flags or "-"))
    if noclass:
        fs.append("aNoClass:-:-:-:n")
    idx = list(range(len(fs)))
    if rev:
        idx.reverse()
    reqs = ["%s@%d" % (k, i) for i in idx for k in kinds]
    return "lock %s %s" % (",".join(fs), ",".join(reqs))


def uses_graphs(m):
    """all uses-graphs over m entities (no self-uses)"""
    pairs = [(i, j) for i in range(m) for j in range(m) if i != j]
    for bits in itertools.product([0, 1], repeat=len(pairs)):
        u = {}
        for (i, j), b in zip(pairs, bits):
            if b:
                u.setdefault(i, []).append(j)
        yield u


def gen_cases(ctx):
    cases = []
    corpus = os.path.join(core.VERIF, "corpus", "C14", "cases.txt")
    if os.path.exists(corpus):
        cases += [l.strip() for l in open(corpus) if l.strip() and not l.startswith("#")]
    ncorpus = len(cases)
    rng = ctx.rng
    quick = ctx.tier == "quick"
    if quick:
        # every parent assignment over 1..3 classes, both analysis orders, one random uses-graph each
        for n in (1, 2, 3):
            for ps in itertools.product([None] + list(range(n + 1)), repeat=n):
                us = {i: [j for j in range(n) if j != i and rng.chance(2, 5)] for i in range(n)}
                for rev in (False, True):
                    cases.append(mk_case(n, ps, us, rng, rev, noclass=rng.chance(1, 6)))
                    ctx.count("exhaustive parents n=%d" % n)
        # every one of the 6^4 assignments over 4 classes, each with three random uses-graphs over 3 entities and random orders
        allps = list(itertools.product([None] + list(range(5)), repeat=4))
        rng.shuffle(allps)
        for ps in allps:
            for _ in range(3):
                us = {i: [j for j in range(3) if j != i and rng.chance(2, 5)] for i in range(3)}
                cases.append(mk_case(4, ps, us, rng, rng.chance(1, 2), noclass=rng.chance(1, 6)))
                ctx.count("exhaustive parents n=4 (three random uses-graphs / orders each)")
        # every uses-graph over 3 entities on a few parent shapes
        shapes = [(None, None, None), (1, 0, None), (1, 2, 0), (0, 0, 0), (3, 0, 1)]
        for u in uses_graphs(3):
            ps = shapes[rng.below(len(shapes))]
            cases.append(mk_case(3, ps, u, rng, rng.chance(1, 2)))
            ctx.count("exhaustive uses-graphs n=3")
    else:
        ug = list(uses_graphs(3))
        for ps in itertools.product([None] + list(range(5)), repeat=4):
            for u in ug:
                for rev in (False, True):
                    cases.append(mk_case(4, ps, u, rng, rev, noclass=rng.chance(1, 10)))
        ctx.count("exhaustive 6^4 parents x 64 uses-graphs x 2 orders", len(cases) - ncorpus)
        for n in (1, 2, 3):
            for ps in itertools.product([None] + list(range(n + 1)), repeat=n):
                for u in uses_graphs(n):
                    for rev in (False, True):
                        cases.append(mk_case(n, ps, u, rng, rev))
                        ctx.count("exhaustive n=%d" % n)
    return cases, ncorpus


def shape(case):
    """(has a self parent up to case, has a parent cycle of length >= 2)"""
    files = case.split()[1].split(",")
    par = {}
    for f in files:
        w = f.split(":")
        if w[1] != "-" and "n" not in (w[4] if len(w) > 4 else ""):
            par[w[0].upper()] = w[1].upper()
    selfp = any(k == v for k, v in par.items())
    cyc = False
    for k in par:
        seen, j = [], k
        while j in par and j not in seen:
            seen.append(j)
            j = par[j]
        if j in seen and len(seen) - seen.index(j) >= 2:
            cyc = True
    return selfp, cyc


def canon(h):
    """harness line -> the part the model predicts"""
    w = [x for x in h.split() if not x.startswith("after:")]
    if any(re.search(r"=(deadlocks|spins|crash-\w+|child-timeout)$", x) for x in w):
        w = [x for x in w if x.startswith("r:")]
    return " ".join(re.sub(r"=(crash-signal\d+|crash-exit|spins)$", "=diverges", x) for x in w)


def classify(case, h):
    kinds = {}
    selfp, cyc = shape(case)
    toks = h.split()
    for x in toks:
        if x.startswith("r:"):
            req, res = x[2:].split("=", 1)
            if res == "completes":
                continue
            if res == "deadlocks":
                k = "deadlock-self-parent" if selfp and not cyc else ("deadlock-mutual-parent" if cyc else "deadlock")
            elif res.startswith("crash") or res == "spins":
                k = "stack-overflow-cyclic-parents" if (selfp or cyc) else "crash"
            elif res == "panic":
                k = "panic"
            else:
                k = "request-timeout"
            kinds.setdefault(k, "request %s: %s" % (req, res))
        elif x.startswith("after:") and not x.endswith("=completes"):
            kinds.setdefault("lock-left-held", "after a request that did not return, %s" % x[6:])
        elif x.startswith("locks=held"):
            kinds.setdefault("lock-left-held", x)
    if not any(t.startswith("locks=") for t in toks) and not kinds:
        kinds["crash"] = "no result line"
    return kinds


WHAT = {
    "deadlock-self-parent": "a class that names itself as parent (in another letter case) dead-locks a request",
    "deadlock-mutual-parent": "classes that name each other as parent dead-lock a request",
    "deadlock": "a request blocks forever",
    "stack-overflow-cyclic-parents": "a member hierarchy request over cyclic parents recurses without end (the process aborts)",
    "crash": "the process died during a request",
    "panic": "a request panicked",
    "request-timeout": "a request did not finish within the overall deadline",
    "lock-left-held": "a lock is left held: a second request on the same manager blocks / a table, document or entity mutex cannot be taken",
}


def run_sharded(ctx, cases, nshards=16):
    from concurrent.futures import ThreadPoolExecutor
    if not cases:
        return []
    n = max(1, min(nshards, (len(cases) + 9) // 10))
    size = (len(cases) + n - 1) // n
    parts = [cases[i * size:(i + 1) * size] for i in range(n)]
    parts = [p for p in parts if p]
    with ThreadPoolExecutor(len(parts)) as ex:
        outs = list(ex.map(lambda p: ctx.run_harness("lock", p, shards=1, timeout=7200), parts))
    return [x for o in outs for x in o]


def run(ctx):
    ctx.trusted += [
        "Lean 4.33 kernel + leanchecker; axioms ⊆ {propext, Classical.choice, Quot.sound}",
        "hand-written model lean/GoldModel/Model/Locks.lean (publish-before-walk, handle_class linking rule, lock structure of parent recursion, member walks), tied by the `lock` correspondence (per-request outcome + final parent pointers) and by E11ParentLink",
        "vlib/extractors/parent_link.py (reads guard, chain check, visited sets; fails closed on any other shape)",
        "std::sync::Mutex as a non-reentrant lock whose guard is dropped at the end of the statement; Arc identity as table identity",
        "harness/src/modes/lock.rs + wsutil.rs (real ProjectManager / services on materialised workspaces, one thread per request, deadline + /proc thread state to tell blocked from busy, child processes), lean_exe compilation of the driver",
    ]
    ctx.assumptions += [
        "'bounded time' is measured (deadline %s ms per request, confirmed blocked via /proc); the theorems give termination with all locks released on the model" % os.environ.get("VERIF_LOCK_DEADLINE_MS", "1500"),
        "requests run one at a time on a fresh manager per case (concurrent requests are C03's subject)",
        "file stem = class name; workspaces are the generator's (<= 4 classes + optional file without a class, members m1 m2 f1, uses over <= 3 entities, unknown types, method bodies)",
    ]
    if ctx.replay:
        return replay(ctx)
    ctx.extract(["E11ParentLink"])
    ctx.prove("GoldModel.Props.C14")
    if not ctx.build_harness():
        return ctx.finish(rule=RULE)
    cases, ncorpus = gen_cases(ctx)
    ctx.log("%d cases (%d corpus)" % (len(cases), ncorpus))
    # a hang costs its deadline, so (1) use every core even for few cases, (2) run a first wave and stop
    # there if the property is already violated (the verdict and the replay do not get better by waiting)
    first = ncorpus + 160
    impl = run_sharded(ctx, cases[:first])
    early = any(classify(c, h) for c, h in zip(cases, impl))
    if early:
        ctx.log("the first wave (%d cases) already violates the property: not running the remaining %d" % (len(impl), len(cases) - len(impl)))
        ctx.notes.append("stopped after the first wave")
        cases = cases[:first]
    else:
        impl += run_sharded(ctx, cases[first:])
    model = ctx.run_driver(["lock" + c[4:] for c in cases])
    ctx.compare("lock", cases, [canon(h) for h in impl], model,
                nontrivial=lambda c, a: any(shape(c)))
    nreq = 0
    for c, h in zip(cases, impl):
        nreq += len(c.split()[2].split(","))
        for k, detail in sorted(classify(c, h).items()):
            ctx.oracle_fail("C14:" + k, WHAT[k] + " (" + detail + ")",
                            {"mode": "lock", "case": c, "implementation": h, "demanded": "every request completes, locks=free"})
    ctx.dist["requests issued"] = nreq
    ctx.dist["workspaces with a self parent (up to case)"] = sum(1 for c in cases if shape(c)[0])
    ctx.dist["workspaces with a parent cycle of length >= 2"] = sum(1 for c in cases if shape(c)[1])
    ctx.samples = [{"case": cases[i], "harness": impl[i]} for i in (0, ncorpus, len(cases) - 1) if 0 <= i < len(cases)]
    return ctx.finish(rule=RULE, extra={"exhaustive": ctx.tier == "thorough", "exhaustive_space":
                                        "thorough: all 6^4 parent assignments over 4 classes x all 64 uses-graphs over 3 entities x both analysis orders, and everything over 1..3 classes; quick: all assignments over 1..4 classes (three random uses-graphs / orders each for 4) + all 64 uses-graphs"})


RULE = ("cases = corpus (self parent in every letter case, mutual parents, longer cycles, subclass of a cycle, uses cycles, missing parents, file without a class, unknown types) "
        "+ parent assignments (each class: none, any class incl. itself, a missing class; parent references in random letter case) x uses-graphs x analysis order (requests on the files "
        "forwards or backwards); every case issues diag, def, comp, hier, hierx on every file, each on its own thread with a deadline. "
        "distinct_nontrivial = distinct implementation outputs among workspaces that have a self parent or a parent cycle")


def replay(ctx):
    d = json.load(open(ctx.replay))
    case = d.get("case", {})
    line = case.get("case") if isinstance(case, dict) else case
    if not line:
        print("replay file names no input:", json.dumps(d.get("broken", d), indent=1)[:3000])
        return 1
    ctx.extract(["E11ParentLink"])
    ctx.build_harness()
    ctx.lake_build(["driver"])
    h = ctx.run_harness("lock", [line])[0]
    model = ctx.run_driver(["lock" + line[4:]])[0]
    print("case          :", line)
    print("implementation:", h)
    print("model         :", model)
    print("demanded      : every request completes, locks=free")
    bad = classify(line, h)
    if bad:
        for k, v in sorted(bad.items()):
            print("  C14:%s — %s" % (k, v))
        print("VIOLATION property=C14 replay=%s" % ctx.replay)
        return 1
    print("every request completed and no lock is held")
    return 0
