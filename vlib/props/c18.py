"""C18 — symbol tables behave like nested case-insensitive maps (DESIGN §4 C18).

theorems : lean/GoldModel/Props/C18.lean  (M-SYM refines the nested-map specification)
tie      : correspondence `sym` — op sequences on the real SymbolTable chain vs the model
oracle   : the implementation's answers vs the *specification* (`symspec` mode evaluates
           Spec.lookup / allHits / live / merged of the Lean development on the same case)
"""
import itertools
import os

from .. import core

NAMES = ["a", "A", "b", "B", "c", "C"]
LATIN = [["é", "É", "b", "B", "ä", "Ä"], ["café", "CAFÉ", "Café", "cafe", "CAFE", "cafÉ"], ["ñu", "ÑU", "nu", "Ñu", "øl", "ØL"]]
KIND = {"g": "lookup", "w": "lookup-with-parent", "s": "own-scope-lookup", "a": "all-matches",
        "t": "iteration-order", "c": "merged-listing"}


def gen_cases(ctx):
    cases = []
    corpus = os.path.join(core.VERIF, "corpus", "C18", "cases.txt")
    if os.path.exists(corpus):
        cases += [l.strip() for l in open(corpus) if l.strip() and not l.startswith("#")]
    ncorpus = len(cases)
    maxlen = {"quick": {1: 4, 2: 3, 3: 3}, "thorough": {1: 6, 2: 5, 3: 4}}[ctx.tier]
    for n in (1, 2, 3):
        alpha = ["i%d:%s" % (s, nm) for s in range(n) for nm in NAMES]
        for L in range(0, maxlen[n] + 1):
            for seq in itertools.product(alpha, repeat=L):
                cases.append("sym %d %s %s Q" % (n, ",".join(NAMES), " ".join(seq)))
                ctx.count("exhaustive n=%d len=%d" % (n, L))
    nexh = len(cases) - ncorpus
    # random longer histories, queries interleaved (queries must not change the state)
    nrand = 1000 if ctx.tier == "quick" else 20000
    for _ in range(nrand):
        n = 1 + ctx.rng.below(3)
        L = 5 + ctx.rng.below(20)
        ops = []
        for _ in range(L):
            if ctx.rng.chance(1, 5):
                ops.append("Q")
            else:
                # out-of-range scope now and then: must be ignored by both sides
                s = ctx.rng.below(n + (1 if ctx.rng.chance(1, 20) else 0))
                ops.append("i%d:%s" % (s, ctx.rng.choice(NAMES)))
        ops.append("Q")
        cases.append("sym %d %s %s" % (n, ",".join(NAMES), " ".join(ops)))
        ctx.count("random n=%d" % n)
    # names with non-ASCII letters: `to_uppercase` is the Unicode one, and every function must fold the same way
    for _ in range(nrand // 5):
        n = 1 + ctx.rng.below(3)
        names = ctx.rng.choice(LATIN)
        ops = []
        for _ in range(3 + ctx.rng.below(12)):
            if ctx.rng.chance(1, 5):
                ops.append("Q")
            else:
                ops.append("i%d:%s" % (ctx.rng.below(n), ctx.rng.choice(names)))
        ops.append("Q")
        cases.append("sym %d %s %s" % (n, ",".join(names), " ".join(ops)))
        ctx.count("random non-ASCII names n=%d" % n)
    nrand += nrand // 5
    return cases, ncorpus, nexh, nrand


def run(ctx):
    ctx.trusted += [
        "Lean 4.33 kernel + leanchecker; axioms ⊆ {propext, Classical.choice, Quot.sound}",
        "hand-written model lean/GoldModel/Model/SymTab.lean, tied to src/analyzers_v2/symbol_table.rs by the `sym` correspondence only",
        "std HashMap modelled as a finite map (association list); str::to_uppercase as an arbitrary function `norm` (ASCII + Latin-1 letter upper-casing in executable runs)",
        "harness/src/modes/sym.rs (drives the real SymbolTable through the ISymbolTable trait), lean_exe compilation of the driver",
    ]
    ctx.assumptions += [
        "every insertion uses key == SymbolInfo.id (true of all call sites in ast_annotator.rs; the harness does the same)",
        "chains are acyclic (cyclic parent chains are C14's subject)",
    ]
    if ctx.replay:
        return replay(ctx)
    ctx.prove("GoldModel.Props.C18")
    if not ctx.build_harness():
        return ctx.finish(rule=RULE)
    cases, ncorpus, nexh, nrand = gen_cases(ctx)
    ctx.log("%d cases (%d corpus, %d exhaustive, %d random)" % (len(cases), ncorpus, nexh, nrand))
    impl = ctx.run_harness("sym", cases)
    model = ctx.run_driver(cases)
    spec = ctx.run_driver(["symspec" + c[3:] for c in cases])
    ctx.compare("sym", cases, impl, model, nontrivial=lambda c, a: " i" in c)
    # implementation-level oracle: the real table vs the specification of the theorems
    for c, a, s in zip(cases, impl, spec):
        if a != s:
            kinds = set()
            aw, sw = a.split(" "), s.split(" ")
            if len(aw) != len(sw):
                kinds.add("crash-or-shape")
            else:
                for x, y in zip(aw, sw):
                    if x != y:
                        kinds.add(KIND.get(x[:1], "crash-or-shape"))
            for k in sorted(kinds):
                ctx.oracle_fail("C18:" + k, "the real SymbolTable answers differently from the nested-map specification (%s)" % k,
                                {"mode": "sym", "case": c, "implementation": a, "specification": s})
    ctx.samples = [{"case": cases[i], "implementation": impl[i]} for i in (ncorpus + 40, ncorpus + nexh - 1, len(cases) - 1) if i < len(cases)]
    return ctx.finish(rule=RULE, extra={"exhaustive": True,
                                        "exhaustive_space": "all insertion sequences up to the per-chain length bound over 6 spellings x scopes, full query battery after each"})


RULE = ("cases = corpus + every insertion sequence up to length L(n) over {a,A,b,B,c,C} x n scopes (n=1..3) followed by the full query battery "
        "(6 spellings x every start scope x get/search_wparent/search/search_all + iter + collect_unique), + random longer histories with "
        "interleaved batteries; distinct_nontrivial = number of distinct implementation outputs among cases with at least one insertion")


def replay(ctx):
    import json
    d = json.load(open(ctx.replay))
    case = d.get("case", {})
    line = case.get("case") if isinstance(case, dict) else case
    if not line:
        print("replay file names no input:", json.dumps(d.get("broken", d), indent=1)[:3000])
        return 1
    ctx.build_harness()
    ctx.lake_build(["driver"])
    impl = ctx.run_harness("sym", [line])[0]
    spec = ctx.run_driver(["symspec" + line[3:]])[0]
    model = ctx.run_driver([line])[0]
    print("case          :", line)
    print("implementation:", impl)
    print("model         :", model)
    print("specification :", spec)
    if impl != spec:
        print("VIOLATION property=C18 replay=%s" % ctx.replay)
        return 1
    print("implementation agrees with the specification on this case")
    return 0
