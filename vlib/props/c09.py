"""C09 — a syntax error stays inside the method that contains it (DESIGN §4 C09).

theorems : lean/GoldModel/Props/C09.lean — takeUntil_split, reslice_ends_at_terminator,
           top_unfold, post_independent, takeUntil_unterminated, reslice_unterminated_keeps_all,
           missing_end_reported; negation witness takeUntilOld_drops_last for the pinned take_until.
           lean/GoldModel/Props/C09Prog.lean — the property for whole PROGRAMS: locality_partial(_memo)
           (well-formed pre ++ [method] ++ post, any terminator-free replacement body that does not continue
           the header: the other declarations' subtrees are those of the unmodified program, the diagnostics
           are those of the statement parser on the body alone), outline_unchanged, diags_end_in_body,
           truncated / truncated_wellformed; negation witness locality_full_fails (replayed below).
tie      : `parse` correspondence on every original / mutated / truncated file.
oracle   : on the implementation: the other declarations' subtrees, outline entries and
           diagnostics are unchanged, new diagnostics lie within the method's lines; a truncated
           last method is reported, keeps all statements, earlier declarations untouched; and (the
           diagnostics clause of locality_partial) when the body does not continue the header, the
           file's diagnostics are exactly those of the real statement parser on the body alone.
"""
from .. import core, sexp
from ..gen import parsecases, prog, toks

RULE = ("cases = generated programs (3..6 declarations, each laid out on its own block of source lines) x every method x replacement bodies "
        "(every token sequence up to length L over a 16-kind alphabet without terminators, generated statement blocks, keyword soups without "
        "EndProc/EndFunc/End) + every program truncated before the last method's end keyword; "
        "distinct_nontrivial = distinct implementation outputs of mutated files with at least one diagnostic")

TERMS = ("EndProc", "EndFunc", "End")
BLOCK = 24      # source lines reserved per declaration


def layout(groups):
    """each group on its own block of lines: returns (wire line, [(first line, last line)])"""
    out = ["parse"]
    spans = []
    for gi, g in enumerate(groups):
        base = gi * BLOCK
        line, col, n = base, 0, 0
        for k, v in g:
            if n >= 6:
                line, col, n = line + 1, 0, 0
            out.append("%s:%s:%d:%d:%d:%d" % (k, core.esc(v), line, col, line, col + len(v)))
            col += len(v) + 1
            n += 1
        spans.append((base, base + BLOCK - 1))
    return " ".join(out), spans


def method(g, rng, body):
    T = prog.T
    if rng.chance(1, 2):
        hdr = [T("Proc", "proc"), g.ident("M")] + ([T("OBracket"), g.ident("p"), T("Colon"), T("Identifier", "int"), T("CBracket")] if rng.chance(1, 2) else [])
        return hdr, body, [T("EndProc", "endProc")]
    hdr = [T("Func", "func"), g.ident("M")] + ([T("OBracket"), T("CBracket")] if rng.chance(1, 2) else []) + [T("Return", "return"), T("Identifier", "int")]
    return hdr, body, [T("EndFunc", "endFunc")]


def other_decl(g, rng):
    T = prog.T
    c = rng.below(6)
    if c == 0:
        return [T("Const", "const"), g.ident("c"), T("Equals", "="), T("NumericLiteral", "7")]
    if c == 1:
        return [T("Type", "type"), g.ident("t"), T("Colon"), T("Identifier", "int")]
    if c == 4:
        # declarations whose parsers share sub-parsers with statements (literals, identifiers, parameter lists)
        return [T("Type", "type"), g.ident("t"), T("Colon"), T("NumericLiteral", "1"), T("To", "to"), T("NumericLiteral", "10")]
    if c == 5:
        return [T("Memory", "memory"), g.ident("f"), T("Colon"), T("Identifier", "int"), T("Absolute", "absolute"), g.ident("g")]
    if c == 2:
        return [g.ident("f"), T("Colon"), T("Identifier", "tFoo")]
    return [T("Comment", "; note")]


def tops(line):
    t = sexp.field(line, "T")
    return sexp.parse(t).kids if t else None


def dump(n):
    rs = lambda r: "%d:%d-%d:%d" % r
    return "(%s %s %s %s)" % (n.kind, n.ident, rs(n.rng), " ".join(dump(k) for k in n.kids))


def diag_list(line):
    d = sexp.field(line, "D") or ""
    out = []
    for x in d.split("|"):
        if x:
            r, msg = x.split(":", 2)[0:2], x.split(":", 2)[2] if x.count(":") >= 2 else ""
            a, b = x.split("-", 1)
            l1, c1 = a.split(":")
            rest = b.split(":")
            out.append((int(l1), int(c1), int(rest[0]), int(rest[1]), core.unesc(":".join(rest[2:]))))
    return out


def run(ctx):
    ctx.trusted += [
        "Lean 4.33 kernel + leanchecker; axioms ⊆ {propext, Classical.choice, Quot.sound}",
        "hand-written parser model tied by the `parse` correspondence; Python evaluation of the isolation rule on dumped trees",
    ]
    ctx.assumptions += [
        "Props/C09.lean is about the slice mechanism and the fold structure of the top level; Props/C09Prog.lean composes them with the declaration "
        "round trip (C06Prog) into the property for whole programs: for WELL-FORMED surrounding declarations (the abstract syntax of Model/Prog.lean: "
        "no comments, no OQL) and replacement bodies that do not continue the header (decidable guard; without it the statement is false, "
        "locality_full_fails). Proved there: the header consumes exactly the header tokens, the declarations before and after keep their subtrees, "
        "the diagnostics are those of the body parsed alone and (T5) end no later than the body's last line. NOT proved: a lower bound for the "
        "positions of those diagnostics, and surrounding declarations outside the abstract syntax — correspondence + oracle only",
    ]
    if ctx.replay:
        return replay(ctx)
    ctx.prove("GoldModel.Props.C09")
    ctx.prove("GoldModel.Props.C09Prog")
    if not ctx.build_harness():
        return ctx.finish(rule=RULE)
    q = ctx.tier == "quick"
    rng = ctx.rng
    T = prog.T
    kinds = [k for k in toks.LEX.keys() if k not in TERMS]
    alpha = [k for k in toks.ALPHA16 if k not in TERMS] + ["Forward", "OSqrBracket", "Func"]
    short = [[T(k) for k in s] for s in toks.exhaustive(alpha, 2 if q else 3)]
    # bodies that break off INSIDE a list: after a separator, inside the second / third item, inside nested lists
    I_ = lambda n: T("Identifier", n)
    for tail in ([T("Minus", "-")], [T("OBracket")], [T("Not", "not")], [I_("b"), T("Comma", ","), T("Not", "not")], [T("OSqrBracket"), T("NumericLiteral", "1"), T("Comma", ","), T("OBracket")],
                 [I_("g"), T("OBracket"), I_("c"), T("Comma", ",")], []):
        short.append([I_("Total"), T("Equals", "="), I_("Foo"), T("OBracket"), I_("a"), T("Comma", ",")] + tail)
        short.append([T("OSqrBracket"), T("NumericLiteral", "1"), T("Comma", ",")] + tail)
        short.append([I_("x"), T("Dot", "."), I_("f"), T("OBracket"), I_("a"), T("Comma", ",")] + tail)
    # 1. generated programs; keep those the implementation parses without any diagnostic (well-formed originals)
    progs = []
    nprog = 400 if q else 4000
    for pi in range(nprog):
        g = prog.Gen(rng)
        groups, meths = [], []
        for i in range(3 + rng.below(4)):
            if rng.chance(1, 2):
                h, b, e = method(g, rng, g.block(2, 1 + rng.below(3)))
                meths.append((len(groups), h, e))
                groups.append(h + [t for t in b if t[0] not in TERMS][:60] + e)
            else:
                groups.append(other_decl(g, rng))
        if meths:
            progs.append((g, groups, meths))
    orig_out = ctx.run_harness("parse", [layout(p[1])[0] for p in progs])
    progs = [p for p, o in zip(progs, orig_out) if " D= R=" in o]
    ctx.count("well-formed originals", len(progs))
    # 2. every method of every program x replacement bodies; truncation of the last method
    pairs = []     # (orig groups, mutated groups, index of the method, body tokens, header)
    for pi, (g, groups, meths) in enumerate(progs):
        for (gi, h, e) in meths:
            bodies = []
            if pi < (30 if q else 60):
                bodies += short
            # runs of operands of every small length (a stale cache entry needs the right remaining length)
            bodies += [[T("Identifier", "x%d" % j) for j in range(n)] for n in range(1, 7)]
            # floods: a body that yields ten and more diagnostics of its own (whatever the parser keeps count of while it
            # recovers inside one body must not reach the bodies after it)
            if pi % 3 == 0:
                bodies.append([T("CBracket")] * (10 + rng.below(16)))
                bodies.append([T(rng.choice(["CBracket", "CSqrBracket", "Comma", "Equals", "EndIf", "Else", "To"])) for _ in range(12 + rng.below(40))])
                ctx.count("flood bodies", 2)
            for _ in range(6 if q else 12):
                c = rng.below(3)
                if c == 0:
                    bodies.append([T(rng.choice(kinds)) for _ in range(1 + rng.below(20))])
                elif c == 1:
                    bodies.append([t for t in prog.mutate(rng, g.block(2, 1 + rng.below(3)), kinds) if t[0] not in TERMS][:60])
                else:
                    bodies.append([T(rng.choice(alpha)) for _ in range(1 + rng.below(8))])
            for b in bodies:
                mut = list(groups)
                mut[gi] = h + b + e
                pairs.append((groups, mut, gi, b, h))
        gi, h, e = meths[-1]
        if gi == len(groups) - 1:
            tr = list(groups)
            tr[gi] = groups[gi][:-1]
            pairs.append((groups, tr, gi, None, h))
            # the same with an EMPTY body: the file ends right after the method header
            o2, t2 = list(groups), list(groups)
            o2[gi] = h + e
            t2[gi] = list(h)
            pairs.append((o2, t2, gi, None, h))
            ctx.count("truncated right after the header")
    # the negation witness of Props/C09Prog.lean (`locality_full_fails`: proc P / forward [ / endproc / const c = 1), replayed on
    # the real parser: the correspondence compares it with the model, the oracle files it under the known finding
    wh = [T("Proc", "proc"), T("Identifier", "P")]
    wc = [T("Const", "const"), T("Identifier", "c"), T("Equals", "="), T("NumericLiteral", "1")]
    wb = [T("Forward", "forward"), T("OSqrBracket")]
    pairs.append(([wh + [T("EndProc", "endproc")], wc], [wh + wb + [T("EndProc", "endproc")], wc], 0, wb, wh))
    ctx.count("negation witness of locality_full_fails replayed")
    lines = []
    for o, m, gi, b, h in pairs:
        lines.append(layout(o)[0])
        lines.append(layout(m)[0])
    ctx.log("%d file pairs" % len(pairs))
    impl = ctx.run_harness("parse", lines, timeout=1200)
    model = ctx.run_driver(lines, timeout=1200)
    ctx.compare("parse", lines, impl, model, nontrivial=lambda c, a: " D= " not in a)
    for k, (o, m, gi, b, h) in enumerate(pairs):
        io, im = impl[2 * k], impl[2 * k + 1]
        case = {"mode": "parse", "case": lines[2 * k + 1], "original": lines[2 * k], "method_index": gi,
                "body": " ".join(t[0] for t in b) if b is not None else "<truncated before the end keyword>"}
        if im == "panic" or im.startswith("<no-output") or io == "panic":
            ctx.oracle_fail("C09:crash", "parser crashed", case)
            continue
        lo, hi = gi * BLOCK, gi * BLOCK + BLOCK - 1
        inside = lambda line: lo <= line <= hi
        to, tm = tops(io), tops(im)
        oo = [dump(n) for n in to if not inside(n.rng[0])]
        mm = [dump(n) for n in tm if not inside(n.rng[0])]
        do = [d for d in diag_list(io) if not inside(d[0])]
        dm_all = diag_list(im)
        dm = [d for d in dm_all if not (inside(d[0]) and inside(d[2]))]
        first = next((t[0] for t in (b or []) if t[0] != "Comment"), None)
        has_params = any(t[0] == "OBracket" for t in h)
        escapes = first in ("Forward", "External") or (first == "OBracket" and not has_params)
        sig_leak = "C09:header-continuation-escapes" if escapes else "C09:error-leaks"
        if b is not None:
            if oo != mm:
                ctx.oracle_fail(sig_leak, "replacing a method body changed another top-level declaration", dict(case, implementation=im[:1500], original_output=io[:1500]))
            elif do != dm:
                ctx.oracle_fail(sig_leak, "replacing a method body changed diagnostics outside the method / produced a diagnostic outside its lines",
                                dict(case, diagnostics_outside_mutated=dm[:5], diagnostics_outside_original=do[:5]))
        else:
            # truncated last method
            if oo != mm:
                ctx.oracle_fail("C09:truncated-changes-earlier", "removing the last end keyword changed an earlier declaration", dict(case, implementation=im[:1500]))
            if not any("end token not found" in d[4] for d in dm_all):
                ctx.oracle_fail("C09:truncated-not-reported", "a method without end keyword is not reported", dict(case, implementation=im[:1500]))
            mo = [n for n in to if inside(n.rng[0])]
            mt = [n for n in tm if inside(n.rng[0])]
            body_of = lambda ns: [dump(k) for n in ns for c in n.kids if c.kind == "method_body" for k in c.kids]
            if body_of(mo) != body_of(mt):
                ctx.oracle_fail("C09:truncated-loses-statement", "a method without end keyword does not keep all of its statements",
                                dict(case, statements_original=body_of(mo)[-3:], statements_truncated=body_of(mt)[-3:]))
    body_alone(ctx, pairs, lines, impl)
    ctx.samples = [{"case": lines[i][:400], "diagnostics": sexp.field(impl[i], "D")} for i in (1, len(lines) // 2 | 1, len(lines) - 1)]
    return ctx.finish(rule=RULE, extra={"exhaustive": True, "exhaustive_space": "replacement bodies up to length %d over a 16-kind alphabet (minus terminators, plus forward, [ and func)" % (2 if q else 3)})


MODS = ("Private", "Protected", "Final", "Override", "External", "Forward")


def continues_header(h, b):
    """the guard of `locality_partial` (Hdr.cont / noContB in Lemmas/ProgLocality.lean), evaluated on the generator's header and body"""
    first = next((t[0] for t in b if t[0] != "Comment"), None)
    if first is None:
        return False
    bare_proc = h[0][0] == "Proc" and not any(t[0] == "OBracket" for t in h)
    return first in MODS or (bare_proc and first in ("OBracket", "Pound"))


def body_alone(ctx, pairs, lines, impl):
    """the diagnostics clause of `locality_partial`, evaluated on the implementation: when the replacement body does not continue the
    header, the diagnostics of the whole mutated file (the original has none) are EXACTLY those the real statement parser reports when it
    is given the replacement body alone (harness mode `body`: clear_cache + parse_repeat_w_context(parse_statement_v2), real context)"""
    want = []
    for k, (o, m, gi, b, h) in enumerate(pairs):
        if b is None or not b or continues_header(h, b):
            continue
        toks_m = lines[2 * k + 1].split(" ")[1:]
        off = sum(len(g) for g in m[:gi]) + len(h)
        want.append((k, "body " + " ".join(toks_m[off:off + len(b)])))
        ctx.count("diagnostics of the file vs the body alone")
    seen = {}
    for k, l in want:
        seen.setdefault(l, len(seen))
    blines = sorted(seen, key=seen.get)
    bout = ctx.run_harness("body", blines, timeout=900)
    for k, l in want:
        a = bout[seen[l]]
        md = sexp.field(a, "MD")
        d = sexp.field(impl[2 * k + 1], "D")
        if md is None or d is None:
            continue        # crashes are reported by the main loop
        if md != d:
            o, m, gi, b, h = pairs[k]
            ctx.oracle_fail("C09:diagnostics-not-those-of-the-body",
                            "the diagnostics of the file with the replaced body are not the diagnostics of the statement parser on that body alone",
                            {"mode": "parse", "case": lines[2 * k + 1], "original": lines[2 * k], "method_index": gi,
                             "body": " ".join(t[0] for t in b), "body_case": l, "file_diagnostics": d, "body_diagnostics": md})


def replay(ctx):
    import json
    d = json.load(open(ctx.replay))
    case = d.get("case", {})
    if not isinstance(case, dict) or "case" not in case:
        print("replay file names no input:", json.dumps(d.get("broken", d), indent=1)[:3000])
        return 1
    ctx.build_harness()
    ctx.lake_build(["driver"])
    for name in ("original", "case"):
        if name in case:
            a = ctx.run_harness("parse", [case[name]])[0]
            print("%-9s:" % name, case[name][:1500])
            print("  tree   :", (sexp.field(a, "T") or a)[:2000])
            print("  diags  :", sexp.field(a, "D"))
    print("replaced body:", case.get("body"))
    print("compare the declarations outside block %s of the two trees above" % case.get("method_index"))
    return 0
