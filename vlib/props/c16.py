"""C16 — rule-based warnings match their stated rules (DESIGN §4 C16, notes/C16.md).

theorems : lean/GoldModel/Props/C16.lean (tables_match, rule_returnType, rule_inherited, rule_unpurged,
           rule_naming, lint_is_union, lint_sources, lint_local, request_idempotent, negation witnesses)
ties     : E8_LintConsts / E9_FoldSites, `lint` correspondence (as C15)
oracles  : response items (message class, range, severity) vs the generator's verdicts; vs the
           Lean specification; method permutations; re-casings; second request = first request
"""
from .. import lintcheck

RULE = ("cases = one program per toggle (every flagged / plain return type in three casings; 9 method names x 9 inherited variants incl. "
        "another method's inherited, plain call, pass, nested, call placed in another method; 9 purge variants incl. purge of another "
        "variable, second argument, other method, other letter case; naming: member / parameter / local / type / constant x capitalised "
        "or not x override present or absent) + random files of 1..8 methods with all toggles drawn independently, each followed by a "
        "method permutation and a re-casing + the discrepancy probes of corpus/C16/probes.txt + grammar-wide token programs (vlib/gen/prog.py: "
        "every construct, token-level mutations, names colliding with the rule names) on which the real parser + analyzers are compared with "
        "the model and, wherever the guards of the theorems hold, with the specification; "
        "distinct_nontrivial = distinct implementation outputs with at least one item")


def run(ctx):
    return lintcheck.run(ctx, "C16", RULE)
