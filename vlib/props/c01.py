"""C01 — every request is answered exactly once and the server stays alive (DESIGN §4 C01).

theorems : lean/GoldModel/Props/C01.lean (M-SRV over M-DOC; `PoolSpec` = C20's contract, a hypothesis)
tie 1    : E7_Dispatch (cast_req / cast_not chains, fall-through, pool size), E7b_DocFlags (key conversion)
tie 2    : correspondence `serve` — the REAL BINARY over stdio (vlib/lsp.py) vs the model:
           multiset of (id, ok|err) + alive + exit status
oracle   : the property itself on the binary's stdout / liveness / exit status / stderr:
           exactly one response per request id read, none for other ids, alive until told to
           stop, status 0 after shutdown+exit, no `panicked` on stderr
"""
import concurrent.futures
import json
import os
import re
import shutil
import time

from .. import core, lsp
from ..core import esc

WS = os.path.join(core.CACHE, "ws")

SUPPORTED = ["textDocument/documentSymbol", "textDocument/diagnostic", "textDocument/definition",
             "textDocument/completion", "textDocument/prepareTypeHierarchy", "typeHierarchy/subtypes",
             "typeHierarchy/supertypes"]
UNSUPPORTED = ["textDocument/hover", "textDocument/references", "workspace/symbol", "textDocument/formatting",
               "$/unknownRequest", "textDocument/codeAction", "textDocument/rename", "gold/custom"]
NOTES = ["textDocument/didChange", "textDocument/didSave", "textDocument/didOpen", "textDocument/didClose"]
OTHER_NOTES = ["$/cancelRequest", "workspace/didChangeConfiguration", "$/setTrace", "textDocument/willSave"]
OTHER_URIS = ["untitled:Untitled-1", "http://example.org/a.god", "file://otherhost/x/a.god", "gold:scratch",
              # files OUTSIDE the workspace: paths shorter than the root's, with multi-byte characters, the file system root
              "file:///a.god", "file:///x", "file:///", "file:///%C3%A9%C3%A9%C3%A9%C3%A9%C3%A9%C3%A9%C3%A9%C3%A9/%E6%BC%A2.god", "file:///tmp/a.god",
              "urn:isbn:0451450523", "file:///work/%F0%9F%99%82/aRoot.god"]

CLASSES = ["aRoot", "aSecond", "aThird", "aFourth", "wUtil"]


def good_text(cls, parent, uses, n, rng):
    lines = ["class %s%s" % (cls, (" (%s)" % parent) if parent else ""), ""]
    if uses:
        lines += ["uses %s" % ", ".join(uses), ""]
    lines += ["const c%s%d = 'k'" % (cls, n), "", "F%s%d : Int4" % (cls, n), "Ref%s : refto %s" % (cls, cls), ""]
    if uses:
        lines += ["U%s : refto %s" % (cls, uses[0]), ""]
    lines += ["proc P%s%d(a: Int4)" % (cls, n), "   var x : Int4", "   var y : %s" % (uses[0] if uses else cls),
              "   x = self.F%s%d + a" % (cls, n), "   WriteLn(y.Ref%s)" % cls, "   self.", "   inherited P%s%d(a)" % (cls, n), "endProc", "",
              "func Q%s : Int4" % cls, "   return c%s%d" % (cls, n), "endFunc", ""]
    return "\n".join(lines)


def mutate(text, rng):
    cs = list(text)
    for _ in range(1 + rng.below(6)):
        if not cs:
            break
        k = rng.below(5)
        i = rng.below(len(cs))
        if k == 0:
            del cs[i]
        elif k == 1:
            cs.insert(i, rng.choice(list("().:;'\"=,\n\t +-*/<>[]{}&|#@é")))
        elif k == 2:
            j = rng.below(len(cs))
            cs[i], cs[j] = cs[j], cs[i]
        elif k == 3:
            del cs[i:i + 1 + rng.below(20)]
        else:
            cs = cs[:i]
    return "".join(cs)


def garbage(rng):
    k = rng.below(4)
    if k == 0:
        return ""
    if k == 1:
        return "".join(chr(32 + rng.below(95)) for _ in range(rng.below(200)))
    if k == 2:
        return "".join(rng.choice(["class", "proc", "endProc", "(", ")", ".", "self", "x", "=", "'", "\n", " ", "end", "if", "uses", ":", "func"]) + " " for _ in range(rng.below(80)))
    return "�\u0000\u0001 proc ( ( ( . . . 'unterminated\n" * (1 + rng.below(3))


def some_text(cls, rng, n):
    """a text for the file whose stem is `cls`: mostly the parent named in it comes earlier in CLASSES (acyclic
    inheritance); one text in eight names ANY class — itself (any letter case), a later one, one that does not
    exist — so that self-parents, cycles and dangling parents occur in workspaces, changes and saves (the server
    must answer and terminate all the same: the start-up tree job and every analysis meet these shapes)"""
    k = rng.below(10)
    idx = CLASSES.index(cls) if cls in CLASSES else 0
    parent = rng.choice(CLASSES[:idx]) if idx > 0 and rng.chance(2, 3) else None
    if rng.chance(1, 8):
        parent = rng.choice(CLASSES + [cls, cls.upper(), cls.lower(), "aNowhere"])
    uses = [rng.choice(CLASSES)] if rng.chance(1, 3) else []
    t = good_text(cls, parent, uses, n, rng)
    if k < 5:
        return t
    if k < 8:
        return mutate(t, rng)
    return garbage(rng)


class Script:
    """a workspace + a message script; JSON-serialisable (replay)"""

    def __init__(self, files=None, dirs=None, ghosts=None, msgs=None, init=None):
        self.init = init              # overrides of the initialize params (None = rootUri of the workspace)
        self.files = files or {}      # rel -> text (written before the server starts)
        self.dirs = dirs or []
        self.ghosts = ghosts or []    # rel of files deleted after start-up
        self.msgs = msgs or []        # dicts

    def to_json(self):
        d = {"files": self.files, "dirs": self.dirs, "ghosts": self.ghosts, "msgs": self.msgs}
        if self.init is not None:
            d["init"] = self.init
        return d

    @staticmethod
    def from_json(d):
        return Script(d["files"], d["dirs"], d["ghosts"], d["msgs"], d.get("init"))

    def model_line(self):
        fsw = ["f" + esc(r) for r in sorted(self.files) if r not in self.ghosts] + ["d" + esc(d) for d in self.dirs]
        mw = []
        for m in self.msgs:
            k = m["k"]
            if k == "req":
                mw.append("R%d:%s:%s%s" % (m["id"], esc(m["method"]), m["target"], ":m" if m.get("member") else ""))
            elif k == "not":
                mw.append("N%s:%s:%s:%s" % (esc(m["method"]), m["target"], "t" if m.get("full") else "i", "g" if m.get("gold") else "n"))
            elif k == "shutdown":
                mw.append("S%d" % m["id"])
            elif k == "exit":
                mw.append("E")
            elif k == "resp":
                mw.append("P%d" % m["id"])
        return "serve %s ; %s" % (" ".join(fsw), " ".join(mw))


def gen_script(rng, maxlen):
    s = Script()
    n = 0
    # how the client names the workspace: a root uri (usual), none at all, none with an empty / a filled folder list
    k = rng.below(16)
    if k == 0:
        s.init = {"rootUri": None}
    elif k == 1:
        s.init = {"rootUri": None, "workspaceFolders": []}
    elif k == 2:
        s.init = {"rootUri": None, "workspaceFolders": None}
    nogod = rng.chance(1, 16)         # a workspace without a single Gold file
    for cls in ([] if nogod else CLASSES[:2 + rng.below(4)]):
        n += 1
        sub = rng.choice(["", "", "sub/", "Bundle1/deep/"])
        s.files[sub + cls + ".god"] = some_text(cls, rng, n)
    if rng.chance(1, 2):
        s.files["notes.txt"] = "not gold at all\n"
    if rng.chance(1, 12):
        # a Gold file whose NAME is not valid UTF-8 (a Latin-1 name on disk)
        s.files["sub/aLatin\udce9.god" if rng.chance(1, 2) else "aLatin\udce9\udcef.god"] = good_text("aLatin", None, [], 77, rng)
    core_ws = (not nogod) and rng.chance(1, 5)
    if core_ws:
        # "core" directories (WAM*, WF*): the server analyses their files in a start-up job of the pool while the
        # first messages arrive — enough files for that job to overlap with the session's first saves / requests
        for k in range(80):
            s.files["WAMCore/wCore%d.god" % k] = good_text("wCore%d" % k, ("wCore%d" % (k - 1)) if k % 3 else None, [], 300 + k, rng)
        for k in range(30):
            s.files["sub/WFBase/wBase%d.god" % k] = good_text("wBase%d" % k, None, ["wCore%d" % k], 400 + k, rng)
    s.dirs = sorted({os.path.dirname(r) for r in s.files if os.path.dirname(r)} | {"emptydir"})
    # intermediate directories
    for d in list(s.dirs):
        while os.path.dirname(d):
            d = os.path.dirname(d)
            if d not in s.dirs:
                s.dirs.append(d)
    s.dirs.sort()
    gods = sorted(r for r in s.files if r.endswith(".god"))
    if len(gods) > 1 and rng.chance(1, 2):
        s.ghosts = [rng.choice(gods)]
    never = ["nowhere.god", "sub/ghost.god", "new unsaved.god"]

    # requests are not aimed at files whose name is not UTF-8 (the server answers them with an error — it cannot map
    # the uri back to the bytes of the name; that is outside this property and outside the model); such a file
    # is only PRESENT in the workspace
    utf8 = sorted(r_ for r_ in s.files if not any(0xDC80 <= ord(ch) <= 0xDCFF for ch in r_))

    def target():
        r = rng.below(100)
        if nogod and (r < 55 or r >= 94 or (70 <= r < 80)):
            r = 60
        if r < 55:
            return "F" + esc(rng.choice(utf8)), "file"
        if r < 70:
            return "F" + esc(rng.choice(never)), "file"
        if r < 80 and s.ghosts:
            return "F" + esc(s.ghosts[0]), "file"
        if r < 88:
            return "F" + esc(rng.choice(s.dirs)), "dir"
        if r < 94:
            return "O" + esc(rng.choice(OTHER_URIS)), "other"
        return "F" + esc(rng.choice(utf8)), "file"

    def cls_of(t):
        from ..core import unesc
        st = os.path.basename(unesc(t[1:])).split(".")[0]
        return st if st in CLASSES else CLASSES[0]

    def pos():
        k = rng.below(6)
        if k == 0:
            return rng.below(4), rng.below(40)
        if k == 1:
            return 10 + rng.below(8), rng.below(30)     # inside the method body of a well-formed text
        if k == 2:
            return 14, 8                                # after `self.`
        if k == 3:
            return rng.below(100000), rng.below(100000)
        if k == 4:
            return 0, 0
        return rng.below(25), rng.below(12)

    nid = 0
    L = 1 + rng.below(maxlen)
    stop_at = None
    r = rng.below(10)
    if r < 6:
        ending = "shutdown-exit"
    elif r < 7:
        ending = "exit"
    elif r < 8:
        ending = "mid"
    else:
        ending = "none"
    if ending == "mid":
        stop_at = rng.below(L)
    for i in range(L):
        if stop_at is not None and i == stop_at:
            nid += 1
            s.msgs.append({"k": "shutdown", "id": nid})
            if rng.chance(4, 5):
                s.msgs.append({"k": "exit"})
        r = rng.below(100)
        if r < 50:
            nid += 1
            m = rng.choice(SUPPORTED)
            t, kind = target()
            l, c = pos()
            msg = {"k": "req", "id": nid, "method": m, "target": t, "line": l, "ch": c}
            if m.startswith("typeHierarchy/"):
                msg["member"] = rng.chance(1, 2)
                msg["name"] = rng.choice(CLASSES + ["FaRoot1", "PaRoot1", "nope", ""])
            s.msgs.append(msg)
        elif r < 62:
            nid += 1
            t, kind = target()
            l, c = pos()
            s.msgs.append({"k": "req", "id": nid, "method": rng.choice(UNSUPPORTED), "target": t, "line": l, "ch": c})
        elif r < 90:
            m = rng.choice(NOTES)
            t, kind = target()
            # notifications about directories are not generated (see notes/C01.md); nor about file uris OUTSIDE the workspace:
            # a didOpen / didChange would make such a uri a live document, which the model's file system does not contain
            # (requests about them are generated: they must be answered, with an error)
            while kind == "dir" or (kind == "other" and t.startswith("Ofile%{3a}%{2f}%{2f}%{2f}")):
                t, kind = target()
            msg = {"k": "not", "method": m, "target": t}
            if m == "textDocument/didChange":
                msg["full"] = rng.chance(4, 5)
                msg["empty"] = (not msg["full"]) and rng.chance(1, 2)
                msg["text"] = some_text(cls_of(t), rng, 50 + i)
            elif m == "textDocument/didOpen":
                msg["gold"] = rng.chance(4, 5)
                msg["text"] = some_text(cls_of(t), rng, 70 + i)
            elif m == "textDocument/didSave":
                # the file is rewritten first when it exists (existence never changes during a script)
                msg["rewrite"] = some_text(cls_of(t), rng, 90 + i) if rng.chance(2, 3) else None
            s.msgs.append(msg)
        elif r < 95:
            t, kind = target()
            s.msgs.append({"k": "not", "method": rng.choice(OTHER_NOTES), "target": t})
        else:
            s.msgs.append({"k": "resp", "id": 1000 + rng.below(5)})
    if ending == "shutdown-exit":
        nid += 1
        s.msgs.append({"k": "shutdown", "id": nid})
        s.msgs.append({"k": "exit"})
    elif ending == "exit":
        s.msgs.append({"k": "exit"})
    if core_ws:
        # the session opens with saves (each re-indexes the workspace) and an analysis request, while the start-up job runs
        first = sorted(r for r in s.files if r.endswith(".god") and "/w" not in r)[0]
        s.msgs[0:0] = [{"k": "not", "method": "textDocument/didSave", "target": "F" + esc(first), "rewrite": None},
                       {"k": "not", "method": "textDocument/didSave", "target": "F" + esc("WAMCore/wCore1.god"), "rewrite": None}]
    return s


def uri_of(root, target):
    from ..core import unesc
    if target.startswith("F"):
        return lsp.path_uri(os.path.join(root, unesc(target[1:])))
    return unesc(target[1:])


def params_of(root, m):
    u = uri_of(root, m["target"])
    meth = m["method"]
    if m["k"] == "req":
        if meth.startswith("typeHierarchy/"):
            it = lsp.hierarchy_item(u, m.get("name", "x"), m.get("line", 0) % 1000)
            it["item"]["kind"] = 12 if m.get("member") else 5
            return it
        if meth in ("textDocument/documentSymbol", "textDocument/diagnostic", "textDocument/formatting", "workspace/symbol"):
            return lsp.td(u)
        return lsp.tdpos(u, m.get("line", 0), m.get("ch", 0))
    if meth == "textDocument/didChange":
        if m.get("full"):
            return lsp.did_change(u, m.get("text", ""))
        if m.get("empty"):
            return {"textDocument": {"uri": u, "version": 3}, "contentChanges": []}
        return {"textDocument": {"uri": u, "version": 3},
                "contentChanges": [{"range": {"start": {"line": 0, "character": 0}, "end": {"line": 0, "character": 1}}, "text": "z"}]}
    if meth == "textDocument/didOpen":
        return lsp.did_open(u, m.get("text", ""), "gold" if m.get("gold") else "plaintext")
    if meth == "textDocument/didSave":
        return lsp.did_save(u)
    if meth == "textDocument/didClose":
        return lsp.did_close(u)
    return {"textDocument": {"uri": u}}


def read_ids(msgs):
    """ids of the requests the server reads (the model's `received`), and how the script stops"""
    ids = []
    for i, m in enumerate(msgs):
        if m["k"] == "req":
            ids.append(m["id"])
        elif m["k"] == "shutdown":
            ids.append(m["id"])
            nxt = msgs[i + 1]["k"] if i + 1 < len(msgs) else None
            return ids, ("shutdown-exit" if nxt == "exit" else ("shutdown-wait" if nxt is None else "shutdown-other"))
        elif m["k"] == "exit":
            return ids, "exit"
    return ids, "none"


def run_script(s, wsdir, deadline):
    """drive the real binary; returns the observation dict"""
    from ..core import unesc
    root = os.path.join(wsdir, "r")
    shutil.rmtree(wsdir, ignore_errors=True)
    os.makedirs(root)
    for d in s.dirs:
        os.makedirs(os.path.join(root, d), exist_ok=True)
    for rel, text in s.files.items():
        os.makedirs(os.path.dirname(os.path.join(root, rel)), exist_ok=True)
        with open(os.path.join(root, rel), "w", encoding="utf-8", errors="surrogatepass") as f:
            f.write(text)
    root = os.path.realpath(root)
    srv = lsp.Server(root, stderr_path=os.path.join(wsdir, "stderr.txt"), init_params=s.init)
    obs = {"init": srv.init_ok}
    try:
        if not srv.init_ok:
            obs.update({"responses": {}, "alive": srv.alive(), "status": srv.p.poll(), "panicked": srv.panicked()})
            return obs
        # start-up barrier: the index and the start-up jobs of the pool are done when a main-thread
        # and a pool request have been answered (FIFO queue)
        first = (sorted(s.files) or ["nowhere.god"])[0]
        srv.request("warm1", "textDocument/documentSymbol", lsp.td(lsp.path_uri(os.path.join(root, first))))
        srv.request("warm2", "textDocument/diagnostic", lsp.td(lsp.path_uri(os.path.join(root, first))))
        w = srv.settle(["warm1", "warm2"], deadline)
        obs["warm"] = ("warm1" in w and "warm2" in w)
        for g in s.ghosts:
            try:
                os.remove(os.path.join(root, g))
            except OSError:
                pass
        for m in s.msgs:
            k = m["k"]
            if k == "req":
                srv.request(m["id"], m["method"], params_of(root, m))
            elif k == "not":
                if m["method"] == "textDocument/didSave" and m.get("rewrite") is not None and m["target"].startswith("F"):
                    p = os.path.join(root, unesc(m["target"][1:]))
                    if os.path.isfile(p):
                        with open(p, "w", encoding="utf-8", errors="surrogatepass") as f:
                            f.write(m["rewrite"])
                srv.notify(m["method"], params_of(root, m))
            elif k == "shutdown":
                srv.request(m["id"], "shutdown", None)
            elif k == "exit":
                srv.notify("exit", None)
            elif k == "resp":
                srv.send_raw({"jsonrpc": "2.0", "id": m["id"], "result": None})
        ids, ending = read_ids(s.msgs)
        r = srv.settle(ids, deadline)
        missing = [i for i in ids if i not in r]
        obs["busy"] = False
        if missing and srv.alive():
            obs["busy"] = not srv.idle(1.0)
        status = None
        if ending in ("shutdown-exit", "exit", "shutdown-other"):
            try:
                srv.p.stdin.close()
            except OSError:
                pass
            try:
                status = srv.p.wait(deadline)
            except Exception:
                status = None
        else:
            # nobody told the server to stop: it must still be there once it is quiescent
            srv.idle(0.3)
        alive = srv.alive()
        if not alive and status is None:
            status = srv.p.poll()
        # quiescence reached: whatever came is all that comes
        r = srv.responses()
        obs.update({
            "responses": {str(k): ["err" if "error" in x else "ok" for x in v] for k, v in r.items() if k not in ("init", "warm1", "warm2")},
            "codes": {str(k): [x["error"].get("code") for x in v if "error" in x] for k, v in r.items() if k not in ("init", "warm1", "warm2")},
            "alive": alive, "status": status if not alive else None, "ending": ending,
        })
        obs["panicked"] = srv.panicked()
        if obs["panicked"]:
            txt = srv.stderr_text()
            i = txt.find("panicked")
            obs["panic_msg"] = txt[max(0, i - 50):i + 400]
            # protocol misuse (a message other than `exit` after `shutdown`): main returns the protocol error,
            # the receiver is gone and lsp-server's own reader thread unwraps a SendError — the trusted
            # library's reaction to a session the property does not quantify over
            if ending == "shutdown-other" and txt.count("panicked") == 1 and "lsp-server" in obs["panic_msg"] and "stdio.rs" in obs["panic_msg"]:
                obs["panicked"] = False
                obs["lsp_server_reader_panic"] = True
        return obs
    finally:
        srv.kill()
        shutil.rmtree(wsdir, ignore_errors=True)


def canon(obs, ids):
    parts = []
    for i in sorted(ids):
        for x in obs["responses"].get(str(i), []):
            parts.append("%d:%s" % (i, x))
    return "resp=%s alive=%d status=%s" % (",".join(parts), 1 if obs["alive"] else 0,
                                           "-" if obs.get("status") is None else str(obs["status"]))


def match_any(impl, model):
    """model's `any` matches ok or err"""
    ia, ma = impl.split(" "), model.split(" ")
    if len(ia) != 3 or len(ma) != 3 or ia[1:] != ma[1:]:
        return False
    ir = [x for x in ia[0][5:].split(",") if x]
    mr = [x for x in ma[0][5:].split(",") if x]
    if len(ir) != len(mr):
        return False
    for a, b in zip(ir, mr):
        ai, ao = a.split(":")
        bi, bo = b.split(":")
        if ai != bi or (bo != "any" and ao != bo):
            return False
    return True


def has_inheritance_cycle(s):
    """file stem -> stem of the parent named in any text the script puts into that file"""
    import re
    from ..core import unesc
    edges = {}

    def add(rel, text):
        st = os.path.basename(rel).split(".")[0].upper()
        m = re.match(r"\s*class\s+\w+\s*\(\s*(\w+)\s*\)", text or "", re.I)
        if m:
            edges.setdefault(st, set()).add(m.group(1).upper())
    for rel, text in s.files.items():
        add(rel, text)
    for m in s.msgs:
        if m["k"] == "not" and m.get("target", "").startswith("F"):
            add(unesc(m["target"][1:]), m.get("text") or m.get("rewrite"))
    for start in edges:
        seen, todo = set(), [start]
        while todo:
            x = todo.pop()
            for y in edges.get(x, ()):
                if y == start:
                    return True
                if y not in seen:
                    seen.add(y)
                    todo.append(y)
    return False


ANALYSIS = {"textDocument/diagnostic", "textDocument/definition", "textDocument/completion",
            "textDocument/prepareTypeHierarchy", "typeHierarchy/subtypes", "typeHierarchy/supertypes"}


def concurrent_same_document(s, missing):
    """the shape of the recorded publication race (C03): among the unanswered requests there are >= 2 pipelined analysis
    requests about ONE document, a diagnostic among them (a second annotation replaces the published tree while the first
    request already walks it; recursive read lock vs pending write lock) — and every other unanswered request is an
    analysis request too: it waits for a lock the deadlocked pair holds (the document, its parent, the class map)"""
    by_id = {m["id"]: m for m in s.msgs if m["k"] == "req"}
    ms = [by_id[i] for i in missing if i in by_id]
    if len(ms) < 2 or len(ms) != len(missing):
        return False
    if any(m["method"] not in ANALYSIS for m in ms):
        return False
    # the two annotations meet on ONE document, but that document need not be the one either request names: a request
    # about a class annotates its parent and its used entities too (supertypes on aThird (aSecond) + diagnostic on aSecond).
    # The texts change during a session, so the relation is not recomputed here: the shape is ">= 2 unanswered analysis
    # requests, a diagnostic among them, nothing else unanswered"
    return any(m["method"] == "textDocument/diagnostic" for m in ms)


def startup_job_overlap(s, missing):
    """the same race with the START-UP job as the other party: `analyze_core_files` analyses every file of the WAM* / WF*
    directories on a pool worker while the first requests arrive; an analysis request about such a file (or one that
    reaches it) can meet the job's half-published annotation of that document and deadlock with it.  Shape: the
    workspace has core directories and every unanswered request is an analysis request"""
    import re as _re
    if not any(_re.search(r"(^|/)(WAM|WF)\w*/", r) for r in s.files):
        return False
    by_id = {m["id"]: m for m in s.msgs if m["k"] == "req"}
    ms = [by_id[i] for i in missing if i in by_id]
    return bool(ms) and len(ms) == len(missing) and all(m["method"] in ANALYSIS for m in ms)


KNOWN_HANGS = ("C01:hang-inheritance-cycle", "C01:hang-concurrent-analysis-same-document", "C01:hang-startup-analysis-overlaps-request",
               "C01:response-lost-on-protocol-error")


def hang_signature(s, obs, ids):
    missing = [i for i in ids if len(obs["responses"].get(str(i), [])) == 0]
    # the recorded schedule-dependent deadlock is recognised by its shape first: since workspaces with self parents and
    # cycles are generated (they no longer hang: fixed under C14), a cycle somewhere in the workspace explains nothing by itself
    if concurrent_same_document(s, missing):
        return "C01:hang-concurrent-analysis-same-document"
    if startup_job_overlap(s, missing):
        return "C01:hang-startup-analysis-overlaps-request"
    if has_inheritance_cycle(s):
        return "C01:hang-inheritance-cycle"
    return None


def panic_signature(obs, ending=None):
    msg = obs.get("panic_msg", "")
    if ending == "shutdown-other" and not obs.get("alive") and not re.search(r"panicked at src/", msg):
        # the client sent something else than `exit` after `shutdown`: main() leaves through the protocol error while pool
        # workers are still running; a worker that then writes to the closed channel panics inside a LIBRARY frame
        # (/root/.cargo/…, not src/) as the process goes down — the same recorded mechanism as the lost responses
        return "C01:response-lost-on-protocol-error"
    if "document_service.rs" in msg and ("NotFound" in msg or "No such file" in msg):
        return "C01:panic-missing-file"
    return "C01:panic-in-handler"


def evaluate(s, obs):
    """the property on the binary's behaviour; list of (signature, what)"""
    fails = []
    if not obs.get("init"):
        return [("C01:no-initialize-response", "the server did not answer `initialize`")]
    ids, ending = read_ids(s.msgs)
    by_id = {m["id"]: m for m in s.msgs if m["k"] in ("req", "shutdown")}
    sent_ids = {str(m["id"]) for m in s.msgs if m["k"] in ("req", "shutdown")}
    for i in ids:
        n = len(obs["responses"].get(str(i), []))
        if n == 0:
            m = by_id[i]
            if obs.get("panicked"):
                sig = panic_signature(obs, ending)
            elif m["k"] == "req" and m["method"] not in SUPPORTED:
                sig = "C01:unanswered-unsupported-method"
            elif obs.get("busy"):
                sig = "C01:no-answer-still-busy"
            elif ending == "shutdown-other" and not obs.get("alive"):
                # the client broke the protocol (something else than `exit` after `shutdown`): handle_shutdown
                # returns an error, main() leaves through `?` WITHOUT joining the writer thread, and whatever
                # was still queued (the shutdown response, late answers of workers) is lost with the process
                sig = "C01:response-lost-on-protocol-error"
            elif obs.get("alive") or ending != "none":
                # alive and idle (or stopped) and the request was never answered
                sig = hang_signature(s, obs, ids) or "C01:hang"
            else:
                sig = "C01:server-died"
            fails.append((sig, "request #%s (%s) was never answered" % (i, m.get("method", "shutdown"))))
        elif n > 1:
            fails.append(("C01:duplicate-response", "request #%s got %d responses" % (i, n)))
    for k, v in obs["responses"].items():
        if k not in {str(i) for i in ids}:
            if k in sent_ids:
                fails.append(("C01:response-after-stop", "request #%s was sent after the stop and still answered" % k))
            else:
                fails.append(("C01:spurious-response", "a response carries id %s, which no request had" % k))
    if obs.get("panicked"):
        fails.append((panic_signature(obs, ending), "stderr: %s" % obs.get("panic_msg", "")[:300].replace("\n", " ")))
    if ending in ("none", "shutdown-wait"):
        if not obs["alive"]:
            fails.append(("C01:server-died" if not obs.get("panicked") else panic_signature(obs),
                          "the process ended (status %s) although nobody told it to exit" % obs.get("status")))
    elif ending in ("shutdown-exit", "exit"):
        if obs["alive"]:
            fails.append((hang_signature(s, obs, ids) or "C01:no-exit", "the process is still running after exit"))
        elif obs.get("status") != 0:
            fails.append(("C01:exit-status" if not obs.get("panicked") else panic_signature(obs),
                          "exit status %s after %s" % (obs.get("status"), ending)))
    return fails


CORPUS = [
    # the three witnesses of Props/C01.lean (+ the main-thread one), on a one-file workspace
    {"files": {"aRoot.god": "class aRoot\n\nF1 : Int4\n"}, "dirs": [], "ghosts": [],
     "msgs": [{"k": "req", "id": 1, "method": "textDocument/hover", "target": "FaRoot.god", "line": 0, "ch": 0}]},
    {"files": {"aRoot.god": "class aRoot\n\nF1 : Int4\n"}, "dirs": [], "ghosts": [],
     "msgs": [{"k": "req", "id": 1, "method": "textDocument/diagnostic", "target": "Fgone.god"},
              {"k": "shutdown", "id": 2}, {"k": "exit"}]},
    {"files": {"aRoot.god": "class aRoot\n\nF1 : Int4\n"}, "dirs": [], "ghosts": [],
     "msgs": [{"k": "not", "method": "textDocument/didOpen", "target": "Fnew.god", "gold": True, "text": "class x\n"},
              {"k": "req", "id": 2, "method": "textDocument/documentSymbol", "target": "FaRoot.god"}]},
    {"files": {"aRoot.god": "class aRoot\n\nF1 : Int4\n", "aSecond.god": "class aSecond (aRoot)\n\nF2 : Int4\n"}, "dirs": [], "ghosts": ["aRoot.god"],
     "msgs": [{"k": "req", "id": 1, "method": "textDocument/documentSymbol", "target": "FaRoot.god"},
              {"k": "req", "id": 2, "method": "textDocument/completion", "target": "FaSecond.god", "line": 2, "ch": 1},
              {"k": "req", "id": 3, "method": "textDocument/diagnostic", "target": "FaSecond.god"},
              {"k": "shutdown", "id": 4}, {"k": "exit"}]},
    # C14's defect seen through C01: mutual parents deadlock the analysis, the request is never answered
    {"files": {"aRoot.god": "class aRoot (aSecond)\n\nF1 : Int4\n", "aSecond.god": "class aSecond (aRoot)\n\nF2 : Int4\n"}, "dirs": [], "ghosts": [],
     "msgs": [{"k": "req", "id": 1, "method": "textDocument/definition", "target": "FaRoot.god", "line": 2, "ch": 1},
              {"k": "req", "id": 2, "method": "textDocument/documentSymbol", "target": "FaSecond.god"}]},
    # a class that names itself as its parent (in another letter case), a two-cycle and a dangling parent in one workspace:
    # the start-up tree job and the analyses must get through, and the session must end with status 0
    {"files": {"aRoot.god": "class aRoot (AROOT)\n\nF1 : Int4\n", "aSecond.god": "class aSecond (aThird)\n\nF2 : Int4\n",
               "aThird.god": "class aThird (aSecond)\n\nF3 : Int4\n", "aFourth.god": "class aFourth (aNowhere)\n\nF4 : Int4\n"},
     "dirs": [], "ghosts": [],
     "msgs": [{"k": "req", "id": 1, "method": "textDocument/diagnostic", "target": "FaRoot.god"},
              {"k": "req", "id": 2, "method": "textDocument/definition", "target": "FaSecond.god", "line": 2, "ch": 1},
              {"k": "req", "id": 3, "method": "textDocument/completion", "target": "FaFourth.god", "line": 2, "ch": 1},
              {"k": "req", "id": 4, "method": "textDocument/prepareTypeHierarchy", "target": "FaRoot.god", "line": 0, "ch": 7},
              {"k": "shutdown", "id": 5}, {"k": "exit"}]},
]


def run(ctx):
    ctx.trusted += [
        "Lean 4.33 kernel + leanchecker; axioms ⊆ {propext, Classical.choice, Quot.sound}",
        "hand-written models lean/GoldModel/Model/{Server,DocStore}.lean, tied to src/main.rs and src/manager/document_service.rs by E7 / E7b and by the `serve` correspondence on the real binary",
        "PoolSpec (every submitted job runs exactly once, drop drains) is a hypothesis of serve_exactly_once: the contract of src/threadpool.rs proved separately as C20",
        "by contract, not verified: lsp-server framing and handle_shutdown, crossbeam channels (FIFO; a response sent before the writer thread ends is written), serde (schema-valid params deserialize), Rust drop order (pool dropped before the connection), std::fs::canonicalize / File::open",
        "that no other unwrap / index / todo!() inside the annotator and the services fires is tied only by running the binary on the generated scripts (arbitrary positions, mutated and garbage texts): the `Analysis` parameter of the model never panics",
        "vlib/lsp.py (process driver), vlib/extractors/server.py, lean_exe compilation of the driver",
    ]
    ctx.assumptions += [
        "params are schema-valid (cast_req panics by design on a JsonError); ids are numbers",
        "existence of files does not change while a script runs (files deleted after start-up are deleted before the first message); notifications are not sent about directory URIs",
        "after `shutdown` the client sends `exit` next (otherwise lsp-server's handle_shutdown reports a protocol error and the process exits with status 1 — modelled, and generated with low probability)",
    ]
    if ctx.replay:
        return replay(ctx)
    ctx.extract(["E7_Dispatch", "E7b_DocFlags"])
    ctx.prove("GoldModel.Props.C01")
    if not ctx.build_repo_bin():
        return ctx.finish(rule=RULE)
    os.makedirs(WS, exist_ok=True)
    n = 300 if ctx.tier == "quick" else 12000
    maxlen = 30 if ctx.tier == "quick" else 120
    scripts = [Script.from_json(c) for c in CORPUS]
    for _ in range(n):
        scripts.append(gen_script(ctx.rng, maxlen))
    ctx.log("%d scripts (%d corpus), up to %d messages" % (len(scripts), len(CORPUS), maxlen))
    deadline = 20.0
    t0 = time.time()
    with concurrent.futures.ThreadPoolExecutor(max_workers=8) as ex:
        futs = [ex.submit(run_script, s, os.path.join(WS, "c01-%d-%d" % (os.getpid(), i)), deadline) for i, s in enumerate(scripts)]
        observations = [f.result() for f in futs]
    ctx.log("binary runs done in %.1fs" % (time.time() - t0))
    lines = [s.model_line() for s in scripts]
    model = ctx.run_driver(lines)
    bad = 0
    for s, obs, line, mod in zip(scripts, observations, lines, model):
        ids, ending = read_ids(s.msgs)
        ctx.evaluations += 1
        ctx.count("ending=" + ending)
        ctx.count("messages<=%d" % (10 * ((len(s.msgs) + 9) // 10)))
        for m in s.msgs:
            if m["k"] == "req":
                ctx.count("req:" + ("supported" if m["method"] in SUPPORTED else "unsupported"))
            elif m["k"] == "not":
                ctx.count("not:" + m["method"].split("/")[-1])
        fails = evaluate(s, obs)
        for sig, what in fails:
            ctx.oracle_fail(sig, what, {"mode": "serve", "script": s.to_json(), "model_line": line, "observed": obs})
        impl = canon(obs, ids) if obs.get("init") else "no-init"
        if ids:
            import hashlib
            ctx.distinct.add(hashlib.md5((line.split(" ; ")[1] + impl).encode()).digest())
        if any(sig in KNOWN_HANGS for sig, _ in fails):
            ctx.count("known hang (not compared with the model)")
        elif not match_any(impl, mod):
            bad += 1
            if len(ctx.disagreements) < 50:
                ctx.disagreements.append(("serve", line, impl, mod))
    dpath = os.path.join(core.VERIF, "replays", "C01", "disagreements-%s.txt" % ctx.tier)
    if os.path.exists(dpath):
        os.remove(dpath)
    if ctx.disagreements:
        os.makedirs(os.path.dirname(dpath), exist_ok=True)
        with open(dpath, "w", errors="surrogatepass") as f:
            for _, l_, a_, m_ in ctx.disagreements:
                f.write("%s\n   binary: %s\n   model : %s\n" % (l_, a_, m_))
    ctx.oblige("tie:correspondence:serve (%d scripts on the real binary)" % len(scripts), bad == 0,
               "%d disagreements; first: %s" % (bad, ctx.disagreements[0] if ctx.disagreements else ""))
    ctx.samples = [{"script": scripts[i].to_json()["msgs"][:8], "model_line": lines[i][:600], "binary": canon(observations[i], read_ids(scripts[i].msgs)[0]) if observations[i].get("init") else "no-init"}
                   for i in (0, len(CORPUS), len(scripts) - 1)]
    shutil.rmtree(WS, ignore_errors=True)
    return ctx.finish(rule=RULE)


RULE = ("scripts = 4 corpus witnesses + generated sessions: workspace of 2-5 classes (well-formed with parents / uses, mutated, garbage, "
        "non-gold file, directories; in half of them one file is deleted after start-up) x pipelined messages (7 supported request "
        "methods, 8 unsupported ones, the 4 notifications with full / incremental / empty changes and gold / other languageId, unknown "
        "notifications, client responses; targets: existing, never-existing, deleted files, directories, non-file URIs; arbitrary "
        "positions) x endings (shutdown+exit, exit alone, shutdown in the middle, none); every script is run on the real binary; "
        "distinct_nontrivial = distinct (message script, canonical observation) pairs among scripts with at least one request")


def replay(ctx):
    d = json.load(open(ctx.replay, errors="surrogatepass"))
    case = d.get("case", {})
    if not isinstance(case, dict) or "script" not in case:
        print("replay file names no input:", json.dumps(d.get("broken", d), indent=1)[:3000])
        return 1
    ctx.extract(["E7_Dispatch", "E7b_DocFlags"])
    ctx.build_repo_bin()
    ctx.lake_build(["driver"])
    os.makedirs(WS, exist_ok=True)
    s = Script.from_json(case["script"])
    obs = run_script(s, os.path.join(WS, "c01-replay-%d" % os.getpid()), 20.0)
    line = s.model_line()
    mod = ctx.run_driver([line])[0]
    ids, _ = read_ids(s.msgs)
    impl = canon(obs, ids) if obs.get("init") else "no-init"
    print("script        :", line)
    print("binary        :", impl, "| panicked" if obs.get("panicked") else "")
    print("model         :", mod)
    fails = evaluate(s, obs)
    for sig, what in fails:
        print("oracle        : %s — %s" % (sig, what))
    shutil.rmtree(WS, ignore_errors=True)
    if fails or not match_any(impl, mod):
        print("VIOLATION property=C01 replay=%s" % ctx.replay)
        return 1
    print("the binary satisfies the property on this script (and agrees with the model)")
    return 0
