"""C10 — go-to-definition lands on the declaration the scoping rules select (DESIGN §4 C10).

theorems : lean/GoldModel/Props/C10.lean (M-SCOPE over M-SYM: the definition service's answers =
           the property's rule, for every workspace / occurrence; see notes/C10.md)
tie      : correspondence `scope` — the real ProjectManager over the materialised workspace vs the
           model (real lexer tokens -> parser model -> scope model), every identifier occurrence
oracle   : the real definition responses vs the generator's declaration map (expected target of
           every occurrence, computed from the abstract workspace by the property's rule), and vs
           the Lean specification evaluated on the same case (`scopespec`)
"""
import json

from .. import core, scopelib

PROP = "C10"
KINDS = ("d",)


def signatures(q, impl):
    kind = scopelib.classify_definition(q["expect"], scopelib.links(impl))
    if kind is None:
        return []
    return ["%s:%s%s" % (PROP, kind, scopelib.deviation_suffix(q["tags"]))]


def make_cases(ctx):
    cases = scopelib.corpus_cases(PROP)
    n = 100 if ctx.tier == "quick" else 2000
    ndev = n // 10
    cases += scopelib.generated(ctx, n - ndev, prefix="w")
    # a tenth of the workspaces also contains the scenarios of the recorded findings
    cases += scopelib.generated(ctx, ndev, deviations=("forward", "uses-member", "typeref-shadowed"), prefix="v")
    return cases


def run(ctx):
    ctx.trusted += [
        "Lean 4.33 kernel + leanchecker; axioms ⊆ {propext, Classical.choice, Quot.sound}",
        "hand-written models lean/GoldModel/Model/{Scope,ScopeTree}.lean (+ parser model Grammar/Peg, symbol tables SymTab), tied to src/analyzers_v2/{ast_annotator,type_resolver}.rs and src/manager/{definition_service,utils,document_service}.rs by the `scope` correspondence only",
        "tokens come from the real lexer (harness mode `toks`); str::to_uppercase as an arbitrary `norm` (ASCII upper-casing in executable runs); HashMap as a finite map",
        "harness/src/modes/scope.rs (materialises the workspace under .cache/ws, ProjectManager::new + index_files + generate_goto_definitions as main.rs), lean_exe compilation of the driver",
        "generator vlib/gen/ws.py: its declaration map is the oracle (computed from the abstract workspace by the property's rule, independently of model and implementation)",
    ]
    ctx.assumptions += [
        "WellFormedWs (Props/C10.lean): stems pairwise distinct up to case, every file declares the entity named like its stem as its first declaration, all members and uses precede the first method, declaration uids distinct; parent chains are followed with fuel = number of files (acyclic forests are complete; cycles are C14's subject)",
        "one manager per queried file: answers are those of a server that has analysed nothing else before (which documents were analysed earlier can change the table a descendant's parent pointer refers to: cache coherence is C02's subject)",
        "line ends separate nothing: the identifier-initial line after a dangling `x.` continues the chain (`x.⏎name = 1` is `x.name = 1`); its first identifier is expected to resolve as a member of x's class. After a dot only field / method names (or names the class does not declare at all) are generated: constants, types, `self` and entity names after a dot are outside the generator's domain",
        "alias types are resolved through the class's own chain or through used modules (entities that depend on nothing), so that no table is consulted while it is half built by a cyclic dependency; for the same reason a type name that nothing declares (`var v : tNowhere` — the implementation looks for it in every used entity, analysing them at that moment) is only written in entities whose uses list names modules and missing entities only",
        "a field spelt like a class / module X is only generated where X is no relative of the declaring class and no entity that sees the field by the plain rule lists X in its uses: what go-to-definition on a uses ENTRY (or a type reference) answers when a variable of that name is visible follows the plain rule in the implementation (the variable), which the property does not settle — see notes/C10.md, discrepancies",
    ]
    ctx.extract(["E8_ScopeConsts"])      # native keys, intrinsics, completion filters: the model consumes them
    if ctx.replay:
        return replay(ctx)
    ctx.prove("GoldModel.Props.C10")
    if not ctx.build_harness():
        return ctx.finish(rule=RULE)
    ctx.phase("generate")
    cases = make_cases(ctx)
    ctx.phase("tie")
    res = scopelib.run(ctx, cases, kinds=KINDS)
    flat_cases, flat_impl, flat_model = [], [], []
    nq = 0
    for c, qs, impl, model, hl, dl in res:
        ctx.count("workspaces " + c.origin)
        cj = c.to_json()["files"]
        for q, a, b in zip(qs, impl, model):
            nq += 1
            flat_cases.append({"workspace": c.id, "query": q, "files": cj})
            flat_impl.append(a)
            flat_model.append(b)
            for t in q["tags"]:
                ctx.count("tag " + t)
            ctx.count("expected links %d" % (len(q["expect"]) if q["expect"] is not None else -1))
    ctx.log("%d workspaces, %d identifier occurrences" % (len(cases), nq))
    # answers without the echoed position, so that `distinct` counts distinct link lists
    ctx.compare("scope(definition)", flat_cases, [scopelib.value(a) for a in flat_impl], [scopelib.value(b) for b in flat_model],
                nontrivial=lambda c, a: bool(a))
    # the Lean specification on the same cases vs the generator's declaration map
    ctx.phase("oracle")
    spec = scopelib.run_lines([core.DRIVER_BIN], ["scopespec" + dl[5:] for _, _, _, _, _, dl in res])
    bad_spec = []
    bad_wf = []
    for (c, qs, impl, model, hl, dl), sp in zip(res, spec):
        sw = sp.split(" ")
        wf, sw = sw[0], sw[1:]
        # the generator's domain lies inside the guard of the theorems; the corpus' edge cases lie outside
        edge = "edge-" in c.id and "after-dangling" not in c.id
        if (wf == "WF=1") == edge or wf not in ("WF=0", "WF=1"):
            bad_wf.append((c.id, wf))
        ctx.count("guard WellFormedWs " + wf)
        if len(sw) != len(qs):
            bad_spec.append((c.id, sp[:200]))
            continue
        for q, s in zip(qs, sw):
            if q["expect"] is None or any(t in scopelib.DEVIATIONS for t in q["tags"]):
                continue
            got = scopelib.links(s)
            if got is None or [a for a, _ in got] != q["expect"]:
                bad_spec.append((c.id, q, s))
    ctx.oblige("tie:generated workspaces satisfy WellFormedWs (decided by the driver), edge cases do not", not bad_wf, str(bad_wf[:5]))
    ctx.oblige("tie:lean-specification = generator's declaration map (%d workspaces)" % len(res), not bad_spec,
               "first: %s" % (json.dumps(bad_spec[0], default=str)[:1500] if bad_spec else ""))
    # implementation-level oracle
    for c, qs, impl, model, hl, dl in res:
        for q, a in zip(qs, impl):
            if q["expect"] is None:
                continue
            for sig in signatures(q, a):
                ctx.oracle_fail(sig, "definition response differs from the declaration the scoping rules select (%s)" % q["what"],
                                {"workspace": c.id, "query": q, "implementation": a, "case": c.to_json(), "only_query": True})
    ctx.samples = [{"workspace": res[i][0].id, "file": res[i][0].files[0][0], "text": res[i][0].files[0][1][:1500],
                    "queries": [{"q": q, "implementation": a} for q, a in list(zip(res[i][1], res[i][2]))[:6]]}
                   for i in (0, len(res) // 2, len(res) - 1) if i < len(res)]
    return ctx.finish(rule=RULE)


RULE = ("cases = corpus/C10 witnesses + generated workspaces (inheritance forests to depth 4, modules, uses graphs with cycles, overriding also in "
        "another letter case, locals/params shadowing members, consts/types/aliases, chained access through fields, function calls and modules, "
        "uses lists that also name entities without a file at any position, methods without a body (external / forward) with parameters in classes "
        "and modules, dangling dots followed by keyword lines and by identifier-initial lines that continue the chain, "
        "parameters / locals / fields SPELT LIKE a class or module of the workspace in any letter case (left of a dot, as argument, as plain identifier; the entity's name "
        "itself where nothing hides it), parameters spelt like keywords that are identifiers (type, from, order …), locals / parameters spelt like a method or a field, "
        "dots on operands without a class (native and undeclared types, untyped parameters, undeclared names, procedure and intrinsic results) with complete, partial and no name behind them, "
        "names declared twice in one scope (forward announcement + definition in one class, announced in an ancestor and defined in a descendant, duplicate fields / constants / locals: "
        "the latest declaration is the target), const / type / var statements between the statements of a body with references in the same and in other methods, "
        "references re-cased at random) x every identifier occurrence (plain, left of dot, k-th element of a chain, own declared names, type, parent "
        "and uses references incl. the missing entities, names only a body-less method's parameter carries, unresolvable names); one evaluation = one definition request on the real ProjectManager compared with the model and "
        "with the generator's declaration map; distinct_nontrivial = number of distinct non-empty implementation answers")


def replay(ctx):
    d = json.load(open(ctx.replay))
    case = d.get("case", {})
    if not isinstance(case, dict) or "case" not in case:
        print("replay file names no input:", json.dumps(d.get("broken", d), indent=1)[:3000])
        return 1
    c = scopelib.Case.from_json(case["case"], "replay")
    q = case["query"]
    c.queries = [q]
    ctx.build_harness()
    ctx.lake_build(["driver"])
    (c, qs, impl, model, hl, dl), = scopelib.run(ctx, [c], kinds=KINDS)
    print("workspace     :", c.id, [s for s, _ in c.files])
    print("position      : file %s line %d col %d  (%s)" % (c.files[q["f"]][0], q["line"], q["col"], q["what"]))
    print("   |" + c.files[q["f"]][1].split("\n")[q["line"]])
    print("expected      :", q["expect"])
    print("implementation:", impl[0])
    print("model         :", model[0])
    sigs = signatures(q, impl[0]) if q["expect"] is not None else []
    if sigs:
        print("VIOLATION property=%s replay=%s (%s)" % (PROP, ctx.replay, ",".join(sigs)))
        return 1
    print("implementation agrees with the declaration map on this case")
    return 0
