//! wire helpers: escaping identical to `GoldModel/Drive/Common.lean`
use std::panic::{catch_unwind, AssertUnwindSafe};

pub fn escape(s: &str) -> String {
    let mut o = String::new();
    for c in s.chars() {
        if c.is_ascii_alphanumeric() || c == '_' || c == '.' || c == '-' {
            o.push(c);
        } else {
            o.push_str(&format!("%{{{:x}}}", c as u32));
        }
    }
    o
}

pub fn unescape(s: &str) -> String {
    let mut o = String::new();
    let cs: Vec<char> = s.chars().collect();
    let mut i = 0;
    while i < cs.len() {
        if cs[i] == '%' {
            // %{hex}
            let mut j = i + 2;
            let mut n: u32 = 0;
            while j < cs.len() && cs[j] != '}' {
                n = n * 16 + cs[j].to_digit(16).unwrap_or(0);
                j += 1;
            }
            o.push(char::from_u32(n).unwrap_or('\u{fffd}'));
            i = j + 1;
        } else {
            o.push(cs[i]);
            i += 1;
        }
    }
    o
}

/// run one case; a panic becomes the canonical output `panic`
pub fn guarded<F: FnOnce() -> String>(f: F) -> String {
    match catch_unwind(AssertUnwindSafe(f)) {
        Ok(s) => s,
        Err(_) => "panic".to_string(),
    }
}

pub fn opt_str<T>(o: Option<T>, f: impl Fn(T) -> String) -> String {
    match o {
        Some(x) => f(x),
        None => "-".to_string(),
    }
}
