// @feature ctx_impls
// @mode body line
// @mode bodymemo line run_memo
//! mode `body`: `body <tok>…` = the tokens of ONE method body.  Parsed three times through the public
//! statement parser and the public `IParserContext` trait, exactly as `parse_method_body` does
//! (`clear_cache`, then `parse_repeat_w_context(parse_statement_v2)`):
//!   M = with the real memoising `ParserContext`
//!   N = with a reference context that keeps nothing
//!   W = max number of evaluations (cache misses) of one (cache, length) seen by a counting wrapper
use std::cell::RefCell;
use std::collections::HashMap;
use std::sync::Arc;

use crate::dump::{diags_str, dump_tree, parse_tok};
use crate::lexer::tokens::Token;
use crate::parser::ast::IAstNode;
use crate::parser::body_parser::parse_statement_v2;
use crate::parser::utils::parse_repeat_w_context;
use crate::parser::{IParserContext, ParseError, ParserContext, ParserDiagnostic};

type Res<'a> = Result<(&'a [Token], Arc<dyn IAstNode>), ParseError<'a>>;

/// keeps nothing: only hands back the value just stored (the parsers do `set_cache; get_cache().unwrap()`)
struct NoMemo<'a> {
    diagnostics: Vec<ParserDiagnostic>,
    last: RefCell<Option<(usize, usize, Res<'a>)>>,
}
impl<'a> IParserContext<'a> for NoMemo<'a> {
    fn add_diagnostic(&mut self, d: ParserDiagnostic) {
        self.diagnostics.push(d)
    }
    fn extend_diagnostics<U: IntoIterator<Item = ParserDiagnostic>>(&mut self, d: U) {
        self.diagnostics.extend(d)
    }
    fn get_diagnostics(self) -> Vec<ParserDiagnostic> {
        self.diagnostics
    }
    fn get_cache(&self, c: usize, len: usize) -> Option<Res<'a>> {
        let mut l = self.last.borrow_mut();
        match l.take() {
            Some((c2, l2, r)) if c2 == c && l2 == len => Some(r),
            _ => None,
        }
    }
    fn set_cache(&mut self, c: usize, len: usize, r: Res<'a>) {
        *self.last.borrow_mut() = Some((c, len, r));
    }
    fn clear_cache(&mut self) {
        *self.last.borrow_mut() = None;
    }
}

/// counts evaluations = lookups that miss, per (cache, length), between two clears
struct Counting<'a> {
    inner: ParserContext<'a>,
    misses: RefCell<HashMap<(usize, usize), usize>>,
    worst: RefCell<usize>,
}
impl<'a> Counting<'a> {
    fn fold(&self) {
        let m = self.misses.borrow();
        let w = m.values().cloned().max().unwrap_or(0);
        let mut worst = self.worst.borrow_mut();
        if w > *worst {
            *worst = w;
        }
    }
}
impl<'a> IParserContext<'a> for Counting<'a> {
    fn add_diagnostic(&mut self, d: ParserDiagnostic) {
        self.inner.add_diagnostic(d)
    }
    fn extend_diagnostics<U: IntoIterator<Item = ParserDiagnostic>>(&mut self, d: U) {
        self.inner.extend_diagnostics(d)
    }
    fn get_diagnostics(self) -> Vec<ParserDiagnostic> {
        self.inner.get_diagnostics()
    }
    fn get_cache(&self, c: usize, len: usize) -> Option<Res<'a>> {
        let r = self.inner.get_cache(c, len);
        if r.is_none() {
            *self.misses.borrow_mut().entry((c, len)).or_insert(0) += 1;
        }
        r
    }
    fn set_cache(&mut self, c: usize, len: usize, r: Res<'a>) {
        self.inner.set_cache(c, len, r)
    }
    fn clear_cache(&mut self) {
        // the counters are per method body (one `Counting` per body): a clear in the middle of a body
        // must not hide a second evaluation of the same position
        self.inner.clear_cache()
    }
}

fn stmts_str(stmts: &[Arc<dyn IAstNode>]) -> String {
    let mut o = String::from("[");
    for (i, s) in stmts.iter().enumerate() {
        if i > 0 {
            o.push(' ');
        }
        dump_tree(s.as_ref(), &mut o);
    }
    o.push(']');
    o
}

pub fn run(words: &[&str]) -> String {
    let mut toks = Vec::new();
    for (i, w) in words[1..].iter().enumerate() {
        match parse_tok(w, i) {
            Some(t) => toks.push(t),
            None => return "bad-op".into(),
        }
    }
    // memo
    let mut c1 = ParserContext::new();
    c1.clear_cache();
    let (r1, s1) = parse_repeat_w_context(&toks, parse_statement_v2, &mut c1);
    let d1 = c1.get_diagnostics();
    // no memo
    let mut c2 = NoMemo { diagnostics: Vec::new(), last: RefCell::new(None) };
    c2.clear_cache();
    let (r2, s2) = parse_repeat_w_context(&toks, parse_statement_v2, &mut c2);
    let d2 = c2.get_diagnostics();
    // counting
    let mut c3 = Counting { inner: ParserContext::new(), misses: RefCell::new(HashMap::new()), worst: RefCell::new(0) };
    c3.clear_cache();
    let (_r3, _s3) = parse_repeat_w_context(&toks, parse_statement_v2, &mut c3);
    c3.fold();
    let worst = *c3.worst.borrow();
    let total: usize = c3.misses.borrow().values().sum();
    format!(
        "M={} MD={} MR={} N={} ND={} NR={} W={} E={}",
        stmts_str(&s1),
        diags_str(&d1),
        r1.len(),
        stmts_str(&s2),
        diags_str(&d2),
        r2.len(),
        worst,
        total
    )
}

/// memo + counting only (for inputs on which parsing without memoisation is exponential)
pub fn run_memo(words: &[&str]) -> String {
    let mut toks = Vec::new();
    for (i, w) in words[1..].iter().enumerate() {
        match parse_tok(w, i) {
            Some(t) => toks.push(t),
            None => return "bad-op".into(),
        }
    }
    let mut c3 = Counting { inner: ParserContext::new(), misses: RefCell::new(HashMap::new()), worst: RefCell::new(0) };
    c3.clear_cache();
    let (r3, s3) = parse_repeat_w_context(&toks, parse_statement_v2, &mut c3);
    c3.fold();
    let worst = *c3.worst.borrow();
    let total: usize = c3.misses.borrow().values().sum();
    let d3 = c3.get_diagnostics();
    format!("M={} MD={} MR={} W={} E={}", stmts_str(&s3), diags_str(&d3), r3.len(), worst, total)
}
