// @mode lex line
//! mode `lex`: `lex =<escaped-text>` → the output of the real `GoldLexer::lex` (C05).
//! One word per token `t,<Kind>,<escaped value>,<raw_pos>,<start line>,<start col>,<end line>,<end col>`,
//! then one word per error `e,<start line>,<start col>,<end line>,<end col>`; `-` if there is neither.
use crate::lexer::GoldLexer;
use crate::wire::{escape, unescape};

pub fn run(words: &[&str]) -> String {
    // the text word is `=` followed by the escaped text (so that the empty text is still a word)
    let text = if words.len() > 1 && words[1].starts_with('=') { unescape(&words[1][1..]) } else { return "bad-case".to_string() };
    let mut lexer = GoldLexer::new();
    let (tokens, errors) = lexer.lex(&text);
    let mut out: Vec<String> = Vec::with_capacity(tokens.len() + errors.len());
    for t in tokens.iter() {
        out.push(format!(
            "t,{:?},{},{},{},{},{},{}",
            t.token_type,
            escape(&t.value),
            t.raw_pos,
            t.range.start.line,
            t.range.start.character,
            t.range.end.line,
            t.range.end.character
        ));
    }
    for e in errors.iter() {
        out.push(format!(
            "e,{},{},{},{}",
            e.range.start.line, e.range.start.character, e.range.end.line, e.range.end.character
        ));
    }
    if out.is_empty() {
        "-".to_string()
    } else {
        out.join(" ")
    }
}
