// @mode pool batch
//! mode `pool`: one run of the REAL `ThreadPool` per case line (C20).
//!
//! case   `pool <size> <op>…`   ops: `i` instant job · `s<µs>` sleeping job · `b` barrier job
//!         (returns once `size` barrier jobs wait at the same time) · `w<k>` long job (returns once
//!         `k` jobs submitted after it have finished) · `p<µs>` pause of the
//!         submitting thread · `y` yield of the submitting thread · `D` drop now (default: at the end) ·
//!         `R<k>` (before the jobs): every job is submitted through `execute_req` with request id `j mod k` — ids repeat
//!         when k < number of jobs; what id a job carries must not matter · `U` drop now BY UNWINDING: the owner of the pool panics with the pool in scope (the panic is caught
//!         by the harness; the pool's Drop runs while `std::thread::panicking()`), and must drain all the same
//! output `size=<n> subm=<m> once=… early=… par=… indep=… joined=… drop=… maxconc=<k> :: <trace tokens>`
//!   once   = ok | bad:<j>x<count>,…   executions per submitted job, read after everything settled
//!   early  = ok | bad:<j>,…           jobs whose closure had not returned when `drop` returned
//!   par    = ok | na | timeout        every barrier generation met (⇒ `size` jobs ran simultaneously)
//!   indep  = ok | na | timeout        every long job saw the later jobs finish while it was still running
//!   joined = ok | bad:<k>             OS threads of the process back to the count before `ThreadPool::new`
//!   drop   = ret | hang | panic       `hang`: drop did not return within the case deadline
//!   trace  = hook events of src/threadpool.rs in log order (see Drive/Pool.lean for the tokens)
//! Verdicts are measured with counters inside the submitted closures and with /proc, never with
//! the hook events; the trace is judged separately by the Lean acceptor.  Deadlines are generous
//! (barrier 8 s, case 40 s) and only ever turn into a *failure*, never into a pass.
use std::io::{BufRead, Write};
use std::sync::atomic::{AtomicBool, AtomicUsize, Ordering};
use std::sync::{mpsc, Arc, Condvar, Mutex};
use std::time::{Duration, Instant};

use crate::threadpool::ThreadPool;
use crate::utils::{ILoggerV2, LogLevel, LogType};
use crate::verif_hooks;

#[derive(Debug, Clone)]
struct NullLogger;
impl ILoggerV2 for NullLogger {
    fn log_error(&self, _msg: &str) {}
    fn log_warning(&self, _msg: &str) {}
    fn log_info(&self, _msg: &str) {}
    fn log(&self, _log_type: LogType, _level: LogLevel, _msg: &str) {}
    fn clone_box(&self) -> Box<dyn ILoggerV2> {
        Box::new(NullLogger)
    }
    fn clone_box_with_appended_prefix(&self, _prefix: &str) -> Box<dyn ILoggerV2> {
        Box::new(NullLogger)
    }
    fn append_prefix(&mut self, _prefix: &str) {}
}

/// reusable rendezvous of `parties` threads with a deadline; once a wait has timed out the
/// rendezvous is broken and every later wait fails at once
struct Rendezvous {
    parties: usize,
    state: Mutex<(usize, u64)>, // (waiting, generation)
    cv: Condvar,
    broken: AtomicBool,
    deadline: Duration,
}

impl Rendezvous {
    fn new(parties: usize, deadline: Duration) -> Rendezvous {
        Rendezvous { parties, state: Mutex::new((0, 0)), cv: Condvar::new(), broken: AtomicBool::new(false), deadline }
    }
    fn wait(&self) -> bool {
        if self.broken.load(Ordering::SeqCst) {
            return false;
        }
        let mut st = self.state.lock().unwrap();
        st.0 += 1;
        if st.0 == self.parties {
            st.0 = 0;
            st.1 += 1;
            self.cv.notify_all();
            return true;
        }
        let gen = st.1;
        let until = Instant::now() + self.deadline;
        loop {
            if st.1 != gen {
                return true;
            }
            if self.broken.load(Ordering::SeqCst) {
                st.0 = st.0.saturating_sub(1);
                return false;
            }
            let now = Instant::now();
            if now >= until {
                st.0 = st.0.saturating_sub(1);
                self.broken.store(true, Ordering::SeqCst);
                self.cv.notify_all();
                return false;
            }
            let (g, _) = self.cv.wait_timeout(st, until - now).unwrap();
            st = g;
        }
    }
}

/// which jobs have finished, for the long jobs that wait for later ones
struct Progress {
    ended: Mutex<Vec<bool>>,
    cv: Condvar,
    deadline: Duration,
}

impl Progress {
    fn mark(&self, j: usize) {
        self.ended.lock().unwrap()[j] = true;
        self.cv.notify_all();
    }
    /// wait until `k` jobs with an index above `j` have finished
    fn wait_later(&self, j: usize, k: usize) -> bool {
        let until = Instant::now() + self.deadline;
        let mut e = self.ended.lock().unwrap();
        loop {
            if e[j + 1..].iter().filter(|b| **b).count() >= k {
                return true;
            }
            let now = Instant::now();
            if now >= until {
                return false;
            }
            let (g, _) = self.cv.wait_timeout(e, until - now).unwrap();
            e = g;
        }
    }
}

fn os_threads() -> usize {
    std::fs::read_dir("/proc/self/task").map(|d| d.count()).unwrap_or(0)
}

#[derive(Clone, Copy)]
enum Op {
    Instant,
    Sleep(u64),
    Barrier,
    Waiter(usize),
    Pause(u64),
    Yield,
    Drop,
    Unwind,
    ReqIds(usize),
}

fn parse(words: &[&str]) -> Option<(usize, Vec<Op>)> {
    if words.len() < 2 || words[0] != "pool" {
        return None;
    }
    let n: usize = words[1].parse().ok()?;
    if n == 0 || n > 64 {
        return None;
    }
    let mut ops = Vec::new();
    for w in &words[2..] {
        let op = match w.chars().next()? {
            'i' if w.len() == 1 => Op::Instant,
            'b' if w.len() == 1 => Op::Barrier,
            'y' if w.len() == 1 => Op::Yield,
            'D' if w.len() == 1 => Op::Drop,
            'U' if w.len() == 1 => Op::Unwind,
            'R' => Op::ReqIds(w[1..].parse().ok().filter(|k| *k > 0)?),
            's' => Op::Sleep(w[1..].parse().ok()?),
            'p' => Op::Pause(w[1..].parse().ok()?),
            'w' => Op::Waiter(w[1..].parse().ok()?),
            _ => return None,
        };
        ops.push(op);
    }
    Some((n, ops))
}

struct Facts {
    submitted: usize,
    ended_at_drop: Vec<usize>,
    started_final: Vec<usize>,
    ended_final: Vec<usize>,
    barrier_jobs: usize,
    barrier_timeouts: usize,
    waiter_jobs: usize,
    waiter_timeouts: usize,
    threads_left: usize,
    max_conc: usize,
    trace: Vec<String>,
}

/// the whole life of one pool, on the calling thread: create, submit, drop, measure
fn drive(n: usize, ops: &[Op], barrier_deadline: Duration) -> Facts {
    let njobs = ops.iter().filter(|o| matches!(o, Op::Instant | Op::Sleep(_) | Op::Barrier | Op::Waiter(_))).count();
    let started: Arc<Vec<AtomicUsize>> = Arc::new((0..njobs).map(|_| AtomicUsize::new(0)).collect());
    let ended: Arc<Vec<AtomicUsize>> = Arc::new((0..njobs).map(|_| AtomicUsize::new(0)).collect());
    let inflight = Arc::new(AtomicUsize::new(0));
    let max_conc = Arc::new(AtomicUsize::new(0));
    let timeouts = Arc::new(AtomicUsize::new(0));
    let rv = Arc::new(Rendezvous::new(n, barrier_deadline));
    let wtimeouts = Arc::new(AtomicUsize::new(0));
    let progress = Arc::new(Progress { ended: Mutex::new(vec![false; njobs]), cv: Condvar::new(), deadline: barrier_deadline });
    let mut waiter_jobs = 0usize;
    let base_threads = os_threads();

    verif_hooks::install_sink();
    let pool = ThreadPool::new(n, Box::new(NullLogger));
    let mut submitted = 0usize;
    let mut barrier_jobs = 0usize;
    let mut unwind = false;
    let mut req_ids: Option<usize> = None;
    for op in ops {
        let kind = match op {
            Op::Pause(us) => {
                std::thread::sleep(Duration::from_micros(*us));
                continue;
            }
            Op::Yield => {
                std::thread::yield_now();
                continue;
            }
            Op::Drop => break,
            Op::Unwind => {
                unwind = true;
                break;
            }
            Op::ReqIds(k) => {
                req_ids = Some(*k);
                continue;
            }
            k => *k,
        };
        if let Op::Barrier = kind {
            barrier_jobs += 1;
        }
        if let Op::Waiter(_) = kind {
            waiter_jobs += 1;
        }
        let j = submitted;
        submitted += 1;
        let (started, ended, inflight, max_conc, timeouts, rv) =
            (started.clone(), ended.clone(), inflight.clone(), max_conc.clone(), timeouts.clone(), rv.clone());
        let (wtimeouts, progress) = (wtimeouts.clone(), progress.clone());
        let job = move || {
            started[j].fetch_add(1, Ordering::SeqCst);
            let now = inflight.fetch_add(1, Ordering::SeqCst) + 1;
            max_conc.fetch_max(now, Ordering::SeqCst);
            match kind {
                Op::Sleep(us) => std::thread::sleep(Duration::from_micros(us)),
                Op::Barrier => {
                    if !rv.wait() {
                        timeouts.fetch_add(1, Ordering::SeqCst);
                    }
                }
                Op::Waiter(k) => {
                    if !progress.wait_later(j, k) {
                        wtimeouts.fetch_add(1, Ordering::SeqCst);
                    }
                }
                _ => {}
            }
            inflight.fetch_sub(1, Ordering::SeqCst);
            ended[j].fetch_add(1, Ordering::SeqCst);
            progress.mark(j);
        };
        match req_ids {
            Some(k) => pool.execute_req(job, lsp_server::RequestId::from((j % k) as i32)),
            None => pool.execute(job),
        }
    }
    if unwind {
        // the owner unwinds: the pool is dropped by the unwinding of a panicking closure
        let hook = std::panic::take_hook();
        std::panic::set_hook(Box::new(|_| {}));
        let _ = std::panic::catch_unwind(std::panic::AssertUnwindSafe(move || {
            let _owned = pool;
            panic!("the owner of the pool panics");
        }));
        std::panic::set_hook(hook);
    } else {
        drop(pool);
    }
    // the instant `drop` has returned: which closures have returned?
    let ended_at_drop: Vec<usize> = (0..submitted).map(|j| ended[j].load(Ordering::SeqCst)).collect();
    // all worker threads gone?  (a joined thread may linger in /proc for a moment: poll, 5 s)
    let until = Instant::now() + Duration::from_secs(5);
    let mut threads_left = os_threads().saturating_sub(base_threads);
    while threads_left > 0 && Instant::now() < until {
        std::thread::sleep(Duration::from_millis(2));
        threads_left = os_threads().saturating_sub(base_threads);
    }
    let trace = verif_hooks::take_sink();
    Facts {
        submitted,
        ended_at_drop,
        started_final: (0..submitted).map(|j| started[j].load(Ordering::SeqCst)).collect(),
        ended_final: (0..submitted).map(|j| ended[j].load(Ordering::SeqCst)).collect(),
        barrier_jobs,
        barrier_timeouts: timeouts.load(Ordering::SeqCst),
        waiter_jobs,
        waiter_timeouts: wtimeouts.load(Ordering::SeqCst),
        threads_left,
        max_conc: max_conc.load(Ordering::SeqCst),
        trace,
    }
}

fn render(n: usize, f: &Facts) -> String {
    let mut once = Vec::new();
    for j in 0..f.submitted {
        if f.started_final[j] != 1 || f.ended_final[j] != 1 {
            once.push(format!("{}x{}/{}", j, f.started_final[j], f.ended_final[j]));
        }
    }
    let early: Vec<String> = (0..f.submitted).filter(|j| f.ended_at_drop[*j] == 0).map(|j| j.to_string()).collect();
    let par = if f.barrier_jobs == 0 {
        "na".to_string()
    } else if f.barrier_timeouts == 0 {
        "ok".to_string()
    } else {
        "timeout".to_string()
    };
    let indep = if f.waiter_jobs == 0 {
        "na"
    } else if f.waiter_timeouts == 0 {
        "ok"
    } else {
        "timeout"
    };
    format!(
        "size={} subm={} once={} early={} par={} indep={} joined={} drop=ret maxconc={} :: {}",
        n,
        f.submitted,
        if once.is_empty() { "ok".to_string() } else { format!("bad:{}", once.join(",")) },
        if early.is_empty() { "ok".to_string() } else { format!("bad:{}", early.join(",")) },
        par,
        indep,
        if f.threads_left == 0 { "ok".to_string() } else { format!("bad:{}", f.threads_left) },
        f.max_conc,
        f.trace.join(" ")
    )
}

/// batch entry: `harness pool [case-deadline-ms [barrier-deadline-ms]]`
pub fn run(args: &[String], input: &mut dyn BufRead, out: &mut dyn Write) {
    let case_deadline = Duration::from_millis(args.get(0).and_then(|a| a.parse().ok()).unwrap_or(40_000));
    let barrier_deadline = Duration::from_millis(args.get(1).and_then(|a| a.parse().ok()).unwrap_or(8_000));
    let mut hung = false;
    // once a rendezvous has timed out after the full deadline (a failure is reported for that
    // case), later cases of this process use a short deadline so that a broken pool does not
    // cost the full deadline per case
    let mut timed_out_before = false;
    for line in input.lines() {
        let line = match line {
            Ok(l) => l,
            Err(_) => break,
        };
        if hung {
            writeln!(out, "skipped-after-hang").unwrap();
            continue;
        }
        let words: Vec<&str> = line.split_whitespace().collect();
        let (n, ops) = match parse(&words) {
            Some(x) => x,
            None => {
                writeln!(out, "bad-op").unwrap();
                continue;
            }
        };
        // the pool lives on its own thread so that a `drop` that never returns can be reported
        let (tx, rx) = mpsc::channel::<Facts>();
        let ops2 = ops.clone();
        let barrier_deadline = if timed_out_before { barrier_deadline.min(Duration::from_millis(500)) } else { barrier_deadline };
        let h = std::thread::Builder::new()
            .name("pool-case".into())
            .spawn(move || {
                let f = drive(n, &ops2, barrier_deadline);
                let _ = tx.send(f);
            })
            .unwrap();
        let res = match rx.recv_timeout(case_deadline) {
            Ok(f) => {
                let _ = h.join();
                if f.barrier_timeouts > 0 || f.waiter_timeouts > 0 {
                    timed_out_before = true;
                }
                render(n, &f)
            }
            Err(mpsc::RecvTimeoutError::Timeout) => {
                hung = true;
                let trace = verif_hooks::snapshot();
                format!("size={} subm=? once=? early=? par=? indep=? joined=? drop=hang maxconc=? :: {}", n, trace.join(" "))
            }
            Err(mpsc::RecvTimeoutError::Disconnected) => {
                let _ = h.join();
                let trace = verif_hooks::take_sink();
                format!("size={} subm=? once=? early=? par=? indep=? joined=? drop=panic maxconc=? :: {}", n, trace.join(" "))
            }
        };
        writeln!(out, "{}", res).unwrap();
        out.flush().unwrap();
    }
}
