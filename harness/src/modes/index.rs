// @mode index line
//! mode `index`: the real `DocumentService` / `ProjectManager` over a real directory tree
//! (C19; also the in-process tie of M-DOC's lookup order and cache flags).
//!
//! `index <wsbase> <op>…` — every op is executed under its own `catch_unwind` and emits
//! exactly one output word (the battery `Q` emits several).  Paths are relative to the
//! scratch root `<wsbase>/<pid>-<n>/r`, which is created first and removed afterwards.
//!
//!   R                 (first op only, no output word) the server is given the root through a SYMLINK
//!                     `<wsbase>/<pid>-<n>/link -> r` and every request URI goes through it, as a client whose
//!                     workspace folder is a symlink does; answers must be those of the canonical root
//!   M<rel>            mkdir -p                                     -> `M`
//!   W<rel>=<cls>:<t>  write file: `class <cls>` + one field `F<t>`  -> `W`
//!   B<rel>=<hex…>     write raw bytes (garbage texts)              -> `B`
//!   L<rel>=<target>   symlink <rel> -> <target> (relative to root) -> `L`
//!   X<rel>            remove file                                  -> `X`
//!   N                 a *fresh* ProjectManager over the same root  -> `N`
//!   I                 index_files()                                -> `I`
//!   G<rel>            get_document_info(uri)                       -> `G=ok|err|panic`
//!   C<rel>=<cls>:<t>  notify_document_changed(uri, text)           -> `C=ok|err|panic`
//!   S<rel>            notify_document_saved(uri)  (re-indexes)     -> `S=…`
//!   K<rel>            notify_document_closed(uri)                  -> `K=…`
//!   O<rel>            notify_document_opened(uri)                  -> `O=…`
//!   Y<rel>            generate_document_symbols(uri)               -> `Y=<t,t…>|err|panic`
//!   Q<cls,…>          battery: `n=<count_files>`, `d=<rel>[osT]@<uri-rel>;…` (sorted),
//!                     `c:<cls>=<uri-rel>|-` for every given spelling
use std::fs;
use std::path::{Path, PathBuf};
use std::sync::atomic::{AtomicUsize, Ordering};

use lsp_types::{DocumentSymbol, Url};

use crate::manager::ProjectManager;
use crate::threadpool::ThreadPool;
use crate::utils::{ILoggerV2, LogLevel, LogType};
use crate::wire::{escape, unescape};

#[derive(Debug, Clone)]
pub struct NullLogger;
impl ILoggerV2 for NullLogger {
    fn log_error(&self, _msg: &str) {}
    fn log_warning(&self, _msg: &str) {}
    fn log_info(&self, _msg: &str) {}
    fn log(&self, _t: LogType, _l: LogLevel, _msg: &str) {}
    fn clone_box(&self) -> Box<dyn ILoggerV2> {
        Box::new(NullLogger)
    }
    fn clone_box_with_appended_prefix(&self, _p: &str) -> Box<dyn ILoggerV2> {
        Box::new(NullLogger)
    }
    fn append_prefix(&mut self, _p: &str) {}
}

static COUNTER: AtomicUsize = AtomicUsize::new(0);

pub fn text_for(cls: &str, tag: &str) -> String {
    format!("class {}\n\nF{} : Int4\n", cls, tag)
}

fn guard<F: FnOnce() -> String>(f: F) -> String {
    match std::panic::catch_unwind(std::panic::AssertUnwindSafe(f)) {
        Ok(s) => s,
        Err(_) => "panic".to_string(),
    }
}

fn res_str<T, E>(r: Result<T, E>) -> String {
    match r {
        Ok(_) => "ok".into(),
        Err(_) => "err".into(),
    }
}

fn sym_names(syms: &[DocumentSymbol], out: &mut Vec<String>) {
    for s in syms {
        if let Some(t) = s.name.strip_prefix('F') {
            out.push(t.to_string());
        }
        if let Some(ch) = &s.children {
            sym_names(ch, out);
        }
    }
}

/// uri -> path relative to the root (percent-decoded), or the whole uri if outside.  A uri through the
/// client's (symlinked) name of the root names the same file: both spellings of the root are accepted.
fn rel_of_uri(root: &Path, client_root: &Path, uri: &str) -> String {
    match Url::parse(uri).ok().and_then(|u| u.to_file_path().ok()) {
        Some(p) => match p.strip_prefix(root).or_else(|_| p.strip_prefix(client_root)) {
            Ok(r) => r.to_string_lossy().to_string(),
            Err(_) => format!("!{}", p.to_string_lossy()),
        },
        None => format!("?{}", uri),
    }
}

fn split_eq(s: &str) -> (String, String) {
    match s.find('=') {
        Some(i) => (unescape(&s[..i]), s[i + 1..].to_string()),
        None => (unescape(s), String::new()),
    }
}

fn cls_tag(s: &str) -> (String, String) {
    match s.find(':') {
        Some(i) => (unescape(&s[..i]), unescape(&s[i + 1..])),
        None => (unescape(s), String::new()),
    }
}

pub fn run(words: &[&str]) -> String {
    if words.len() < 2 {
        return "bad-op".into();
    }
    let base = PathBuf::from(unescape(words[1]));
    let n = COUNTER.fetch_add(1, Ordering::SeqCst);
    let top = base.join(format!("{}-{}", std::process::id(), n));
    let _ = fs::remove_dir_all(&top);
    if fs::create_dir_all(top.join("r")).is_err() {
        return "bad-ws".into();
    }
    let root = match fs::canonicalize(top.join("r")) {
        Ok(p) => p,
        Err(_) => return "bad-ws".into(),
    };
    let linked = words.get(2) == Some(&"R");
    let client_root = if linked {
        let l = top.join("link");
        if std::os::unix::fs::symlink(&root, &l).is_err() {
            return "bad-ws".into();
        }
        // the parent directories are canonical, only the last component is the link
        fs::canonicalize(&top).map(|t| t.join("link")).unwrap_or(l)
    } else {
        root.clone()
    };
    let out = run_ops(&root, &client_root, &words[if linked { 3 } else { 2 }..]);
    let _ = fs::remove_dir_all(&top);
    out
}

fn new_pm(root: &Path) -> ProjectManager {
    ProjectManager::new(Some(Url::from_file_path(root).unwrap()), Box::new(NullLogger)).unwrap()
}

fn run_ops(root: &Path, client_root: &Path, ops: &[&str]) -> String {
    let pool = ThreadPool::new(1, Box::new(NullLogger));
    let mut pm = new_pm(client_root);
    let mut out: Vec<String> = Vec::new();
    let uri_of = |rel: &str| Url::from_file_path(client_root.join(rel)).unwrap();
    for op in ops {
        let (k, rest) = op.split_at(1);
        match k {
            "M" => {
                let _ = fs::create_dir_all(root.join(unescape(rest)));
                out.push("M".into());
            }
            "W" => {
                let (rel, v) = split_eq(rest);
                let (cls, tag) = cls_tag(&v);
                let _ = fs::write(root.join(rel), text_for(&cls, &tag));
                out.push("W".into());
            }
            "B" => {
                let (rel, v) = split_eq(rest);
                let bytes: Vec<u8> = (0..v.len() / 2).filter_map(|i| u8::from_str_radix(&v[2 * i..2 * i + 2], 16).ok()).collect();
                let _ = fs::write(root.join(rel), bytes);
                out.push("B".into());
            }
            "L" => {
                let (rel, v) = split_eq(rest);
                let _ = std::os::unix::fs::symlink(root.join(unescape(&v)), root.join(rel));
                out.push("L".into());
            }
            "X" => {
                let _ = fs::remove_file(root.join(unescape(rest)));
                out.push("X".into());
            }
            "N" => {
                pm = new_pm(client_root);
                out.push("N".into());
            }
            "I" => {
                out.push(guard(|| {
                    pm.index_files();
                    "I".into()
                }));
            }
            "G" => {
                let uri = uri_of(&unescape(rest));
                out.push(format!("G={}", guard(|| res_str(pm.doc_service.get_document_info(&uri)))));
            }
            "C" => {
                let (rel, v) = split_eq(rest);
                let (cls, tag) = cls_tag(&v);
                let uri = uri_of(&rel);
                let text = text_for(&cls, &tag);
                out.push(format!("C={}", guard(|| res_str(pm.notify_document_changed(&uri, &text, &pool)))));
            }
            "S" => {
                let uri = uri_of(&unescape(rest));
                out.push(format!("S={}", guard(|| res_str(pm.notify_document_saved(&uri, &pool)))));
            }
            "O" => {
                let uri = uri_of(&unescape(rest));
                out.push(format!("O={}", guard(|| res_str(pm.notify_document_opened(&uri, &pool)))));
            }
            "K" => {
                let uri = uri_of(&unescape(rest));
                out.push(format!("K={}", guard(|| {
                    pm.doc_service.notify_document_closed(&uri);
                    "ok".into()
                })));
            }
            "Y" => {
                let uri = uri_of(&unescape(rest));
                out.push(format!("Y={}", guard(|| match pm.generate_document_symbols(&uri) {
                    Ok(syms) => {
                        let mut names = Vec::new();
                        sym_names(&syms, &mut names);
                        names.iter().map(|s| escape(s)).collect::<Vec<_>>().join(",")
                    }
                    Err(_) => "err".into(),
                })));
            }
            "Q" => {
                out.push(format!("n={}", pm.doc_service.count_files()));
                let map = pm.doc_service.get_doc_info_mapping();
                let mut recs: Vec<(String, String)> = Vec::new();
                for (key, info) in map.read().unwrap().iter() {
                    let i = info.read().unwrap();
                    let rel = match Path::new(key).strip_prefix(root) {
                        Ok(r) => r.to_string_lossy().to_string(),
                        Err(_) => format!("!{}", key),
                    };
                    let flags = format!("{}{}{}",
                        if i.get_opened_document().is_some() { "o" } else { "" },
                        if i.get_saved_document().is_some() { "s" } else { "" },
                        if i.get_symbol_table().is_some() { "T" } else { "" });
                    let fp = match Path::new(&i.file_path).strip_prefix(root).or_else(|_| Path::new(&i.file_path).strip_prefix(client_root)) {
                        Ok(r) => r.to_string_lossy().to_string(),
                        Err(_) => format!("!{}", i.file_path),
                    };
                    let same = if fp == rel { String::new() } else { format!("~{}", escape(&fp)) };
                    recs.push((rel.clone(), format!("{}[{}]@{}{}", escape(&rel), flags, escape(&rel_of_uri(root, client_root, &i.uri)), same)));
                }
                recs.sort();
                out.push(format!("d={}", recs.into_iter().map(|r| r.1).collect::<Vec<_>>().join(";")));
                for cls in rest.split(',').filter(|c| !c.is_empty()) {
                    let name = unescape(cls);
                    let r = match pm.doc_service.get_uri_for_class(&name) {
                        Ok(u) => escape(&rel_of_uri(root, client_root, u.as_str())),
                        Err(_) => "-".into(),
                    };
                    out.push(format!("c:{}={}", cls, r));
                }
            }
            // tree words (`tF…`, `tD…`, `tE`, `tO…`) are for the model; the real directory is read instead
            "t" => {}
            _ => out.push("bad-op".into()),
        }
    }
    out.join(" ")
}
