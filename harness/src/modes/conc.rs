// @mode conc batch run_parent
// @mode conc1 batch run_child
//! mode `conc` (C03): k threads on clones of one REAL `ProjectManager` — request threads and the
//! main-thread notification handlers — under a FORCED schedule at the yield points of
//! `src/verif_hooks.rs` (`change.window`, `parsed.unlocked`, `analyze.checked`, `annot.published`),
//! or free-running (`X` word: randomised stress on real parallel threads).
//!
//! `conc` is the watchdog: it feeds the case lines to a child process (`conc1`, same executable) and
//! kills / restarts it when a case does not answer within the deadline (`hang idle=<0|1>`:
//! idle = no thread of the child consumed CPU over the last window, i.e. a deadlock).
//!
//! case line   `conc <wsbase> <word>…`
//!   W<doc>=<ver>        version on disk at start-up (default 1); docs `D`, `E` (classes aD(aBD), aE(aBE)); `X` uses aD
//!   P<op>               executed sequentially before the concurrent phase: `C:<doc>:<ver>` didChange,
//!                       `S:<doc>:<ver>` rewrite the file + didSave, `K:<doc>` didClose, `O:<doc>` didOpen,
//!                       `R:<kind>:<doc>` a request (answer discarded)
//!   M<op>               the ops of the main thread (actor 0), in order: C / S / K / O as above
//!   T<id>=<kind>:<doc>  request thread `id` ≥ 1; kinds: sym diag compl def defp prep subc subm sup
//!   S<id>,<id>,…        the forced schedule: each entry lets that thread run to its next yield point
//!   Q<kind>:<doc>       probe requests after everything has finished (sequential, same manager); also `xcompl:D`
//!   X<rounds>           free-running stress instead of a forced schedule: every request thread repeats its
//!                       request `rounds` times while the main thread performs its ops; no parking
//! output      `t<id>=<class>/<allowed> … q=<class>/<allowed>,… tr=<tok>,… fin=<ok|deadlock|stuck>`
//!   class    `v<a>.<b>…` the versions whose solo answer (fresh manager, that version on disk, the request alone)
//!            equals the answer · `mix<a>.<b>` diagnostic whose items come from the solo answers of two versions ·
//!            `other` anything else · `none` never answered
//!   allowed  the versions the document had between receipt and reply (`lo..hi` of the op history)
//!   tr       per schedule step `<id>:<where>` (+`<id>:<where>` for every other thread that moved):
//!            where = name of the yield point the thread parked at | `done` | `blocked` | `-` (not parked: no-op)
use std::collections::HashMap;
use std::fs;
use std::io::{BufRead, BufReader, Write};
use std::path::{Path, PathBuf};
use std::sync::atomic::{AtomicBool, AtomicUsize, Ordering};
use std::sync::{Arc, Mutex};
use std::time::{Duration, Instant};

use lsp_types::{SymbolKind, TypeHierarchyItem, Url};

use crate::manager::ProjectManager;
use crate::modes::index::NullLogger;
use crate::threadpool::ThreadPool;
use crate::utils::Position;
use crate::verif_hooks;
use crate::wire::unescape;

// ------------------------------------------------------------------------------------------------
// texts: every declaration name embeds (document, version); `ver` filler lines shift every later range
// ------------------------------------------------------------------------------------------------

/// `G<n>` word of a case: every D/E text carries `n` further lower-case procedures (n naming warnings, a long
/// tree walk) — makes the analyses of free-running requests long enough to overlap
static GROW: std::sync::atomic::AtomicUsize = std::sync::atomic::AtomicUsize::new(0);

pub fn text_of(doc: &str, ver: usize) -> String {
    match doc {
        "X" => "class aX\n\nproc P_X(A : Int4)\n   var x : Int4\n   var y : aD\n   x = y.\nendProc\n".to_string(),
        "BD" | "BE" => format!("class a{}\n\nF_B : Int4\n\nproc M\nendProc\n", doc),
        _ => {
            // members before the methods (a declaration that follows a method lands in that method's scope);
            // the field names grow with the version, the filler shifts the later methods
            let fx = "x".repeat(ver);
            let mut l: Vec<String> = vec![
                format!("class a{} (aB{})", doc, doc),
                String::new(),
                format!("F_{}_{}{} : Int4", doc, ver, fx),
                format!("G_{}_{} : Int4", doc, ver),
                String::new(),
                format!("proc P_{}_{}(A : Int4)", doc, ver),
                "   var x : Int4".into(),
                format!("   var u_{}_{} : Int4", doc, ver),
                format!("   x = A + self.F_{}_{}{}", doc, ver, fx),
                "   x = self.".into(),
                "endProc".into(),
                String::new(),
            ];
            for i in 0..ver {
                l.push(format!("const cK{} = 'k'", i));
            }
            l.push(String::new());
            l.push(format!("proc q_{}_{}", doc, ver));
            l.push("endProc".into());
            l.push(String::new());
            l.push("proc M".into());
            l.push("endProc".into());
            l.push(String::new());
            for i in 0..GROW.load(std::sync::atomic::Ordering::SeqCst) {
                l.push(format!("proc w{}_{}", i, doc));
                l.push("   var unusedLocal : Int4".into());
                l.push("endProc".into());
            }
            l.join("\n")
        }
    }
}

fn file_of(doc: &str) -> String {
    format!("a{}.god", doc)
}

const DOCS: [&str; 5] = ["D", "E", "X", "BD", "BE"];

fn write_ws(root: &Path, vers: &HashMap<String, usize>) {
    let _ = fs::create_dir_all(root);
    for d in DOCS {
        let v = *vers.get(d).unwrap_or(&1);
        let _ = fs::write(root.join(file_of(d)), text_of(d, v));
    }
}

/// the manager as `main_loop` creates it: index, class tree built by pool jobs (pool dropped = drained)
fn new_manager(root: &Path) -> ProjectManager {
    let mut pm = ProjectManager::new(Some(Url::from_file_path(root).unwrap()), Box::new(NullLogger)).unwrap();
    pm.index_files();
    {
        let pool = ThreadPool::new(2, Box::new(NullLogger));
        let tree = pm.entity_tree_service.clone();
        let docs = pm.doc_service.clone();
        tree.build_tree_parallel(&docs, &pool);
    }
    pm
}

fn uri_of(root: &Path, doc: &str) -> Url {
    Url::from_file_path(root.join(file_of(doc))).unwrap()
}

// ------------------------------------------------------------------------------------------------
// requests and canonical answers
// ------------------------------------------------------------------------------------------------

fn canon(v: &serde_json::Value) -> serde_json::Value {
    match v {
        serde_json::Value::Array(a) => {
            let mut items: Vec<serde_json::Value> = a.iter().map(canon).collect();
            items.sort_by_key(|x| x.to_string());
            serde_json::Value::Array(items)
        }
        serde_json::Value::Object(o) => {
            let mut m = serde_json::Map::new();
            let mut keys: Vec<&String> = o.keys().collect();
            keys.sort();
            for k in keys {
                m.insert(k.clone(), canon(&o[k]));
            }
            serde_json::Value::Object(m)
        }
        x => x.clone(),
    }
}

fn answer_string<T: serde::Serialize, E>(root: &Path, r: Result<T, E>) -> String {
    match r {
        Ok(x) => {
            let v = serde_json::to_value(&x).unwrap_or(serde_json::Value::Null);
            let s = canon(&v).to_string();
            let rs = root.to_string_lossy().to_string();
            s.replace(&format!("file://{}", rs), "<ROOT>").replace(&rs, "<ROOT>")
        }
        Err(_) => "err".to_string(),
    }
}

fn th_item(root: &Path, doc: &str, name: &str, kind: SymbolKind) -> TypeHierarchyItem {
    let r = lsp_types::Range::new(lsp_types::Position::new(0, 0), lsp_types::Position::new(0, 1));
    TypeHierarchyItem { name: name.to_string(), kind, tags: None, detail: None, uri: uri_of(root, doc), range: r, selection_range: r, data: None }
}

/// one request on the real manager; positions refer to the fixed part of the text (before the filler)
pub fn do_request(pm: &mut ProjectManager, root: &Path, kind: &str, doc: &str) -> String {
    let uri = uri_of(root, doc);
    match kind {
        "sym" => answer_string(root, pm.generate_document_symbols(&uri)),
        "diag" => answer_string(root, pm.generate_document_diagnostic_report(&uri).map(|r| (*r).clone())),
        "compl" => answer_string(root, pm.generate_completion_proposals(&uri, &Position::new(9, "   x = self.".len()))),
        "def" => answer_string(root, pm.generate_goto_definitions(&uri, &Position::new(8, "   x = A + self.".len() + 1))),
        "defp" => answer_string(root, pm.generate_goto_definitions(&uri, &Position::new(8, "   x = ".len()))),
        "prep" => answer_string(root, pm.prepare_type_hierarchy(&uri, &Position::new(0, 7))),
        "subc" => {
            let b = format!("B{}", doc);
            answer_string(root, pm.type_hierarchy_subtypes(&th_item(root, &b, &format!("a{}", b), SymbolKind::CLASS)))
        }
        "subm" => {
            let b = format!("B{}", doc);
            answer_string(root, pm.type_hierarchy_subtypes(&th_item(root, &b, "M", SymbolKind::FUNCTION)))
        }
        "sup" => answer_string(root, pm.type_hierarchy_supertypes(&th_item(root, doc, "M", SymbolKind::FUNCTION))),
        // completion after `y.` in aX, `y : aD`: reads the symbol table cached for aD
        "xcompl" => {
            let ux = uri_of(root, "X");
            answer_string(root, pm.generate_completion_proposals(&ux, &Position::new(5, "   x = y.".len())))
        }
        _ => "bad-kind".to_string(),
    }
}

static SOLO: Mutex<Option<HashMap<(String, String, usize), String>>> = Mutex::new(None);
static COUNTER: AtomicUsize = AtomicUsize::new(0);

/// the answer of the same request when it is the only one in flight: a fresh manager over a fresh
/// workspace in which `doc` has version `ver` on disk
fn solo(base: &Path, kind: &str, doc: &str, ver: usize) -> String {
    let key = (kind.to_string(), doc.to_string(), ver);
    if let Some(m) = SOLO.lock().unwrap().as_ref() {
        if let Some(a) = m.get(&key) {
            return a.clone();
        }
    }
    let n = COUNTER.fetch_add(1, Ordering::SeqCst);
    let top = base.join(format!("{}-solo-{}", std::process::id(), n));
    let _ = fs::remove_dir_all(&top);
    let _ = fs::create_dir_all(top.join("r"));
    let root = fs::canonicalize(top.join("r")).unwrap();
    let mut vers = HashMap::new();
    vers.insert(doc.to_string(), ver);
    write_ws(&root, &vers);
    let mut pm = new_manager(&root);
    let a = do_request(&mut pm, &root, kind, doc);
    let _ = fs::remove_dir_all(&top);
    let mut g = SOLO.lock().unwrap();
    g.get_or_insert_with(HashMap::new).insert(key, a.clone());
    a
}

/// items of a diagnostic answer (canonical strings), or None if the answer is not a report
fn diag_items(ans: &str) -> Option<Vec<String>> {
    let v: serde_json::Value = serde_json::from_str(ans).ok()?;
    let items = v.get("items")?.as_array()?;
    Some(items.iter().map(|i| i.to_string()).collect())
}

/// classify a real answer against the solo answers of the candidate versions
fn classify(base: &Path, kind: &str, doc: &str, ans: &Option<String>, cands: &[usize]) -> String {
    let ans = match ans {
        Some(a) => a,
        None => return "none".to_string(),
    };
    let mut vs: Vec<usize> = cands.to_vec();
    vs.sort();
    vs.dedup();
    let hits: Vec<usize> = vs.iter().cloned().filter(|v| &solo(base, kind, doc, *v) == ans).collect();
    if !hits.is_empty() {
        return format!("v{}", hits.iter().map(|v| v.to_string()).collect::<Vec<_>>().join("."));
    }
    if kind == "diag" {
        if let Some(items) = diag_items(ans) {
            // every item from the solo answer of one of two versions, both contributing
            for (i, a) in vs.iter().enumerate() {
                for b in vs.iter().skip(i + 1) {
                    let ia = diag_items(&solo(base, kind, doc, *a)).unwrap_or_default();
                    let ib = diag_items(&solo(base, kind, doc, *b)).unwrap_or_default();
                    let only_a = items.iter().any(|x| ia.contains(x) && !ib.contains(x));
                    let only_b = items.iter().any(|x| ib.contains(x) && !ia.contains(x));
                    if only_a && only_b && items.iter().all(|x| ia.contains(x) || ib.contains(x)) {
                        // which part is the annotated-tree part is not decided here: lower version first
                        return format!("mix{}.{}", a, b);
                    }
                }
            }
        }
    }
    "other".to_string()
}

// ------------------------------------------------------------------------------------------------
// case description
// ------------------------------------------------------------------------------------------------

#[derive(Clone, Debug)]
enum Op {
    Change(String, usize),
    Save(String, usize),
    Close(String),
    Open(String),
    Req(String, String),
}

fn parse_op(s: &str) -> Option<Op> {
    let p: Vec<&str> = s.split(':').collect();
    match (p.get(0).cloned(), p.len()) {
        (Some("C"), 3) => Some(Op::Change(p[1].to_string(), p[2].parse().ok()?)),
        (Some("S"), 3) => Some(Op::Save(p[1].to_string(), p[2].parse().ok()?)),
        (Some("K"), 2) => Some(Op::Close(p[1].to_string())),
        (Some("O"), 2) => Some(Op::Open(p[1].to_string())),
        (Some("R"), 3) => Some(Op::Req(p[1].to_string(), p[2].to_string())),
        _ => None,
    }
}

struct Case {
    base: PathBuf,
    disk: HashMap<String, usize>,
    pre: Vec<Op>,
    main: Vec<Op>,
    threads: Vec<(usize, String, String)>,
    sched: Vec<usize>,
    probes: Vec<(String, String)>,
    stress: Option<usize>,
}

fn parse_case(words: &[&str]) -> Option<Case> {
    if GROW.swap(0, std::sync::atomic::Ordering::SeqCst) != 0 {
        *SOLO.lock().unwrap() = None;
    }
    if words.len() < 2 || words[0] != "conc" {
        return None;
    }
    let mut c = Case { base: PathBuf::from(unescape(words[1])), disk: HashMap::new(), pre: vec![], main: vec![], threads: vec![],
                       sched: vec![], probes: vec![], stress: None };
    for w in &words[2..] {
        let (k, rest) = w.split_at(1);
        match k {
            "W" => {
                let (d, v) = rest.split_once('=')?;
                c.disk.insert(d.to_string(), v.parse().ok()?);
            }
            "P" => c.pre.push(parse_op(rest)?),
            "M" => c.main.push(parse_op(rest)?),
            "T" => {
                let (id, spec) = rest.split_once('=')?;
                let (kind, doc) = spec.split_once(':')?;
                c.threads.push((id.parse().ok()?, kind.to_string(), doc.to_string()));
            }
            "S" => {
                for x in rest.split(',').filter(|x| !x.is_empty()) {
                    c.sched.push(x.parse().ok()?);
                }
            }
            "Q" => {
                let (kind, doc) = rest.split_once(':')?;
                c.probes.push((kind.to_string(), doc.to_string()));
            }
            "X" => c.stress = Some(rest.parse().ok()?),
            "G" => {
                GROW.store(rest.parse().ok()?, std::sync::atomic::Ordering::SeqCst);
                *SOLO.lock().unwrap() = None; // solo answers are per text
            }
            _ => return None,
        }
    }
    c.threads.sort();
    Some(c)
}

// ------------------------------------------------------------------------------------------------
// the version history of a document (the spec side of the oracle)
// ------------------------------------------------------------------------------------------------

/// per document: the versions it has had (`texts`), how many ops on it have started / completed
struct Hist {
    texts: Mutex<HashMap<String, Vec<usize>>>,
    disk: Mutex<HashMap<String, usize>>,
    started: Mutex<HashMap<String, usize>>,
    completed: Mutex<HashMap<String, usize>>,
}

impl Hist {
    fn new(disk: &HashMap<String, usize>) -> Hist {
        let mut t = HashMap::new();
        let mut d = HashMap::new();
        for k in DOCS {
            let v = *disk.get(k).unwrap_or(&1);
            t.insert(k.to_string(), vec![v]);
            d.insert(k.to_string(), v);
        }
        Hist { texts: Mutex::new(t), disk: Mutex::new(d), started: Mutex::new(HashMap::new()), completed: Mutex::new(HashMap::new()) }
    }
    fn count(m: &Mutex<HashMap<String, usize>>, doc: &str) -> usize {
        *m.lock().unwrap().get(doc).unwrap_or(&0)
    }
    fn bump(m: &Mutex<HashMap<String, usize>>, doc: &str) {
        *m.lock().unwrap().entry(doc.to_string()).or_insert(0) += 1;
    }
    /// an op on `doc` begins: the document gets a new logical version
    fn begin(&self, doc: &str, new_ver: Option<usize>, to_disk: bool) {
        let v = match new_ver {
            Some(v) => v,
            None => *self.disk.lock().unwrap().get(doc).unwrap_or(&1),
        };
        if to_disk {
            self.disk.lock().unwrap().insert(doc.to_string(), v);
        }
        self.texts.lock().unwrap().entry(doc.to_string()).or_default().push(v);
        Hist::bump(&self.started, doc);
    }
    fn end(&self, doc: &str) {
        Hist::bump(&self.completed, doc);
    }
    fn allowed(&self, doc: &str, lo: usize, hi: usize) -> Vec<usize> {
        let t = self.texts.lock().unwrap();
        let l = t.get(doc).cloned().unwrap_or_default();
        l.iter().enumerate().filter(|(i, _)| *i >= lo && *i <= hi).map(|(_, v)| *v).collect()
    }
    fn all(&self, doc: &str) -> Vec<usize> {
        self.texts.lock().unwrap().get(doc).cloned().unwrap_or_default()
    }
}

/// the document whose contents a request depends on
fn touched(kind: &str, doc: &str) -> String {
    if kind == "xcompl" { "D".to_string() } else { doc.to_string() }
}

fn exec_op(pm: &mut ProjectManager, pool: &ThreadPool, root: &Path, hist: &Hist, op: &Op) {
    match op {
        Op::Change(d, v) => {
            hist.begin(d, Some(*v), false);
            let _ = pm.notify_document_changed(&uri_of(root, d), &text_of(d, *v), pool);
            hist.end(d);
        }
        Op::Save(d, v) => {
            hist.begin(d, Some(*v), true);
            // the client replaces the file in one step (a reader never sees a half-written file)
            let tmp = root.join(format!(".{}.tmp", file_of(d)));
            let _ = fs::write(&tmp, text_of(d, *v));
            let _ = fs::rename(&tmp, root.join(file_of(d)));
            let _ = pm.notify_document_saved(&uri_of(root, d), pool);
            hist.end(d);
        }
        Op::Close(d) => {
            hist.begin(d, None, false);
            pm.doc_service.notify_document_closed(&uri_of(root, d));
            hist.end(d);
        }
        Op::Open(d) => {
            let _ = pm.notify_document_opened(&uri_of(root, d), pool);
        }
        Op::Req(k, d) => {
            let _ = do_request(pm, root, k, d);
        }
    }
}

// ------------------------------------------------------------------------------------------------
// OS-level view of a thread: is it blocked in a futex wait?
// ------------------------------------------------------------------------------------------------

fn my_tid() -> u32 {
    fs::read_link("/proc/thread-self").ok()
        .and_then(|p| p.file_name().map(|s| s.to_string_lossy().to_string()))
        .and_then(|s| s.parse().ok()).unwrap_or(0)
}

/// (sleeping in futex?, voluntary context switches)
fn os_state(tid: u32) -> Option<(bool, u64)> {
    let stat = fs::read_to_string(format!("/proc/self/task/{}/stat", tid)).ok()?;
    let after = stat.rsplit_once(')')?.1;
    let state = after.split_whitespace().next()?.to_string();
    let sc = fs::read_to_string(format!("/proc/self/task/{}/syscall", tid)).unwrap_or_default();
    let in_futex = sc.split_whitespace().next() == Some("202");
    let status = fs::read_to_string(format!("/proc/self/task/{}/status", tid)).unwrap_or_default();
    let nv = status.lines().find(|l| l.starts_with("voluntary_ctxt_switches")).and_then(|l| l.split_whitespace().nth(1))
        .and_then(|x| x.parse().ok()).unwrap_or(0);
    Some((state == "S" && in_futex, nv))
}

#[derive(Clone, PartialEq, Debug)]
enum Where {
    Parked(String),
    Done,
    Blocked(u64),
    Busy,
}

fn show(w: &Where) -> String {
    match w {
        Where::Parked(n) => n.clone(),
        Where::Done => "done".into(),
        Where::Blocked(_) => "blocked".into(),
        Where::Busy => "busy".into(),
    }
}

struct Actor {
    id: usize,
    tid: Arc<AtomicUsize>,
    finished: Arc<AtomicBool>,
}

fn look(a: &Actor) -> Where {
    if a.finished.load(Ordering::SeqCst) {
        return Where::Done;
    }
    match verif_hooks::park_state(a.id) {
        Some((n, false)) => return Where::Parked(n),
        Some((_, true)) => return Where::Busy,
        None => {}
    }
    let tid = a.tid.load(Ordering::SeqCst) as u32;
    if tid == 0 {
        return Where::Busy;
    }
    match os_state(tid) {
        Some((true, nv)) => {
            // registered as parked meanwhile?  (the park is a futex wait too)
            if a.finished.load(Ordering::SeqCst) { return Where::Done; }
            match verif_hooks::park_state(a.id) {
                Some((n, false)) => Where::Parked(n),
                Some((_, true)) => Where::Busy,
                None => Where::Blocked(nv),
            }
        }
        Some((false, _)) => Where::Busy,
        None => if a.finished.load(Ordering::SeqCst) { Where::Done } else { Where::Busy },
    }
}

/// wait until no actor is running: everyone parked, finished or blocked on a lock — seen twice in a row
fn quiesce(actors: &[Actor], deadline: Duration) -> Option<Vec<Where>> {
    let until = Instant::now() + deadline;
    let mut prev: Option<Vec<Where>> = None;
    let mut stable = 0;
    loop {
        let snap: Vec<Where> = actors.iter().map(look).collect();
        if snap.iter().all(|w| *w != Where::Busy) {
            if prev.as_ref() == Some(&snap) {
                stable += 1;
                // a blocked thread must be seen unchanged over a longer window than parked ones
                let need = if snap.iter().any(|w| matches!(w, Where::Blocked(_))) { 6 } else { 1 };
                if stable >= need {
                    return Some(snap);
                }
            } else {
                stable = 0;
            }
            prev = Some(snap);
        } else {
            prev = None;
            stable = 0;
        }
        if Instant::now() >= until {
            return None;
        }
        std::thread::sleep(Duration::from_micros(if stable > 0 { 400 } else { 50 }));
    }
}

// ------------------------------------------------------------------------------------------------
// one case
// ------------------------------------------------------------------------------------------------

struct Outcome {
    line: String,
    must_exit: bool,
}

fn run_case(words: &[&str]) -> Outcome {
    let case = match parse_case(words) {
        Some(c) => c,
        None => return Outcome { line: "bad-op".into(), must_exit: false },
    };
    let n = COUNTER.fetch_add(1, Ordering::SeqCst);
    let top = case.base.join(format!("{}-{}", std::process::id(), n));
    let _ = fs::remove_dir_all(&top);
    if fs::create_dir_all(top.join("r")).is_err() {
        return Outcome { line: "bad-ws".into(), must_exit: false };
    }
    let root = fs::canonicalize(top.join("r")).unwrap();
    write_ws(&root, &case.disk);
    let hist = Arc::new(Hist::new(&case.disk));
    let pool = Arc::new(ThreadPool::new(1, Box::new(NullLogger)));
    let mut pm = new_manager(&root);
    for op in &case.pre {
        exec_op(&mut pm, &pool, &root, &hist, op);
    }
    let out = if let Some(rounds) = case.stress {
        run_stress(&case, &root, &hist, &pool, &mut pm, rounds)
    } else {
        run_forced(&case, &root, &hist, &pool, &mut pm)
    };
    if !out.must_exit {
        let _ = fs::remove_dir_all(&top);
    } else {
        // threads are stuck inside the manager: the process is about to exit; remove the scratch now
        let _ = fs::remove_dir_all(&top);
    }
    out
}

struct Slot {
    answer: Mutex<Option<String>>,
    lo: AtomicUsize,
    hi: AtomicUsize,
}

fn run_forced(case: &Case, root: &Path, hist: &Arc<Hist>, pool: &Arc<ThreadPool>, pm: &mut ProjectManager) -> Outcome {
    let mut filter: Vec<String> = vec!["start".into(), "op".into()];
    for d in ["D", "E"] {
        filter.push(format!("@a{}", d));
    }
    verif_hooks::install_controller(filter);
    let mut actors: Vec<Actor> = Vec::new();
    let mut handles = Vec::new();
    let mut slots: HashMap<usize, Arc<Slot>> = HashMap::new();
    // main thread = actor 0
    {
        let a = Actor { id: 0, tid: Arc::new(AtomicUsize::new(0)), finished: Arc::new(AtomicBool::new(false)) };
        let (tid, fin) = (a.tid.clone(), a.finished.clone());
        let ops = case.main.clone();
        let mut pmc = pm.clone();
        let (root, hist, pool) = (root.to_path_buf(), hist.clone(), pool.clone());
        handles.push(std::thread::spawn(move || {
            verif_hooks::set_actor(Some(0));
            tid.store(my_tid() as usize, Ordering::SeqCst);
            let r = std::panic::catch_unwind(std::panic::AssertUnwindSafe(|| {
                for op in &ops {
                    verif_hooks::yield_point("op");
                    exec_op(&mut pmc, &pool, &root, &hist, op);
                }
            }));
            let _ = r;
            fin.store(true, Ordering::SeqCst);
        }));
        actors.push(a);
    }
    for (id, kind, doc) in &case.threads {
        let a = Actor { id: *id, tid: Arc::new(AtomicUsize::new(0)), finished: Arc::new(AtomicBool::new(false)) };
        let slot = Arc::new(Slot { answer: Mutex::new(None), lo: AtomicUsize::new(0), hi: AtomicUsize::new(0) });
        slots.insert(*id, slot.clone());
        let (tid, fin) = (a.tid.clone(), a.finished.clone());
        let mut pmc = pm.clone();
        let (root, hist) = (root.to_path_buf(), hist.clone());
        let (id, kind, doc) = (*id, kind.clone(), doc.clone());
        handles.push(std::thread::spawn(move || {
            verif_hooks::set_actor(Some(id));
            tid.store(my_tid() as usize, Ordering::SeqCst);
            verif_hooks::yield_point("start");
            let t = touched(&kind, &doc);
            slot.lo.store(Hist::count(&hist.completed, &t), Ordering::SeqCst);
            let r = std::panic::catch_unwind(std::panic::AssertUnwindSafe(|| do_request(&mut pmc, &root, &kind, &doc)));
            slot.hi.store(Hist::count(&hist.started, &t), Ordering::SeqCst);
            *slot.answer.lock().unwrap() = Some(r.unwrap_or_else(|_| "panic".to_string()));
            fin.store(true, Ordering::SeqCst);
        }));
        actors.push(a);
    }
    let step_deadline = Duration::from_secs(20);
    let mut trace: Vec<String> = Vec::new();
    let mut fin = "ok";
    let mut cur = match quiesce(&actors, step_deadline) {
        Some(s) => s,
        None => { fin = "stuck"; actors.iter().map(look).collect() }
    };
    let idx_of = |id: usize| actors.iter().position(|a| a.id == id);
    let mut do_step = |t: usize, cur: &mut Vec<Where>, trace: &mut Vec<String>| -> bool {
        let i = match idx_of(t) {
            Some(i) => i,
            None => { trace.push(format!("{}:-", t)); return true; }
        };
        if !matches!(cur[i], Where::Parked(_)) {
            trace.push(format!("{}:-", t));
            return true;
        }
        verif_hooks::release(t);
        match quiesce(&actors, step_deadline) {
            Some(now) => {
                let mut tok = format!("{}:{}", t, show(&now[i]));
                for (j, a) in actors.iter().enumerate() {
                    if j != i && show(&now[j]) != show(&cur[j]) {
                        tok.push_str(&format!("+{}:{}", a.id, show(&now[j])));
                    }
                }
                trace.push(tok);
                *cur = now;
                true
            }
            None => false,
        }
    };
    if fin == "ok" {
        for t in &case.sched {
            if !do_step(*t, &mut cur, &mut trace) {
                fin = "stuck";
                break;
            }
        }
    }
    // completion: the lowest parked thread runs on, until nobody is parked
    while fin == "ok" {
        let next = actors.iter().enumerate().find(|(i, _)| matches!(cur[*i], Where::Parked(_))).map(|(_, a)| a.id);
        match next {
            Some(t) => {
                if !do_step(t, &mut cur, &mut trace) {
                    fin = "stuck";
                }
            }
            None => {
                if cur.iter().all(|w| *w == Where::Done) { break; }
                fin = "deadlock";
            }
        }
    }
    verif_hooks::remove_controller();
    let must_exit = fin != "ok";
    if !must_exit {
        for h in handles {
            let _ = h.join();
        }
    }
    let mut words: Vec<String> = Vec::new();
    for (id, kind, doc) in &case.threads {
        let slot = &slots[id];
        let ans = if actors[idx_of(*id).unwrap()].finished.load(Ordering::SeqCst) { slot.answer.lock().unwrap().clone() } else { None };
        let t = touched(kind, doc);
        let cls = classify(&case.base, kind, doc, &ans, &hist.all(&t));
        let allowed = hist.allowed(&t, slot.lo.load(Ordering::SeqCst), slot.hi.load(Ordering::SeqCst));
        words.push(format!("t{}={}/{}", id, cls, allowed.iter().map(|v| v.to_string()).collect::<Vec<_>>().join(".")));
        if std::env::var("CONC_DUMP").is_ok() {
            // debugging aid: the raw canonical answer
            eprintln!("t{} {}:{} -> {}", id, kind, doc, ans.clone().unwrap_or_default());
        }
    }
    if !must_exit && !case.probes.is_empty() {
        let mut q = Vec::new();
        for (kind, doc) in &case.probes {
            let t = touched(kind, doc);
            let a = std::panic::catch_unwind(std::panic::AssertUnwindSafe(|| do_request(pm, root, kind, doc))).unwrap_or_else(|_| "panic".into());
            let all = hist.all(&t);
            let cls = classify(&case.base, kind, doc, &Some(a), &all);
            q.push(format!("{}/{}", cls, all.last().cloned().unwrap_or(1)));
        }
        words.push(format!("q={}", q.join(",")));
    }
    words.push(format!("tr={}", trace.join(",")));
    words.push(format!("fin={}", fin));
    Outcome { line: words.join(" "), must_exit }
}

/// free-running stress: real parallel threads, no parking; every answer is judged against the
/// versions the document had between the call and the return (counters read before / after)
fn run_stress(case: &Case, root: &Path, hist: &Arc<Hist>, pool: &Arc<ThreadPool>, pm: &mut ProjectManager, rounds: usize) -> Outcome {
    let go = Arc::new(AtomicBool::new(false));
    let mut handles = Vec::new();
    let results: Arc<Mutex<Vec<(usize, String, String, Option<String>, usize, usize)>>> = Arc::new(Mutex::new(Vec::new()));
    let live = Arc::new(AtomicUsize::new(case.threads.len() + 1));
    let mut watch: Vec<(Arc<AtomicUsize>, Arc<AtomicBool>)> = Vec::new();
    {
        let ops = case.main.clone();
        let mut pmc = pm.clone();
        let (root, hist, pool, go, live) = (root.to_path_buf(), hist.clone(), pool.clone(), go.clone(), live.clone());
        let (tid, fin) = (Arc::new(AtomicUsize::new(0)), Arc::new(AtomicBool::new(false)));
        watch.push((tid.clone(), fin.clone()));
        handles.push(std::thread::spawn(move || {
            tid.store(my_tid() as usize, Ordering::SeqCst);
            while !go.load(Ordering::SeqCst) { std::thread::yield_now(); }
            let _ = std::panic::catch_unwind(std::panic::AssertUnwindSafe(|| {
                for (i, op) in ops.iter().enumerate() {
                    // spread the ops over the lifetime of the requests
                    if i % 2 == 1 { std::thread::yield_now(); }
                    exec_op(&mut pmc, &pool, &root, &hist, op);
                }
            }));
            fin.store(true, Ordering::SeqCst);
            live.fetch_sub(1, Ordering::SeqCst);
        }));
    }
    for (id, kind, doc) in &case.threads {
        let mut pmc = pm.clone();
        let (root, hist, go, live, results) = (root.to_path_buf(), hist.clone(), go.clone(), live.clone(), results.clone());
        let (id, kind, doc) = (*id, kind.clone(), doc.clone());
        let (tid, fin) = (Arc::new(AtomicUsize::new(0)), Arc::new(AtomicBool::new(false)));
        watch.push((tid.clone(), fin.clone()));
        handles.push(std::thread::spawn(move || {
            tid.store(my_tid() as usize, Ordering::SeqCst);
            while !go.load(Ordering::SeqCst) { std::thread::yield_now(); }
            for _ in 0..rounds {
                let t = touched(&kind, &doc);
                let lo = Hist::count(&hist.completed, &t);
                let r = std::panic::catch_unwind(std::panic::AssertUnwindSafe(|| do_request(&mut pmc, &root, &kind, &doc)));
                let hi = Hist::count(&hist.started, &t);
                results.lock().unwrap().push((id, kind.clone(), doc.clone(), Some(r.unwrap_or_else(|_| "panic".into())), lo, hi));
            }
            fin.store(true, Ordering::SeqCst);
            live.fetch_sub(1, Ordering::SeqCst);
        }));
    }
    go.store(true, Ordering::SeqCst);
    // a deadlock is called only on definite evidence: every unfinished thread sleeps in a futex wait and
    // none of them has been scheduled for a whole second
    let t0 = Instant::now();
    let mut blocked_since: Option<(Instant, Vec<u64>)> = None;
    let mut verdict = "ok";
    while live.load(Ordering::SeqCst) > 0 {
        std::thread::sleep(Duration::from_millis(2));
        if t0.elapsed() < Duration::from_millis(300) {
            continue;
        }
        let mut all_blocked = true;
        let mut sig: Vec<u64> = Vec::new();
        for (tid, fin) in &watch {
            if fin.load(Ordering::SeqCst) { continue; }
            match os_state(tid.load(Ordering::SeqCst) as u32) {
                Some((true, nv)) => sig.push(nv),
                _ => { all_blocked = false; break; }
            }
        }
        if all_blocked && !sig.is_empty() {
            match &blocked_since {
                Some((since, old)) if *old == sig => {
                    if since.elapsed() > Duration::from_millis(1000) { verdict = "deadlock"; break; }
                }
                _ => blocked_since = Some((Instant::now(), sig)),
            }
        } else {
            blocked_since = None;
        }
        if t0.elapsed() > Duration::from_secs(60) { verdict = "slow"; break; }
    }
    if verdict != "ok" {
        return Outcome { line: format!("stress fin={} live={}", verdict, live.load(Ordering::SeqCst)), must_exit: true };
    }
    for h in handles {
        let _ = h.join();
    }
    let mut words: Vec<String> = Vec::new();
    let res = results.lock().unwrap().clone();
    for (id, kind, doc, ans, lo, hi) in res {
        let t = touched(&kind, &doc);
        let cls = classify(&case.base, &kind, &doc, &ans, &hist.all(&t));
        let allowed = hist.allowed(&t, lo, hi);
        words.push(format!("t{}={}/{}", id, cls, allowed.iter().map(|v| v.to_string()).collect::<Vec<_>>().join(".")));
    }
    let mut q = Vec::new();
    for (kind, doc) in &case.probes {
        let t = touched(kind, doc);
        let a = std::panic::catch_unwind(std::panic::AssertUnwindSafe(|| do_request(pm, root, kind, doc))).unwrap_or_else(|_| "panic".into());
        let all = hist.all(&t);
        let cls = classify(&case.base, kind, doc, &Some(a), &all);
        q.push(format!("{}/{}", cls, all.last().cloned().unwrap_or(1)));
    }
    if !q.is_empty() {
        words.push(format!("q={}", q.join(",")));
    }
    words.push("fin=ok".into());
    Outcome { line: format!("stress {}", words.join(" ")), must_exit: false }
}

// ------------------------------------------------------------------------------------------------
// child: one case per line, flushed; exits after a case that left threads stuck
// ------------------------------------------------------------------------------------------------

pub fn run_child(_args: &[String], input: &mut dyn BufRead, out: &mut dyn Write) {
    let mut line = String::new();
    loop {
        line.clear();
        match input.read_line(&mut line) {
            Ok(0) | Err(_) => break,
            Ok(_) => {}
        }
        let words: Vec<&str> = line.split_whitespace().collect();
        let o = match std::panic::catch_unwind(std::panic::AssertUnwindSafe(|| run_case(&words))) {
            Ok(o) => o,
            Err(_) => Outcome { line: "panic".into(), must_exit: false },
        };
        let _ = writeln!(out, "{}", o.line);
        let _ = out.flush();
        if o.must_exit {
            std::process::exit(0);
        }
    }
}

// ------------------------------------------------------------------------------------------------
// parent: watchdog around the child
// ------------------------------------------------------------------------------------------------

struct Child {
    proc: std::process::Child,
    stdin: std::process::ChildStdin,
    rx: std::sync::mpsc::Receiver<Option<String>>,
}

fn spawn_child() -> Child {
    let exe = std::env::current_exe().unwrap();
    let mut proc = std::process::Command::new(exe).arg("conc1")
        .stdin(std::process::Stdio::piped()).stdout(std::process::Stdio::piped()).stderr(std::process::Stdio::null())
        .spawn().unwrap();
    let stdin = proc.stdin.take().unwrap();
    let stdout = proc.stdout.take().unwrap();
    let (tx, rx) = std::sync::mpsc::channel();
    std::thread::spawn(move || {
        let mut r = BufReader::new(stdout);
        loop {
            let mut l = String::new();
            match r.read_line(&mut l) {
                Ok(0) | Err(_) => { let _ = tx.send(None); break; }
                Ok(_) => { if tx.send(Some(l.trim_end().to_string())).is_err() { break; } }
            }
        }
    });
    Child { proc, stdin, rx }
}

fn cpu_ticks(pid: u32) -> Option<u64> {
    let mut tot = 0;
    for e in fs::read_dir(format!("/proc/{}/task", pid)).ok()? {
        let e = e.ok()?;
        let stat = fs::read_to_string(e.path().join("stat")).ok()?;
        let after = stat.rsplit_once(')')?.1.to_string();
        let f: Vec<&str> = after.split_whitespace().collect();
        tot += f.get(11)?.parse::<u64>().ok()? + f.get(12)?.parse::<u64>().ok()?;
    }
    Some(tot)
}

pub fn run_parent(args: &[String], input: &mut dyn BufRead, out: &mut dyn Write) {
    let deadline = Duration::from_millis(args.get(0).and_then(|a| a.parse().ok()).unwrap_or(40000));
    let mut child = spawn_child();
    let mut line = String::new();
    loop {
        line.clear();
        match input.read_line(&mut line) {
            Ok(0) | Err(_) => break,
            Ok(_) => {}
        }
        let l = line.trim_end().to_string();
        if l.is_empty() {
            let _ = writeln!(out, "bad-op");
            continue;
        }
        let mut attempts = 0;
        let answer = loop {
            attempts += 1;
            if writeln!(child.stdin, "{}", l).and_then(|_| child.stdin.flush()).is_err() {
                let _ = child.proc.kill();
                let _ = child.proc.wait();
                child = spawn_child();
                if attempts < 3 { continue; }
                break "crash".to_string();
            }
            match child.rx.recv_timeout(deadline) {
                Ok(Some(a)) => break a,
                Ok(None) => {
                    // the child exited (after a deadlock line it exits by itself; here: before answering)
                    let _ = child.proc.wait();
                    child = spawn_child();
                    if attempts < 2 { continue; }
                    break "crash".to_string();
                }
                Err(_) => {
                    let pid = child.proc.id();
                    let a = cpu_ticks(pid);
                    std::thread::sleep(Duration::from_millis(500));
                    let b = cpu_ticks(pid);
                    let idle = a.is_some() && a == b;
                    let _ = child.proc.kill();
                    let _ = child.proc.wait();
                    child = spawn_child();
                    break format!("hang idle={}", if idle { 1 } else { 0 });
                }
            }
        };
        let _ = writeln!(out, "{}", answer);
        let _ = out.flush();
    }
    let _ = child.proc.kill();
    let _ = child.proc.wait();
}
