// @mode scope line
//! mode `scope`: a generated workspace is materialised on disk, the real `ProjectManager` is
//! built over it exactly as `main.rs` does (`ProjectManager::new` + `index_files`), and every
//! listed position is answered by the functions the request handlers of `main.rs` call:
//! `ProjectManager::generate_goto_definitions` and `ProjectManager::generate_completion_proposals`.
//!
//! `scope <id> F <stem> <escaped text> … Q <file index> <d|c|o> <line> <col> …`
//!   d → `d<f>:<l>:<c>=<stem>@<selection>/<target>,…`   (links in response order) | `err`
//!   c → `c<f>:<l>:<c>=<label>,…`                       (sorted, duplicates kept)  | `err`
//!   o → `o<f>=<outline>`                               (documentSymbol of file f)
//! `W <file index> <d|c|o> <line> <col>` = warm-up: every manager serves these requests (answers discarded) before its
//! first query — an earlier request about another document must not change what a query answers.
//! A stem may contain `/` (sub-directory).  The directory is removed afterwards.  Each queried file
//! gets its own manager (fresh index, nothing analysed yet) that serves all queries on that file.
use std::path::PathBuf;
use std::sync::atomic::{AtomicUsize, Ordering};

use lsp_types::Url;

use crate::dump::{outline_str, rng_str};
use crate::manager::ProjectManager;
use crate::utils::{ILoggerV2, LogLevel, LogType, Position, Range};
use crate::wire::unescape;

#[derive(Debug, Clone)]
struct NullLogger;
impl ILoggerV2 for NullLogger {
    fn log_error(&self, _msg: &str) {}
    fn log_warning(&self, _msg: &str) {}
    fn log_info(&self, _msg: &str) {}
    fn log(&self, _t: LogType, _l: LogLevel, _msg: &str) {}
    fn clone_box(&self) -> Box<dyn ILoggerV2> {
        Box::new(NullLogger)
    }
    fn clone_box_with_appended_prefix(&self, _prefix: &str) -> Box<dyn ILoggerV2> {
        Box::new(NullLogger)
    }
    fn append_prefix(&mut self, _prefix: &str) {}
}

static COUNTER: AtomicUsize = AtomicUsize::new(0);

/// `<verif>/.cache/ws` — the harness binary lives in `<verif>/.cache/harness-target/release/`
fn scratch_root() -> PathBuf {
    if let Ok(p) = std::env::var("VERIF_WS_SCRATCH") {
        return PathBuf::from(p);
    }
    let exe = std::env::current_exe().unwrap();
    let cache = exe.ancestors().find(|a| a.file_name().map_or(false, |n| n == ".cache"));
    match cache {
        Some(c) => c.join("ws"),
        None => std::env::current_dir().unwrap().join(".cache").join("ws"),
    }
}

struct Scratch(PathBuf);
impl Drop for Scratch {
    fn drop(&mut self) {
        let _ = std::fs::remove_dir_all(&self.0);
    }
}

fn lsp_rng(r: &lsp_types::Range) -> String {
    format!("{}:{}-{}:{}", r.start.line, r.start.character, r.end.line, r.end.character)
}

fn stem_of(u: &Url) -> String {
    u.to_file_path()
        .ok()
        .and_then(|p| p.file_stem().map(|s| s.to_string_lossy().to_string()))
        .unwrap_or_else(|| "?".to_string())
}

pub fn run(words: &[&str]) -> String {
    if words.len() < 2 {
        return "bad-op".into();
    }
    let id = words[1];
    let mut files: Vec<(String, String)> = Vec::new();
    let mut queries: Vec<(usize, char, usize, usize)> = Vec::new();
    let mut warm: Vec<(usize, char, usize, usize)> = Vec::new();
    let mut i = 2;
    while i < words.len() {
        match words[i] {
            "F" => {
                if i + 2 >= words.len() {
                    return "bad-op".into();
                }
                files.push((unescape(words[i + 1]), unescape(words[i + 2])));
                i += 3;
            }
            "Q" | "W" => {
                if i + 4 >= words.len() {
                    return "bad-op".into();
                }
                let f: usize = match words[i + 1].parse() {
                    Ok(x) => x,
                    Err(_) => return "bad-op".into(),
                };
                let k = words[i + 2].chars().next().unwrap_or('?');
                let l: usize = match words[i + 3].parse() {
                    Ok(x) => x,
                    Err(_) => return "bad-op".into(),
                };
                let c: usize = match words[i + 4].parse() {
                    Ok(x) => x,
                    Err(_) => return "bad-op".into(),
                };
                if words[i] == "W" {
                    warm.push((f, k, l, c));
                } else {
                    queries.push((f, k, l, c));
                }
                i += 5;
            }
            _ => return "bad-op".into(),
        }
    }
    // materialise
    let n = COUNTER.fetch_add(1, Ordering::SeqCst);
    let safe_id: String = id.chars().filter(|c| c.is_ascii_alphanumeric() || *c == '-' || *c == '_').collect();
    let dir = scratch_root().join(format!("{}-{}-{}", std::process::id(), n, safe_id));
    if std::fs::create_dir_all(&dir).is_err() {
        return "scratch-failed".into();
    }
    let scratch = Scratch(dir.clone());
    let mut paths = Vec::new();
    for (stem, text) in &files {
        let p = dir.join(format!("{}.god", stem));
        if let Some(parent) = p.parent() {
            let _ = std::fs::create_dir_all(parent);
        }
        if std::fs::write(&p, text).is_err() {
            return "scratch-failed".into();
        }
        paths.push(p);
    }
    // the server's start-up sequence (main_loop): ProjectManager::new(root_uri) + index_files()
    let root = std::fs::canonicalize(&dir).unwrap();
    let root_uri = Url::from_file_path(&root).unwrap();
    // one manager per queried file: what a file's answers are must not depend on which other
    // documents happened to be analysed earlier (cache histories are C02's subject); all queries
    // on one file share its manager, as consecutive requests on a document do in the server
    let mut pms: std::collections::HashMap<usize, ProjectManager> = std::collections::HashMap::new();
    let uris: Vec<Url> = paths
        .iter()
        .map(|p| Url::from_file_path(std::fs::canonicalize(p).unwrap()).unwrap())
        .collect();
    let mut out = Vec::new();
    for (f, k, l, c) in queries {
        if f >= uris.len() {
            out.push("bad-op".to_string());
            continue;
        }
        let pos = Position::new(l, c);
        let uri = uris[f].clone();
        if !pms.contains_key(&f) {
            let mut pm = match ProjectManager::new(Some(root_uri.clone()), Box::new(NullLogger)) {
                Ok(pm) => pm,
                Err(_) => return "manager-failed".into(),
            };
            pm.index_files();
            for (wf, wk, wl, wc) in &warm {
                if *wf >= uris.len() {
                    continue;
                }
                let mut w = pm.clone();
                let wuri = uris[*wf].clone();
                let wpos = Position::new(*wl, *wc);
                let _ = std::panic::catch_unwind(std::panic::AssertUnwindSafe(|| match wk {
                    'd' => {
                        let _ = w.generate_goto_definitions(&wuri, &wpos);
                    }
                    'c' => {
                        let _ = w.generate_completion_proposals(&wuri, &wpos);
                    }
                    _ => {
                        let _ = w.generate_document_symbols(&wuri);
                    }
                }));
            }
            pms.insert(f, pm);
        }
        let mut pmc = pms.get(&f).unwrap().clone(); // handlers run on a clone of the manager (shared services)
        let res = std::panic::catch_unwind(std::panic::AssertUnwindSafe(|| match k {
            'd' => match pmc.generate_goto_definitions(&uri, &pos) {
                Ok(links) => links
                    .iter()
                    .map(|x| format!("{}@{}/{}", stem_of(&x.target_uri), lsp_rng(&x.target_selection_range), lsp_rng(&x.target_range)))
                    .collect::<Vec<_>>()
                    .join(","),
                Err(_) => "err".to_string(),
            },
            'c' => match pmc.generate_completion_proposals(&uri, &pos) {
                Ok(items) => {
                    let mut labels: Vec<String> = items.iter().map(|x| x.label.clone()).collect();
                    labels.sort();
                    labels.join(",")
                }
                Err(_) => "err".to_string(),
            },
            'o' => match pmc.generate_document_symbols(&uri) {
                Ok(syms) => outline_str(&syms),
                Err(_) => "err".to_string(),
            },
            _ => "bad-op".to_string(),
        }));
        let ans = match res {
            Ok(s) => s,
            Err(_) => "panic".to_string(),
        };
        if k == 'o' {
            out.push(format!("o{}={}", f, ans));
        } else {
            out.push(format!("{}{}:{}:{}={}", k, f, l, c, ans));
        }
    }
    drop(scratch);
    out.join(" ")
}
