// @mode lint line
// @mode linttoks line run_toks
// @mode diagranges line run_ranges
//! mode `lint`: `lint <escaped text>` → the REAL diagnostics request on a one-file workspace:
//!   write the text to `.cache/ws/<unique>/aLintCase.god`, `ProjectManager::new` + `index_files`,
//!   `generate_document_diagnostic_report(uri)` twice (first = computed, second = the cached /
//!   recomputed mix of manager/mod.rs), remove the workspace.
//!   Output: `L=<sorted items> P=<#parser+lexer diagnostics> I=<same|diff>` where an item is
//!   `sev|l:c-l:c|escaped-message|tags` and `I` says whether the second response is the same multiset.
//! mode `linttoks`: `linttoks <Kind:value:sl:sc:el:ec>…` → `parse_gold` on exactly these tokens and
//!   the analyzers wired as in manager/mod.rs (`analyze_ast` + `generate_diags_on_annotated_ast`),
//!   without a workspace (the three annotated-tree checkers only read node data, children and
//!   parents, so `generate_annotated_tree` is all they need).  Same output, `I=same` always.
use std::cell::RefCell;
use std::rc::Rc;
use std::sync::atomic::{AtomicUsize, Ordering};
use std::sync::{Arc, Mutex};

use lsp_types::{Diagnostic, DiagnosticSeverity, Url};

use crate::analyzers::ast_walker::AstWalker;
use crate::analyzers::function_return_type_checker::FunctionReturnTypeChecker;
use crate::analyzers::unused_var_analyzer::UnusedVarAnalyzer;
use crate::analyzers::{AnalyzerDiagnostic, IAnalyzer};
use crate::analyzers_v2::annotated_ast_walker::{AnnotatedAstWalkerPreOrder, IAnnotatedNodeVisitor};
use crate::analyzers_v2::ast_annotator::AstAnnotator;
use crate::analyzers_v2::inherited_checker::InheritedChecker;
use crate::analyzers_v2::naming_convention_checker::NamingConventionChecker;
use crate::analyzers_v2::unpurged_varbytearray_checker::UnpurgedVarByteArrayChecker;
use crate::dump::parse_tok;
use crate::manager::document_service::DocumentService;
use crate::manager::semantic_analysis_service::SemanticAnalysisService;
use crate::manager::ProjectManager;
use crate::parser::ast::IAstNode;
use crate::parser::parse_gold;
use crate::utils::{GenericDiagnosticCollector, IDiagnosticCollector, ILoggerV2, LogLevel, LogType};
use crate::wire::{escape, unescape};

#[derive(Debug, Clone)]
struct NullLogger;
impl ILoggerV2 for NullLogger {
    fn log_error(&self, _msg: &str) {}
    fn log_warning(&self, _msg: &str) {}
    fn log_info(&self, _msg: &str) {}
    fn log(&self, _t: LogType, _l: LogLevel, _msg: &str) {}
    fn clone_box(&self) -> Box<dyn ILoggerV2> {
        Box::new(NullLogger)
    }
    fn clone_box_with_appended_prefix(&self, _p: &str) -> Box<dyn ILoggerV2> {
        Box::new(NullLogger)
    }
    fn append_prefix(&mut self, _p: &str) {}
}

fn sev_str(s: &Option<DiagnosticSeverity>) -> &'static str {
    match s {
        Some(x) if *x == DiagnosticSeverity::ERROR => "E",
        Some(x) if *x == DiagnosticSeverity::WARNING => "W",
        Some(x) if *x == DiagnosticSeverity::INFORMATION => "I",
        Some(x) if *x == DiagnosticSeverity::HINT => "H",
        _ => "-",
    }
}

fn item(d: &Diagnostic) -> String {
    let tags = match &d.tags {
        Some(t) if !t.is_empty() => format!("t{}", t.len()),
        _ => "t0".to_string(),
    };
    format!(
        "{}|{}:{}-{}:{}|{}|{}",
        sev_str(&d.severity),
        d.range.start.line,
        d.range.start.character,
        d.range.end.line,
        d.range.end.character,
        escape(&d.message),
        tags
    )
}

fn canon(items: &[Diagnostic]) -> Vec<String> {
    let mut v: Vec<String> = items.iter().map(item).collect();
    v.sort();
    v
}

fn cache_dir() -> std::path::PathBuf {
    if let Ok(p) = std::env::var("VERIF_WS") {
        return std::path::PathBuf::from(p);
    }
    // the binary lives in <verif>/.cache/harness-target/release/
    let exe = std::env::current_exe().unwrap();
    let mut p = exe.as_path();
    for _ in 0..3 {
        p = p.parent().unwrap();
    }
    p.join("ws")
}

static COUNTER: AtomicUsize = AtomicUsize::new(0);

struct Scratch(std::path::PathBuf);
impl Drop for Scratch {
    fn drop(&mut self) {
        let _ = std::fs::remove_dir_all(&self.0);
    }
}

/// `lint <escaped text> [n parser diags to skip = computed]`
pub fn run(words: &[&str]) -> String {
    let text = if words.len() > 1 { unescape(words[1]) } else { String::new() };
    let dir = cache_dir().join(format!("{}-{}", std::process::id(), COUNTER.fetch_add(1, Ordering::SeqCst)));
    std::fs::create_dir_all(&dir).unwrap();
    let scratch = Scratch(dir.clone());
    let file = dir.join("aLintCase.god");
    std::fs::write(&file, text.as_bytes()).unwrap();
    let root = Url::from_file_path(std::fs::canonicalize(&dir).unwrap()).unwrap();
    let uri = Url::from_file_path(std::fs::canonicalize(&file).unwrap()).unwrap();
    let mut pm = match ProjectManager::new(Some(root), Box::new(NullLogger)) {
        Ok(p) => p,
        Err(_) => return "err(new)".into(),
    };
    pm.index_files();
    // the number of parser (+ lexer) diagnostics, to separate them from the analyzers' items
    let nparse = match pm.doc_service.get_parsed_document(&uri, true) {
        Ok(d) => d.lock().unwrap().get_parser_diagnostics().len(),
        Err(_) => return "err(parse)".into(),
    };
    let first = match pm.generate_document_diagnostic_report(&uri) {
        Ok(r) => r.full_document_diagnostic_report.items.clone(),
        Err(_) => return "err(report)".into(),
    };
    let second = match pm.generate_document_diagnostic_report(&uri) {
        Ok(r) => r.full_document_diagnostic_report.items.clone(),
        Err(_) => return "err(report2)".into(),
    };
    drop(scratch);
    if first.len() < nparse {
        return "err(shape)".into();
    }
    let a = canon(&first[nparse..]);
    let same = canon(&first) == canon(&second);
    format!("L={} P={} I={}", a.join(","), nparse, if same { "same" } else { "diff" })
}

/// `diagranges <escaped text>` → EVERY item of the real diagnostics response (lexer, parser and analyzer items, in response
/// order) as `sev|l:c-l:c`, then `N=<#lexer+parser diagnostics of the parsed document>`: the ranges the client receives (C08)
pub fn run_ranges(words: &[&str]) -> String {
    let text = if words.len() > 1 { unescape(words[1]) } else { String::new() };
    let dir = cache_dir().join(format!("{}-{}", std::process::id(), COUNTER.fetch_add(1, Ordering::SeqCst)));
    std::fs::create_dir_all(&dir).unwrap();
    let scratch = Scratch(dir.clone());
    let file = dir.join("aLintCase.god");
    std::fs::write(&file, text.as_bytes()).unwrap();
    let root = Url::from_file_path(std::fs::canonicalize(&dir).unwrap()).unwrap();
    let uri = Url::from_file_path(std::fs::canonicalize(&file).unwrap()).unwrap();
    let mut pm = match ProjectManager::new(Some(root), Box::new(NullLogger)) {
        Ok(p) => p,
        Err(_) => return "err(new)".into(),
    };
    pm.index_files();
    let nparse = match pm.doc_service.get_parsed_document(&uri, true) {
        Ok(d) => d.lock().unwrap().get_parser_diagnostics().len(),
        Err(_) => return "err(parse)".into(),
    };
    let items = match pm.generate_document_diagnostic_report(&uri) {
        Ok(r) => r.full_document_diagnostic_report.items.clone(),
        Err(_) => return "err(report)".into(),
    };
    drop(scratch);
    let v: Vec<String> = items
        .iter()
        .map(|d| format!("{}|{}:{}-{}:{}", sev_str(&d.severity), d.range.start.line, d.range.start.character, d.range.end.line, d.range.end.character))
        .collect();
    format!("R={} N={}", v.join(","), nparse)
}

/// `linttoks <tokens…>`
pub fn run_toks(words: &[&str]) -> String {
    let mut toks = Vec::new();
    for (i, w) in words[1..].iter().enumerate() {
        match parse_tok(w, i) {
            Some(t) => toks.push(t),
            None => return "bad-op".into(),
        }
    }
    let ((_rest, root), pdiags) = parse_gold(&toks);
    let root: Arc<dyn IAstNode> = root;
    // analyze_ast of manager/mod.rs
    let mut ast_walker: AstWalker<dyn IAnalyzer> = AstWalker::new(true);
    let analyzers: Vec<Rc<RefCell<dyn IAnalyzer>>> = vec![
        Rc::new(RefCell::new(UnusedVarAnalyzer::new())),
        Rc::new(RefCell::new(FunctionReturnTypeChecker::new())),
    ];
    ast_walker.register_visitors(&analyzers);
    ast_walker.run(&root);
    let mut result: Vec<Diagnostic> = Vec::new();
    for a in &analyzers {
        a.as_ref().borrow().append_diagnostics(&mut result);
    }
    // generate_diags_on_annotated_ast of manager/mod.rs
    let doc_service = DocumentService::new(None, Box::new(NullLogger)).unwrap();
    let sem = SemanticAnalysisService::new(
        doc_service,
        Box::new(NullLogger),
        Arc::new(Mutex::new(GenericDiagnosticCollector::<AnalyzerDiagnostic>::new())),
    );
    let annotator = AstAnnotator::new(
        sem,
        Arc::new(Mutex::new(GenericDiagnosticCollector::<AnalyzerDiagnostic>::new())),
        Box::new(NullLogger),
        false,
    );
    let annotated = annotator.generate_annotated_tree(&root);
    let diag_collector = Arc::new(Mutex::new(GenericDiagnosticCollector::<Diagnostic>::new()));
    let unpurged: Box<dyn IAnnotatedNodeVisitor> = Box::new(UnpurgedVarByteArrayChecker::new(diag_collector.clone()));
    let naming: Box<dyn IAnnotatedNodeVisitor> = Box::new(NamingConventionChecker::new(diag_collector.clone()));
    let inherited: Box<dyn IAnnotatedNodeVisitor> = Box::new(InheritedChecker::new(diag_collector.clone()));
    let mut walker = AnnotatedAstWalkerPreOrder::new();
    walker.register_visitor(unpurged);
    walker.register_visitor(naming);
    walker.register_visitor(inherited);
    walker.walk(&annotated);
    result.extend(diag_collector.lock().unwrap().take_diagnostics());
    format!("L={} P={} I=same", canon(&result).join(","), pdiags.len())
}
