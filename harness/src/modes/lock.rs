// @mode lock batch run_parent
// @mode lockchild batch run_child
//! mode `lock` (C14): every request kind on workspaces of any shape (self / mutual /
//! missing parents in any letter case, uses cycles, files without a class, unknown types),
//! each request on its own thread with a deadline, then follow-up requests on the same
//! manager and a direct look at the locks.
//!
//! `lock <files> <requests>`
//!   files     `stem:parent:members:uses:flags,…`   (wsutil::parse_files; the uses list may name entities without a
//!             file at any position; flags also say what stands above the header and how the file is encoded)
//!   requests  `kind@file,…` in execution order; kinds: `diag` (document diagnostics),
//!             `def` (goto definition at every probe position), `comp` (completion),
//!             `hier` (prepare + subtypes + supertypes for the class and every member; prepare also on the names that
//!             resolve to nothing: entities without a file, undeclared names),
//!             `hierx` (sub/supertypes for a member item whose name no class declares)
//!
//! output (one line): `r:<req>=completes|deadlocks|spins|panic …` in order; after a request
//! that did not complete: `after:diag@<i>=…` for every file (a second request on the same
//! manager) and `locks=free|held:<what>`; without one: `locks=…` and the final parent
//! pointer of every class table `ptr:<CLASS>=<PARENT CLASS|->`.
//!
//! A hung thread cannot be killed, so `lock` is a parent process that feeds cases to a
//! child (`lockchild`, the same executable) and replaces it after a hang, a crash (stack
//! overflow) or a deadline overrun.
use std::io::{BufRead, BufReader, Read, Write};
use std::process::{Child, Command, Stdio};
use std::sync::mpsc;
use std::time::{Duration, Instant};

use lsp_types::{SymbolKind, TypeHierarchyItem, Url};

use crate::manager::entity_tree_service::EntityTreeService;
use crate::manager::ProjectManager;
use crate::modes::wsutil::{self, HLogger, MFile, Workspace};
use crate::threadpool::ThreadPool;
use crate::utils::Position;

fn deadline() -> Duration {
    Duration::from_millis(std::env::var("VERIF_LOCK_DEADLINE_MS").ok().and_then(|s| s.parse().ok()).unwrap_or(1500))
}

#[derive(Clone, Copy, PartialEq, Debug)]
enum Outcome {
    Completes,
    Panic,
    Deadlocks,
    Spins,
}
impl Outcome {
    fn s(&self) -> &'static str {
        match self {
            Outcome::Completes => "completes",
            Outcome::Panic => "panic",
            Outcome::Deadlocks => "deadlocks",
            Outcome::Spins => "spins",
        }
    }
}

/// (state, utime+stime) of a thread of this process
fn thread_stat(tid: i64) -> Option<(char, u64)> {
    let s = std::fs::read_to_string(format!("/proc/self/task/{}/stat", tid)).ok()?;
    let rest = &s[s.rfind(')')? + 2..];
    let f: Vec<&str> = rest.split(' ').collect();
    let st = f.first()?.chars().next()?;
    let ut: u64 = f.get(11)?.parse().ok()?;
    let stt: u64 = f.get(12)?.parse().ok()?;
    Some((st, ut + stt))
}

fn gettid() -> i64 {
    // /proc/thread-self -> <pid>/task/<tid>
    std::fs::read_link("/proc/thread-self")
        .ok()
        .and_then(|p| p.file_name().map(|s| s.to_string_lossy().to_string()))
        .and_then(|s| s.parse().ok())
        .unwrap_or(-1)
}

/// runs `f` on its own thread (2 MiB stack, like the server's pool threads)
fn timed<F: FnOnce() + Send + 'static>(limit: Duration, f: F) -> Outcome {
    let (tx, rx) = mpsc::channel::<Result<(), ()>>();
    let (ttx, trx) = mpsc::channel::<i64>();
    let h = std::thread::Builder::new().stack_size(2 * 1024 * 1024).spawn(move || {
        let _ = ttx.send(gettid());
        let r = std::panic::catch_unwind(std::panic::AssertUnwindSafe(f));
        let _ = tx.send(r.map_err(|_| ()));
    });
    if h.is_err() {
        return Outcome::Panic;
    }
    let tid = trx.recv_timeout(Duration::from_secs(5)).unwrap_or(-1);
    match rx.recv_timeout(limit) {
        Ok(Ok(())) => Outcome::Completes,
        Ok(Err(())) => Outcome::Panic,
        Err(_) => {
            // not back in time: blocked on a lock (asleep, no CPU time) or busy?
            let a = thread_stat(tid);
            if let Ok(r) = rx.recv_timeout(Duration::from_millis(300)) {
                return if r.is_ok() { Outcome::Completes } else { Outcome::Panic };
            }
            let b = thread_stat(tid);
            match (a, b) {
                (Some((_, ca)), Some((sb, cb))) if cb == ca && sb == 'S' => Outcome::Deadlocks,
                _ => {
                    // still consuming CPU: give it a long grace period before calling it non-termination
                    match rx.recv_timeout(Duration::from_secs(8)) {
                        Ok(Ok(())) => Outcome::Completes,
                        Ok(Err(())) => Outcome::Panic,
                        Err(_) => {
                            let c = thread_stat(tid);
                            match (b, c) {
                                (Some((_, cb)), Some((sc, cc))) if cc == cb && sc == 'S' => Outcome::Deadlocks,
                                _ => Outcome::Spins,
                            }
                        }
                    }
                }
            }
        }
    }
}

fn item(name: &str, kind: SymbolKind, uri: &Url) -> TypeHierarchyItem {
    TypeHierarchyItem {
        name: name.to_string(),
        kind,
        tags: None,
        detail: None,
        uri: uri.clone(),
        range: lsp_types::Range::default(),
        selection_range: lsp_types::Range::default(),
        data: None,
    }
}

fn do_request(pm: &ProjectManager, kind: &str, f: &MFile, limit: Duration) -> Outcome {
    let mut pm = pm.clone();
    let f = f.clone();
    let kind = kind.to_string();
    timed(limit, move || match kind.as_str() {
        "diag" => {
            let _ = pm.generate_document_diagnostic_report(&f.uri);
        }
        "def" => {
            let mut pos: Vec<(usize, usize)> = Vec::new();
            pos.extend(f.class_pos.iter());
            pos.extend(f.parent_pos.iter());
            pos.extend(f.member_pos.iter().map(|m| m.1));
            pos.extend(f.probes.iter().filter(|p| !p.0.starts_with("complete")).map(|p| p.1));
            pos.push((0, 0));
            for (l, c) in pos {
                let _ = pm.generate_goto_definitions(&f.uri, &Position::new(l, c));
            }
        }
        "comp" => {
            let mut pos: Vec<(usize, usize)> = f.probes.iter().filter(|p| p.0.starts_with("complete")).map(|p| p.1).collect();
            pos.extend(f.probes.iter().filter(|p| p.0 == "local").map(|p| p.1));
            pos.push((1, 0));
            for (l, c) in pos {
                let _ = pm.generate_completion_proposals(&f.uri, &Position::new(l, c));
            }
        }
        "hier" => {
            let mut pos: Vec<(usize, usize)> = Vec::new();
            pos.extend(f.class_pos.iter());
            pos.extend(f.member_pos.iter().map(|m| m.1));
            // names that resolve to nothing — `prepare` looks them up in the class, its parents and every used entity:
            // entities that have no file (in the uses line and as the type of a local), undeclared names, and a local
            pos.extend(
                f.probes
                    .iter()
                    .filter(|p| p.0.starts_with("uses-ghost") || p.0.starts_with("ghost-type") || p.0 == "missing-name" || p.0 == "self-missing-member" || p.0 == "local")
                    .map(|p| p.1),
            );
            for (l, c) in pos {
                if let Ok(items) = pm.prepare_type_hierarchy(&f.uri, &Position::new(l, c)) {
                    for it in items {
                        let _ = pm.type_hierarchy_supertypes(&it);
                        let _ = pm.type_hierarchy_subtypes(&it);
                    }
                }
            }
            // the class item as a client would send it back, even if prepare found nothing
            let it = item(&f.spec.stem, SymbolKind::CLASS, &f.uri);
            let _ = pm.type_hierarchy_supertypes(&it);
            let _ = pm.type_hierarchy_subtypes(&it);
        }
        "hierx" => {
            for k in [SymbolKind::FUNCTION, SymbolKind::FIELD] {
                let it = item("NoClassDeclaresThisMember", k, &f.uri);
                let _ = pm.type_hierarchy_supertypes(&it);
                let _ = pm.type_hierarchy_subtypes(&it);
            }
        }
        _ => {}
    })
}

/// direct look at the locks the requests use: every published class table, every parsed
/// document, every entity node, the maps of the services
fn locks_state(pm: &ProjectManager, ws: &Workspace) -> String {
    let mut held: Vec<String> = Vec::new();
    for f in &ws.files {
        let name = f.spec.stem.to_uppercase();
        let map = pm.doc_service.get_doc_info_mapping();
        let info = match map.try_read() {
            Ok(m) => m.get(f.path.to_string_lossy().as_ref()).cloned(),
            Err(_) => {
                held.push("doc-map".to_string());
                None
            }
        };
        if let Some(info) = info {
            match info.try_read() {
                Ok(i) => {
                    if let Some(st) = i.get_symbol_table() {
                        if st.try_lock().is_err() {
                            held.push(format!("table({})", name));
                        }
                    }
                    if let Some(d) = i.get_document() {
                        if d.try_lock().is_err() {
                            held.push(format!("doc({})", name));
                        }
                    }
                }
                Err(_) => held.push(format!("doc-info({})", name)),
            }
        }
        let dbg = format!("{:?}", pm.entity_tree_service);
        if dbg.contains("class_module_map: RwLock { data: <locked>") {
            held.push("tree-map".to_string());
        } else if let Some(n) = pm.entity_tree_service.get_entity(&f.spec.stem) {
            if n.try_lock().is_err() {
                held.push(format!("node({})", name));
            }
        }
    }
    held.sort();
    held.dedup();
    if held.is_empty() {
        "locks=free".to_string()
    } else {
        format!("locks=held:{}", held.join("+"))
    }
}

/// parent pointer of every class's published table
fn pointers(pm: &ProjectManager, ws: &Workspace) -> Vec<String> {
    let mut out = Vec::new();
    for f in &ws.files {
        if f.class_pos.is_none() {
            continue;
        }
        let name = f.spec.stem.to_uppercase();
        let st = pm.doc_service.get_document_info(&f.uri).ok().and_then(|i| i.read().ok().and_then(|i| i.get_symbol_table()));
        let p = match st {
            None => "?".to_string(),
            Some(st) => match st.try_lock() {
                Err(_) => "locked".to_string(),
                Ok(t) => match t.get_parent_symbol_table() {
                    None => "-".to_string(),
                    Some(p) => match p.try_lock() {
                        Err(_) => "locked".to_string(),
                        Ok(p) => p.get_class().map(|c| c.to_uppercase()).unwrap_or_else(|| "~".to_string()),
                    },
                },
            },
        };
        out.push(format!("ptr:{}={}", name, p));
    }
    out
}

/// returns false if the process must not be used for another case
fn run_case(words: &[&str], out: &mut dyn Write) -> bool {
    if words.len() < 3 {
        let _ = writeln!(out, "bad-case");
        return true;
    }
    let files = match wsutil::parse_files(words[1]) {
        Some(f) => f,
        None => {
            let _ = writeln!(out, "bad-case");
            return true;
        }
    };
    let ws = wsutil::materialise(&files);
    let mut pm = wsutil::new_manager(&ws, HLogger::silent());
    pm.index_files();
    // the class tree, built the way main.rs does it (parallel builder on a pool)
    let tree = EntityTreeService::new(2, HLogger::silent());
    pm.entity_tree_service = tree.clone();
    {
        let pool = ThreadPool::new(2, HLogger::silent());
        tree.build_tree_parallel(&pm.doc_service, &pool);
        drop(pool);
    }
    let mut clean = true;
    for req in words[2].split(',') {
        let (kind, idx) = match req.split_once('@') {
            Some((k, i)) => (k, i.parse::<usize>().unwrap_or(usize::MAX)),
            None => continue,
        };
        let f = match ws.files.get(idx) {
            Some(f) => f,
            None => continue,
        };
        let _ = write!(out, "start:{} ", req);
        let _ = out.flush();
        let o = do_request(&pm, kind, f, deadline());
        let _ = write!(out, "r:{}={} ", req, o.s());
        let _ = out.flush();
        if o == Outcome::Deadlocks || o == Outcome::Spins {
            clean = false;
            break;
        }
    }
    if !clean {
        // a second request on the same manager, per file
        for (i, f) in ws.files.iter().enumerate() {
            // (a blocked thread stays blocked: a shorter deadline is enough here, /proc confirms)
            let o = do_request(&pm, "diag", f, deadline().min(Duration::from_millis(400)));
            let _ = write!(out, "after:diag@{}={} ", i, o.s());
            let _ = out.flush();
        }
        let _ = writeln!(out, "{}", locks_state(&pm, &ws));
        let _ = out.flush();
        // keep the workspace directory from leaking: the hung threads only block on memory
        drop(ws);
        return false;
    }
    let _ = write!(out, "{} ", locks_state(&pm, &ws));
    let _ = writeln!(out, "{}", pointers(&pm, &ws).join(" "));
    let _ = out.flush();
    true
}

pub fn run_child(_args: &[String], input: &mut dyn BufRead, out: &mut dyn Write) {
    let mut line = String::new();
    loop {
        line.clear();
        match input.read_line(&mut line) {
            Ok(0) | Err(_) => break,
            _ => {}
        }
        let words: Vec<&str> = line.split_whitespace().collect();
        if words.is_empty() {
            let _ = writeln!(out, "bad-case");
            let _ = out.flush();
            continue;
        }
        if !run_case(&words, out) {
            let _ = out.flush();
            std::process::exit(0);
        }
    }
}

struct Kid {
    child: Child,
    rx: mpsc::Receiver<Option<String>>,
}

fn spawn_kid() -> Kid {
    let exe = std::env::current_exe().unwrap();
    let mut child = Command::new(exe).arg("lockchild").stdin(Stdio::piped()).stdout(Stdio::piped()).stderr(Stdio::null()).spawn().unwrap();
    let stdout = child.stdout.take().unwrap();
    let (tx, rx) = mpsc::channel();
    std::thread::spawn(move || {
        // forward every chunk of output as it arrives, `None` at EOF
        let mut r = BufReader::new(stdout);
        let mut buf = [0u8; 4096];
        loop {
            match r.read(&mut buf) {
                Ok(0) | Err(_) => {
                    let _ = tx.send(None);
                    break;
                }
                Ok(n) => {
                    let _ = tx.send(Some(String::from_utf8_lossy(&buf[..n]).to_string()));
                }
            }
        }
    });
    Kid { child, rx }
}

fn strip_starts(s: &str) -> (String, Option<String>) {
    // drop the `start:` progress markers; remember the last one without a matching result
    let mut out = Vec::new();
    let mut inflight: Option<String> = None;
    for w in s.split_whitespace() {
        if let Some(r) = w.strip_prefix("start:") {
            inflight = Some(r.to_string());
        } else {
            if w.starts_with("r:") {
                inflight = None;
            }
            out.push(w.to_string());
        }
    }
    (out.join(" "), inflight)
}

pub fn run_parent(_args: &[String], input: &mut dyn BufRead, out: &mut dyn Write) {
    let mut kid: Option<Kid> = None;
    let overall = Duration::from_secs(60) + deadline() * 12;
    for line in input.lines() {
        let line = match line {
            Ok(l) => l,
            Err(_) => break,
        };
        if kid.is_none() {
            kid = Some(spawn_kid());
        }
        let k = kid.as_mut().unwrap();
        let ok = k.child.stdin.as_mut().map(|i| writeln!(i, "{}", line).and_then(|_| i.flush()).is_ok()).unwrap_or(false);
        let mut got = String::new();
        let mut eof = !ok;
        let t0 = Instant::now();
        let mut timed_out = false;
        while !eof && !got.ends_with('\n') {
            let left = overall.checked_sub(t0.elapsed()).unwrap_or(Duration::ZERO);
            match k.rx.recv_timeout(left) {
                Ok(Some(s)) => got.push_str(&s),
                Ok(None) => eof = true,
                Err(_) => {
                    timed_out = true;
                    break;
                }
            }
        }
        let complete = got.ends_with('\n');
        let (text, inflight) = strip_starts(got.trim_end());
        let mut res = text;
        if !complete {
            let what = if timed_out {
                "child-timeout".to_string()
            } else {
                // the child died: how?
                let st = k.child.wait().ok();
                use std::os::unix::process::ExitStatusExt;
                match st.and_then(|s| s.signal()) {
                    Some(sig) => format!("crash-signal{}", sig),
                    None => "crash-exit".to_string(),
                }
            };
            if let Some(r) = inflight {
                res = format!("{} r:{}={}", res, r, what).trim().to_string();
            } else {
                res = format!("{} {}", res, what).trim().to_string();
            }
        }
        // a child that reported a hang has exited (or must be replaced)
        let poisoned = !complete || res.contains("=deadlocks") || res.contains("=spins");
        if poisoned {
            let pid = k.child.id();
            let _ = k.child.kill();
            let _ = k.child.wait();
            kid = None;
            // scratch workspaces the child could not remove itself
            if let Ok(rd) = std::fs::read_dir(wsutil::cache_dir().join("ws")) {
                for e in rd.flatten() {
                    if e.file_name().to_string_lossy().starts_with(&format!("w{}-", pid)) {
                        let _ = std::fs::remove_dir_all(e.path());
                    }
                }
            }
        }
        let _ = writeln!(out, "{}", res);
    }
    if let Some(mut k) = kid {
        drop(k.child.stdin.take());
        let _ = k.child.wait();
    }
    let _ = out.flush();
}
