// @mode sym line
//! mode `sym`: operation sequences on the real `SymbolTable` chain (C18)
use std::sync::{Arc, Mutex};

use crate::analyzers_v2::symbol_table::{ISymbolTable, SymbolInfo, SymbolTable, SymbolType};
use crate::wire::opt_str;

fn sym_str(s: &Arc<SymbolInfo>) -> String {
    format!("{}#{}", s.id, s.type_str.clone().unwrap_or_default())
}
fn hit_str(h: &(String, Arc<SymbolInfo>)) -> String {
    format!("{}/{}", h.0, sym_str(&h.1))
}
fn list_str<T>(l: &[T], f: impl Fn(&T) -> String) -> String {
    l.iter().map(|x| f(x)).collect::<Vec<_>>().join(",")
}

fn battery(names: &[&str], chain: &[Arc<Mutex<SymbolTable>>], out: &mut Vec<String>) {
    for (i, st) in chain.iter().enumerate() {
        for nm in names {
            let g = st.lock().unwrap().get_symbol_info(nm);
            out.push(format!("g{}:{}={}", i, nm, opt_str(g, |s| sym_str(&s))));
            let w = st.lock().unwrap().search_symbol_info_wparent(nm);
            out.push(format!("w{}:{}={}", i, nm, opt_str(w, |h| hit_str(&h))));
            let s = st.lock().unwrap().search_symbol_info(nm);
            out.push(format!("s{}:{}={}", i, nm, opt_str(s, |h| hit_str(&h))));
            let a = st.lock().unwrap().search_all_symbol_info(nm);
            out.push(format!("a{}:{}={}", i, nm, list_str(&a, hit_str)));
        }
        let t: Vec<Arc<SymbolInfo>> = st.lock().unwrap().iter_symbols().cloned().collect();
        out.push(format!("t{}={}", i, list_str(&t, sym_str)));
        let c = st.lock().unwrap().collect_unique_symbols_w_parents();
        out.push(format!("c{}={}", i, list_str(&c, sym_str)));
    }
}

/// `sym <nscopes> <name,…> <op>…`
pub fn run(words: &[&str]) -> String {
    if words.len() < 3 {
        return "bad-op".into();
    }
    let n: usize = match words[1].parse() {
        Ok(n) => n,
        Err(_) => return "bad-op".into(),
    };
    let names: Vec<&str> = words[2].split(',').collect();
    // scope i's parent is scope i+1
    let mut chain: Vec<Arc<Mutex<SymbolTable>>> = Vec::new();
    for i in 0..n {
        let mut st = SymbolTable::new();
        st.for_class_or_module = Some(format!("K{}", i));
        chain.push(Arc::new(Mutex::new(st)));
    }
    for i in 0..n.saturating_sub(1) {
        let parent: Arc<Mutex<dyn ISymbolTable>> = chain[i + 1].clone();
        chain[i].lock().unwrap().set_parent_symbol_table(parent);
    }
    let mut out = Vec::new();
    let mut tag = 0usize;
    for op in &words[3..] {
        if *op == "Q" {
            battery(&names, &chain, &mut out);
        } else if let Some(rest) = op.strip_prefix('i') {
            let parts: Vec<&str> = rest.split(':').collect();
            if parts.len() != 2 {
                out.push("bad-op".into());
                continue;
            }
            let sc: usize = match parts[0].parse() {
                Ok(x) => x,
                Err(_) => {
                    out.push("bad-op".into());
                    continue;
                }
            };
            if sc < chain.len() {
                let mut info = SymbolInfo::new(parts[1].to_string(), SymbolType::Variable);
                info.type_str = Some(tag.to_string());
                chain[sc].lock().unwrap().insert_symbol_info(parts[1], info);
            }
            tag += 1;
        } else {
            out.push("bad-op".into());
        }
    }
    out.join(" ")
}
