//! helpers shared by the `tree` and `lock` modes: a silent logger that can observe the
//! messages of the real code, abstract workspaces materialised as `.god` files under
//! `<verif>/.cache/ws/`, construction of the real services on top of them.
use std::path::PathBuf;
use std::sync::atomic::{AtomicUsize, Ordering};
use std::sync::Arc;

use lsp_types::Url;

use crate::manager::ProjectManager;
use crate::utils::{ILoggerV2, LogLevel, LogType};

/// receives every message logged through a `HLogger`, on the logging thread
pub trait LogSink: Send + Sync {
    fn message(&self, msg: &str);
}

/// logger handed to the real services: prints nothing, forwards to an optional sink
pub struct HLogger {
    pub sink: Option<Arc<dyn LogSink>>,
}
impl HLogger {
    pub fn silent() -> Box<dyn ILoggerV2> {
        Box::new(HLogger { sink: None })
    }
    pub fn with_sink(sink: Arc<dyn LogSink>) -> Box<dyn ILoggerV2> {
        Box::new(HLogger { sink: Some(sink) })
    }
}
impl std::fmt::Debug for HLogger {
    fn fmt(&self, f: &mut std::fmt::Formatter<'_>) -> std::fmt::Result {
        write!(f, "HLogger")
    }
}
impl ILoggerV2 for HLogger {
    fn log_error(&self, msg: &str) {
        self.log(LogType::Error, LogLevel::General, msg)
    }
    fn log_warning(&self, msg: &str) {
        self.log(LogType::Warning, LogLevel::General, msg)
    }
    fn log_info(&self, msg: &str) {
        self.log(LogType::Info, LogLevel::General, msg)
    }
    fn log(&self, _log_type: LogType, _level: LogLevel, msg: &str) {
        if let Some(s) = &self.sink {
            s.message(msg)
        }
    }
    fn clone_box(&self) -> Box<dyn ILoggerV2> {
        Box::new(HLogger { sink: self.sink.clone() })
    }
    fn clone_box_with_appended_prefix(&self, _prefix: &str) -> Box<dyn ILoggerV2> {
        self.clone_box()
    }
    fn append_prefix(&mut self, _prefix: &str) {}
}

/// one file of an abstract workspace.  wire form `stem:parent:members:uses:flags`
/// (`-` = none, lists separated by `+`); the file is `<stem>.god`; flag `n` = the file
/// has no class / module header (its uses list, members and the other flags still apply; the parent is ignored), flag `u` = it references unknown types, flag `x` = a method
/// body that goes through the uses lists and the parent chain, flag `h` = a method `UseInh<stem>` that
/// mentions `self.<M>` for every method name of the workspace (probes `use:<M>`: hierarchy requests from a USE site).
///
/// What stands ABOVE the header and how the file is encoded (none of these changes what the file declares; without
/// them the text is byte for byte what it was before they existed):
/// flag `m` = the file starts with a UTF-8 byte order mark (the server reads it as the character U+FEFF in line 0, so
/// every position of line 0 is one column further right), flag `b` = two blank lines at the top, flag `c` = a comment
/// line (file banner) above the header, flag `k` = a constant above the header (mode `tree` only: the lock model has
/// no declaration before the header), flag `a` = an annotation line `[Annotated]` directly above the header (`k`, `a`
/// are ignored on a file without header), flag `l` = a comment line with two Latin-1 letters directly below the header,
/// the whole file written as Latin-1 (bytes 0xE9 / 0xEF: NOT valid UTF-8), flag `r` = CRLF line ends.
///
/// Where the file is: flag `s` = in the directory `pkg/sub<stem>/` below the workspace root, flag `g` = the extension is
/// written `.GOD` (the Gold IDE lives on a case-insensitive file system).
/// flag `e` (together with `n`) = an EMPTY file: nothing but what `m b c l` put there (zero bytes, a byte order mark only,
/// blank lines only, comments only) — no constant, no uses list, no members.  flag `d` = the header is `module <stem>`
/// instead of `class <stem> [(parent)]` (a module has no parent: it is not written; mode `lock` only).
///
/// A uses list may name an entity that has no file in the workspace (a "ghost") at any position.  With flag `x` the
/// names of the uses line and the type names of the `var o<i> : <used>` locals are probes (`uses-name<i>` / `used-type<i>`,
/// for a ghost `uses-ghost<i>` / `ghost-type<i>`), and for every ghost the body ends with a completion `o<i>.` (`complete-ghost<i>`).
#[derive(Debug, Clone)]
pub struct FileSpec {
    pub stem: String,
    pub parent: Option<String>,
    pub members: Vec<String>,
    pub uses: Vec<String>,
    pub flags: String,
}

fn list(s: &str) -> Vec<String> {
    if s == "-" || s.is_empty() {
        Vec::new()
    } else {
        s.split('+').map(|x| x.to_string()).collect()
    }
}

pub fn parse_files(spec: &str) -> Option<Vec<FileSpec>> {
    let mut out = Vec::new();
    if spec == "-" {
        return Some(out);
    }
    for f in spec.split(',') {
        let p: Vec<&str> = f.split(':').collect();
        if p.len() < 2 || p[0].is_empty() {
            return None;
        }
        out.push(FileSpec {
            stem: p[0].to_string(),
            parent: if p[1] == "-" { None } else { Some(p[1].to_string()) },
            members: list(p.get(2).copied().unwrap_or("-")),
            uses: list(p.get(3).copied().unwrap_or("-")),
            flags: p.get(4).copied().unwrap_or("").replace('-', ""),
        });
    }
    Some(out)
}

#[derive(Debug, Clone)]
pub struct MFile {
    pub spec: FileSpec,
    pub path: PathBuf,
    pub uri: Url,
    /// position inside the class name of the `class` line
    pub class_pos: Option<(usize, usize)>,
    /// position inside the parent name of the `class` line
    pub parent_pos: Option<(usize, usize)>,
    /// (member as spelled, position inside its declared name)
    pub member_pos: Vec<(String, (usize, usize))>,
    /// further interesting positions: (label, position)
    pub probes: Vec<(String, (usize, usize))>,
}

pub struct Workspace {
    pub root: PathBuf,
    pub files: Vec<MFile>,
}
impl Drop for Workspace {
    fn drop(&mut self) {
        // VERIF_KEEP_WS=1: leave the materialised files under .cache/ws/ (to look at the bytes of a replayed case)
        if std::env::var("VERIF_KEEP_WS").is_ok() {
            return;
        }
        let _ = std::fs::remove_dir_all(&self.root);
    }
}

static COUNTER: AtomicUsize = AtomicUsize::new(0);

pub fn cache_dir() -> PathBuf {
    if let Ok(d) = std::env::var("VERIF_CACHE") {
        return PathBuf::from(d);
    }
    // <verif>/.cache/harness-target/release/<exe>
    let exe = std::env::current_exe().unwrap();
    exe.ancestors().nth(3).map(|p| p.to_path_buf()).unwrap_or_else(|| PathBuf::from(".cache"))
}

struct Text {
    lines: Vec<String>,
}
impl Text {
    fn push(&mut self, s: String) -> usize {
        self.lines.push(s);
        self.lines.len() - 1
    }
}

/// member kind by first letter: `f…` a field, everything else a procedure
pub fn is_field(m: &str) -> bool {
    m.starts_with('f') || m.starts_with('F')
}

fn render(spec: &FileSpec, all: &[FileSpec]) -> (Vec<u8>, Option<(usize, usize)>, Option<(usize, usize)>, Vec<(String, (usize, usize))>, Vec<(String, (usize, usize))>) {
    let mut t = Text { lines: Vec::new() };
    let mut class_pos = None;
    let mut parent_pos = None;
    let mut member_pos = Vec::new();
    let mut probes = Vec::new();
    let headerless = spec.flags.contains('n');
    let has = |c: char| spec.flags.contains(c);
    let is_ghost = |u: &str| !all.iter().any(|f| f.stem.to_uppercase() == u.to_uppercase());
    if has('b') {
        t.push(String::new());
        t.push(String::new());
    }
    if has('c') {
        t.push(format!("; {}.god -- file banner, the header follows", spec.stem));
    }
    if has('k') && !headerless {
        t.push(format!("const cAbove{} = 'k'", spec.stem));
    }
    if has('a') && !headerless {
        t.push("[Annotated]".to_string());
    }
    if has('e') {
        if has('l') {
            t.push("; caf\u{e9} na\u{ef}ve".to_string());
        }
        let bytes = if t.lines.is_empty() { encode_text("", &spec.flags) } else { encode(&t, &spec.flags) };
        return (bytes, None, None, member_pos, probes);
    }
    if headerless {
        // a file without a class / module header: a comment and a stray constant ...
        t.push("; no class in this file".to_string());
        t.push("const cLonely = 'x'".to_string());
        if spec.uses.is_empty() && spec.members.is_empty() && !spec.flags.contains('u') && !spec.flags.contains('x') && !spec.flags.contains('h') {
            if has('l') {
                t.push("; caf\u{e9} na\u{ef}ve".to_string());
            }
            return (encode(&t, &spec.flags), None, None, member_pos, probes);
        }
        // ... followed by everything a class file has below its header (uses list, types,
        // fields incl. unknown types, methods, bodies); a parent is ignored: there is no header to name it
    }
    match &spec.parent {
        _ if headerless => {}
        _ if has('d') => {
            let l = t.push(format!("module {}", spec.stem));
            class_pos = Some((l, 7 + 1.min(spec.stem.len() - 1)));
        }
        Some(p) => {
            let l = t.push(format!("class {} ({})", spec.stem, p));
            class_pos = Some((l, 6 + 1.min(spec.stem.len() - 1)));
            parent_pos = Some((l, 6 + spec.stem.len() + 2 + 1.min(p.len() - 1)));
        }
        None => {
            let l = t.push(format!("class {}", spec.stem));
            class_pos = Some((l, 6 + 1.min(spec.stem.len() - 1)));
        }
    }
    if has('l') {
        t.push("; caf\u{e9} na\u{ef}ve".to_string());
    }
    t.push(String::new());
    if !spec.uses.is_empty() {
        let l = t.push(format!("uses {}", spec.uses.join(", ")));
        if has('x') {
            let mut col = 5;
            for (i, u) in spec.uses.iter().enumerate() {
                let label = if is_ghost(u) { "uses-ghost" } else { "uses-name" };
                probes.push((format!("{}{}", label, i), (l, col + 1.min(u.len() - 1))));
                col += u.len() + 2;
            }
        }
        t.push(String::new());
    }
    // a type other entities can only reach through their uses lists
    if spec.flags.contains('x') {
        t.push(format!("type t{}Rec: record", spec.stem));
        t.push("   recField: Int4".to_string());
        t.push("endrecord".to_string());
        t.push(String::new());
    }
    for m in spec.members.iter().filter(|m| is_field(m)) {
        let l = t.push(format!("{} : Int4", m));
        member_pos.push((m.clone(), (l, 0)));
    }
    if spec.flags.contains('u') {
        let l = t.push("fUnknown : aNoSuchTypeAnywhere".to_string());
        probes.push(("unknown-type".to_string(), (l, 12)));
        t.push("fUnknownRef : refto aNoSuchClassAnywhere".to_string());
    }
    t.push(String::new());
    for m in spec.members.iter().filter(|m| !is_field(m)) {
        let l = t.push(format!("proc {}", m));
        member_pos.push((m.clone(), (l, 5)));
        t.push("   ; body".to_string());
        t.push("endproc".to_string());
        t.push(String::new());
    }
    if spec.flags.contains('h') {
        let mut names: Vec<String> = Vec::new();
        for f in all {
            for m in f.members.iter().filter(|m| !is_field(m)) {
                if !names.iter().any(|n| n.to_uppercase() == m.to_uppercase()) {
                    names.push(m.clone());
                }
            }
        }
        if !names.is_empty() {
            t.push(format!("proc UseInh{}", spec.stem));
            for m in names {
                let l = t.push(format!("   self.{}", m));
                probes.push((format!("use:{}", m), (l, 8 + 1.min(m.len() - 1))));
            }
            t.push("endproc".to_string());
            t.push(String::new());
        }
    }
    if spec.flags.contains('x') {
        // a method that looks names up through self, the parent chain and the uses lists
        t.push(format!("proc Work{}", spec.stem));
        t.push("   var own : Int4".to_string());
        for (i, u) in spec.uses.iter().enumerate() {
            // a type declared in a used entity, and an instance of the used entity
            let known = all.iter().any(|f| f.stem.to_uppercase() == u.to_uppercase() && f.flags.contains('x'));
            if known {
                let canonical = all.iter().find(|f| f.stem.to_uppercase() == u.to_uppercase()).unwrap();
                t.push(format!("   var r{} : t{}Rec", i, canonical.stem));
            }
            let l = t.push(format!("   var o{} : {}", i, u));
            let label = if is_ghost(u) { "ghost-type" } else { "used-type" };
            probes.push((format!("{}{}", label, i), (l, format!("   var o{} : ", i).len() + 1.min(u.len() - 1))));
        }
        if spec.flags.contains('u') {
            t.push("   var nowhere : aNoSuchTypeAnywhere".to_string());
        }
        let l = t.push("   WriteLn(self.NotDeclaredAnywhere)".to_string());
        probes.push(("self-missing-member".to_string(), (l, 17)));
        let l = t.push("   WriteLn(NotDeclaredAnywhereEither)".to_string());
        probes.push(("missing-name".to_string(), (l, 12)));
        let l = t.push("   WriteLn(own)".to_string());
        probes.push(("local".to_string(), (l, 12)));
        for (i, _) in spec.uses.iter().enumerate() {
            let l = t.push(format!("   WriteLn(o{}.NotDeclaredAnywhere)", i));
            probes.push((format!("used-missing-member{}", i), (l, 15)));
        }
        for (i, u) in spec.uses.iter().enumerate() {
            if is_ghost(u) {
                let l = t.push(format!("   o{}.", i));
                probes.push((format!("complete-ghost{}", i), (l, format!("   o{}.", i).len())));
            }
        }
        let l = t.push("   self.".to_string());
        probes.push(("complete-self".to_string(), (l, 8)));
        t.push("endproc".to_string());
        t.push(String::new());
    }
    if has('m') {
        // the byte order mark is a character of line 0 for the server
        let shift = |p: &mut (usize, usize)| {
            if p.0 == 0 {
                p.1 += 1
            }
        };
        class_pos.iter_mut().for_each(shift);
        parent_pos.iter_mut().for_each(shift);
        member_pos.iter_mut().for_each(|m| shift(&mut m.1));
        probes.iter_mut().for_each(|m| shift(&mut m.1));
    }
    (encode(&t, &spec.flags), class_pos, parent_pos, member_pos, probes)
}

/// the bytes of the file: `\n` or (flag `r`) `\r\n` line ends, UTF-8 or (flag `l`) Latin-1, (flag `m`) a byte order mark first
fn encode(t: &Text, flags: &str) -> Vec<u8> {
    let nl = if flags.contains('r') { "\r\n" } else { "\n" };
    encode_text(&(t.lines.join(nl) + nl), flags)
}

fn encode_text(text: &str, flags: &str) -> Vec<u8> {
    let mut out: Vec<u8> = Vec::new();
    if flags.contains('m') {
        out.extend_from_slice(&[0xEF, 0xBB, 0xBF]);
    }
    if flags.contains('l') {
        out.extend(text.chars().map(|c| if (c as u32) < 256 { c as u32 as u8 } else { b'?' }));
    } else {
        out.extend_from_slice(text.as_bytes());
    }
    out
}

/// the text of a file as the server reads it: bytes, lossy conversion (the harness must not be stricter than the server)
pub fn read_lossy(path: &std::path::Path) -> String {
    std::fs::read(path).map(|b| String::from_utf8_lossy(&b).to_string()).unwrap_or_default()
}

/// writes the workspace below `<verif>/.cache/ws/` (removed again when dropped)
pub fn materialise(files: &[FileSpec]) -> Workspace {
    let n = COUNTER.fetch_add(1, Ordering::SeqCst);
    let root = cache_dir().join("ws").join(format!("w{}-{}", std::process::id(), n));
    let _ = std::fs::remove_dir_all(&root);
    std::fs::create_dir_all(&root).unwrap();
    let root = std::fs::canonicalize(&root).unwrap();
    let mut out = Vec::new();
    for f in files {
        let (text, class_pos, parent_pos, member_pos, probes) = render(f, files);
        // flag `s`: the file lies two directories below the root; flag `g`: its extension is `.GOD`
        let dir = if f.flags.contains('s') { root.join("pkg").join(format!("sub{}", f.stem)) } else { root.clone() };
        std::fs::create_dir_all(&dir).unwrap();
        let path = dir.join(format!("{}.{}", f.stem, if f.flags.contains('g') { "GOD" } else { "god" }));
        std::fs::write(&path, text).unwrap();
        let uri = Url::from_file_path(&path).unwrap();
        out.push(MFile { spec: f.clone(), path, uri, class_pos, parent_pos, member_pos, probes });
    }
    Workspace { root, files: out }
}

pub fn new_manager(ws: &Workspace, logger: Box<dyn ILoggerV2>) -> ProjectManager {
    let root_uri = Url::from_file_path(&ws.root).unwrap();
    ProjectManager::new(Some(root_uri), logger).unwrap()
}

/// the order in which `build_tree_parallel` will enumerate the files (iteration order of
/// the document map), as indices into `ws.files`
pub fn enumeration_order(pm: &ProjectManager, ws: &Workspace) -> Vec<usize> {
    let map = pm.doc_service.get_doc_info_mapping();
    let map = map.read().unwrap();
    map.keys()
        .filter_map(|k| ws.files.iter().position(|f| f.path.to_string_lossy() == k.as_str()))
        .collect()
}

pub fn upper_sorted(mut v: Vec<String>) -> String {
    for s in v.iter_mut() {
        *s = s.to_uppercase();
    }
    v.sort();
    if v.is_empty() {
        "-".to_string()
    } else {
        v.join(",")
    }
}
