// @mode encase line
//! mode `encase`: `encase <Kind:value:sl:sc:el:ec>…` → `parse_gold` on exactly these tokens, the annotated
//! tree as the services build it (`AstAnnotator::generate_annotated_tree`), and for the START position of
//! every identifier token the node the REAL position lookup of the services returns
//! (`manager::utils::search_encasing_node`, used by definition / completion / hierarchy requests):
//! output one word per identifier token `l:c=<kind>|<escaped ident>|<range>`.
use std::sync::{Arc, Mutex};

use crate::analyzers::AnalyzerDiagnostic;
use crate::analyzers_v2::ast_annotator::AstAnnotator;
use crate::dump::{parse_tok, rng_str};
use crate::lexer::tokens::TokenType;
use crate::manager::document_service::DocumentService;
use crate::manager::semantic_analysis_service::SemanticAnalysisService;
use crate::manager::utils::search_encasing_node;
use crate::parser::ast::IAstNode;
use crate::parser::parse_gold;
use crate::utils::{GenericDiagnosticCollector, ILoggerV2, LogLevel, LogType, Position};
use crate::wire::escape;

#[derive(Debug, Clone)]
struct NullLogger;
impl ILoggerV2 for NullLogger {
    fn log_error(&self, _msg: &str) {}
    fn log_warning(&self, _msg: &str) {}
    fn log_info(&self, _msg: &str) {}
    fn log(&self, _t: LogType, _l: LogLevel, _msg: &str) {}
    fn clone_box(&self) -> Box<dyn ILoggerV2> {
        Box::new(NullLogger)
    }
    fn clone_box_with_appended_prefix(&self, _prefix: &str) -> Box<dyn ILoggerV2> {
        Box::new(NullLogger)
    }
    fn append_prefix(&mut self, _prefix: &str) {}
}

pub fn run(words: &[&str]) -> String {
    let mut toks = Vec::new();
    for (i, w) in words[1..].iter().enumerate() {
        match parse_tok(w, i) {
            Some(t) => toks.push(t),
            None => return "bad-op".into(),
        }
    }
    let ((_rest, root), _pdiags) = parse_gold(&toks);
    let root: Arc<dyn IAstNode> = root;
    let doc_service = DocumentService::new(None, Box::new(NullLogger)).unwrap();
    let sem = SemanticAnalysisService::new(
        doc_service,
        Box::new(NullLogger),
        Arc::new(Mutex::new(GenericDiagnosticCollector::<AnalyzerDiagnostic>::new())),
    );
    let annotator = AstAnnotator::new(
        sem,
        Arc::new(Mutex::new(GenericDiagnosticCollector::<AnalyzerDiagnostic>::new())),
        Box::new(NullLogger),
        false,
    );
    let annotated = annotator.generate_annotated_tree(&root);
    let logger: Box<dyn ILoggerV2> = Box::new(NullLogger);
    let mut out = Vec::new();
    for t in &toks {
        if t.token_type != TokenType::Identifier {
            continue;
        }
        let pos = Position::new(t.range.start.line, t.range.start.character);
        let n = search_encasing_node(&annotated, &pos, &logger);
        let g = n.read().unwrap();
        out.push(format!(
            "{}:{}={}|{}|{}",
            pos.line,
            pos.character,
            g.data.get_type(),
            escape(&g.data.get_identifier()),
            rng_str(&g.data.get_range())
        ));
    }
    out.join(" ")
}
