// @mode parse line
// @mode toks line run_toks
// @mode parse2mb line run_2mb
//! mode `parse`: `parse <Kind:value:sl:sc:el:ec>…` → real `parse_gold` on exactly these tokens.
//! mode `toks`: `toks <escaped text>` → token list of the real lexer in the same wire form.
use crate::analyzers_v2::doc_symbol_generator::DocumentSymbolGeneratorFromAst;
use crate::dump::{diags_str, dump_tree, outline_str, parse_tok, tok_str, walk_both};
use crate::lexer::GoldLexer;
use crate::parser::parse_gold;
use crate::wire::unescape;

pub fn run(words: &[&str]) -> String {
    let mut toks = Vec::new();
    for (i, w) in words[1..].iter().enumerate() {
        match parse_tok(w, i) {
            Some(t) => toks.push(t),
            None => return "bad-op".into(),
        }
    }
    let ((rest, root), diags) = parse_gold(&toks);
    let mut t = String::new();
    dump_tree(root.as_ast_node(), &mut t);
    let (nodes, views) = walk_both(root.as_ast_node());
    let outline = DocumentSymbolGeneratorFromAst::new().generate_symbols(root.as_ast_node());
    format!(
        "T={} D={} R={} V={} O={}",
        t,
        diags_str(&diags),
        rest.len(),
        if views { "ok" } else { "mismatch" },
        outline_str(&outline)
    )
}

pub fn run_toks(words: &[&str]) -> String {
    let text = if words.len() > 1 { unescape(words[1]) } else { String::new() };
    let mut lexer = GoldLexer::new();
    let (tokens, _errors) = lexer.lex(&text);
    let mut out = vec!["parse".to_string()];
    out.extend(tokens.iter().map(tok_str));
    out.join(" ")
}

/// same as `parse`, but on a thread with a 2 MB stack (the stack the property names)
pub fn run_2mb(words: &[&str]) -> String {
    let owned: Vec<String> = words.iter().map(|w| w.to_string()).collect();
    let h = std::thread::Builder::new()
        .stack_size(2 * 1024 * 1024)
        .spawn(move || {
            let refs: Vec<&str> = owned.iter().map(|s| s.as_str()).collect();
            run(&refs)
        })
        .unwrap();
    match h.join() {
        Ok(s) => s,
        Err(_) => "panic".to_string(),
    }
}
