use std::io::{BufRead, Write};
pub mod sym;

pub type LineMode = fn(&[&str]) -> String;
pub type BatchMode = fn(&[String], &mut dyn BufRead, &mut dyn Write);

/// modes that map one case line to one output line
pub fn lookup(mode: &str) -> Option<LineMode> {
    match mode {
        "sym" => Some(sym::run),
        _ => None,
    }
}

/// modes that own the whole stream (enumerators, process drivers, …)
pub fn lookup_batch(mode: &str) -> Option<BatchMode> {
    match mode {
        _ => None,
    }
}
