// @mode tree line
//! mode `tree` (C13): builds the entity tree of an abstract workspace with the real
//! `EntityTreeService::build_tree_parallel` on a real `ThreadPool`, under a forced or a
//! free schedule, then asks the real `TypeHierarchyService` (through `ProjectManager`)
//! for the supertypes / subtypes of every class and every declared member.
//!
//! `tree <files> <chunk> <workers> <sched> <order>`
//!   files   `stem:parent:members,…`           (see wsutil::parse_files)
//!   chunk   chunk size handed to `EntityTreeService::new`
//!   workers pool size
//!   sched   `free`  — all workers run, the yield point only calls `yield_now`
//!           `c<k.k.…>` — serialised execution: exactly one worker runs at a time and
//!             hands control back at the yield point (between a missed lookup and the
//!             insert) and at the end of its chunk; every time all workers are parked
//!             the next number `k` picks (mod the number of candidates) which chunk
//!             advances: the started-and-unfinished chunks in index order, then the next
//!             queued chunk if a worker is free.  Exhausted list = always candidate 0.
//!   order   `-` or the wanted enumeration order of the files (`2.0.1`); the harness
//!           re-creates the document index until the map iterates in that order (bounded
//!           number of tries) and always reports the order that was really used.
//!
//! output: `order=<i.j.…> goc=<split|atomic|na> yields=<n> | <answers>` where `goc` says
//! whether the map was found write-locked at the yield point.
use std::collections::HashMap;
use std::sync::{Arc, Condvar, Mutex};
use std::thread::ThreadId;
use std::time::Duration;

use lsp_types::{SymbolKind, TypeHierarchyItem};

use crate::manager::entity_tree_service::EntityTreeService;
use crate::manager::ProjectManager;
use crate::modes::wsutil::{self, HLogger, LogSink, Workspace};
use crate::threadpool::ThreadPool;
use crate::utils::Position;
use crate::verif_hooks::{self, TreeYieldController};

const STUCK: Duration = Duration::from_secs(20);

#[derive(Clone, Copy, PartialEq, Debug)]
enum W {
    Free,
    Running,
    AtYield,
}

struct St {
    token_mode: bool,
    workers: HashMap<ThreadId, usize>,
    state: Vec<W>,
    grant: Vec<bool>,
    chunk_of: Vec<Option<usize>>,
    next_chunk: usize,
    finished: usize,
    yields: usize,
    locked_at_yield: usize,
    unlocked_at_yield: usize,
    expected_workers: usize,
}

struct Ctl {
    st: Mutex<St>,
    cv: Condvar,
    tree: Mutex<Option<EntityTreeService>>,
}

impl Ctl {
    fn me(&self, st: &St) -> Option<usize> {
        st.workers.get(&std::thread::current().id()).copied()
    }

    /// parking job: registers the calling pool thread as a worker, returns when all are in
    fn register(&self) {
        let mut st = self.st.lock().unwrap();
        let idx = st.workers.len();
        st.workers.insert(std::thread::current().id(), idx);
        st.state[idx] = W::Running;
        self.cv.notify_all();
        let n = st.expected_workers;
        let _ = self.cv.wait_timeout_while(st, STUCK, |s| s.workers.len() < n).unwrap();
    }

    fn park(&self, mut st: std::sync::MutexGuard<'_, St>, i: usize, as_state: W) {
        st.state[i] = as_state;
        self.cv.notify_all();
        let (mut st, _) = self.cv.wait_timeout_while(st, STUCK, |s| s.token_mode && !s.grant[i]).unwrap();
        st.grant[i] = false;
        st.state[i] = W::Running;
    }

    fn map_is_write_locked(&self) -> Option<bool> {
        let tree = self.tree.lock().unwrap();
        let tree = tree.as_ref()?;
        // `RwLock`'s Debug uses try_read and prints `<locked>` instead of blocking
        let s = format!("{:?}", tree);
        let at = s.find("class_module_map")?;
        let rest = &s[at..];
        let head = &rest[..rest.len().min(60)];
        Some(head.contains("<locked>"))
    }
}

impl TreeYieldController for Ctl {
    fn at(&self, _name: &str) {
        let st = self.st.lock().unwrap();
        if !st.token_mode {
            drop(st);
            let mut st = self.st.lock().unwrap();
            st.yields += 1;
            drop(st);
            std::thread::yield_now();
            return;
        }
        let i = match self.me(&st) {
            Some(i) => i,
            None => return,
        };
        drop(st);
        let locked = self.map_is_write_locked();
        let mut st = self.st.lock().unwrap();
        st.yields += 1;
        match locked {
            Some(true) => {
                // lookup and insert are one critical section: nobody can get in between,
                // handing control to another worker here would only block it on the lock
                st.locked_at_yield += 1;
            }
            _ => {
                st.unlocked_at_yield += 1;
                self.park(st, i, W::AtYield);
            }
        }
    }
}

/// sink of the pool's logger: the worker loop logs on its own thread before and after a job
struct PoolSink(Arc<Ctl>);
impl LogSink for PoolSink {
    fn message(&self, msg: &str) {
        if !msg.starts_with("Worker ") {
            return;
        }
        let ctl = &self.0;
        let mut st = ctl.st.lock().unwrap();
        if !st.token_mode {
            return;
        }
        let i = match ctl.me(&st) {
            Some(i) => i,
            None => return,
        };
        if msg.contains("got a job") {
            let c = st.next_chunk;
            st.chunk_of[i] = Some(c);
            st.next_chunk += 1;
        } else if msg.contains("finished job") {
            if st.chunk_of[i].take().is_some() {
                st.finished += 1;
            }
            ctl.park(st, i, W::Free);
        }
    }
}

fn parse_nums(s: &str) -> Vec<usize> {
    s.split('.').filter(|x| !x.is_empty()).filter_map(|x| x.parse().ok()).collect()
}

struct Built {
    pm: ProjectManager,
    order: Vec<usize>,
    goc: &'static str,
    yields: usize,
    stuck: bool,
}

fn build(ws: &Workspace, chunk: usize, workers: usize, sched: &str, want: &Option<Vec<usize>>) -> Built {
    // document index in the wanted enumeration order (rejection sampling over the map's hasher)
    let mut pm = wsutil::new_manager(ws, HLogger::silent());
    pm.index_files();
    let mut order = wsutil::enumeration_order(&pm, ws);
    if let Some(w) = want {
        let mut tries = 0;
        // (a wanted order over another number of files than were indexed can never show up)
        while &order != w && w.len() == order.len() && tries < 20000 {
            pm = wsutil::new_manager(ws, HLogger::silent());
            pm.index_files();
            order = wsutil::enumeration_order(&pm, ws);
            tries += 1;
        }
    }
    let nfiles = order.len();
    let nchunks = if chunk == 0 { 0 } else { (nfiles + chunk - 1) / chunk };
    let token_mode = sched != "free";
    let ctl = Arc::new(Ctl {
        st: Mutex::new(St {
            token_mode,
            workers: HashMap::new(),
            state: vec![W::Free; workers],
            grant: vec![false; workers],
            chunk_of: vec![None; workers],
            next_chunk: 0,
            finished: 0,
            yields: 0,
            locked_at_yield: 0,
            unlocked_at_yield: 0,
            expected_workers: workers,
        }),
        cv: Condvar::new(),
        tree: Mutex::new(None),
    });
    let tree = EntityTreeService::new(chunk.max(1), HLogger::silent());
    *ctl.tree.lock().unwrap() = Some(tree.clone());
    pm.entity_tree_service = tree.clone();
    let pool = ThreadPool::new(workers, HLogger::with_sink(Arc::new(PoolSink(ctl.clone()))));
    verif_hooks::tree_install_controller(ctl.clone());
    let mut stuck = false;
    if token_mode {
        // one parking job per worker; afterwards every worker is parked at "finished job"
        for _ in 0..workers {
            let c = ctl.clone();
            pool.execute(move || c.register());
        }
        let st = ctl.st.lock().unwrap();
        let (st, to) = ctl
            .cv
            .wait_timeout_while(st, STUCK, |s| !(s.workers.len() == workers && s.state.iter().all(|w| *w == W::Free)))
            .unwrap();
        stuck |= to.timed_out();
        drop(st);
    }
    tree.build_tree_parallel(&pm.doc_service, &pool);
    if token_mode && !stuck {
        let mut choices = parse_nums(&sched[1..]).into_iter();
        loop {
            let st = ctl.st.lock().unwrap();
            let (mut st, to) = ctl.cv.wait_timeout_while(st, STUCK, |s| s.state.iter().any(|w| *w == W::Running)).unwrap();
            if to.timed_out() {
                stuck = true;
                break;
            }
            if st.finished >= nchunks {
                break;
            }
            // candidates: active chunks in index order, then the next queued chunk
            let mut cand: Vec<(usize, usize)> = Vec::new(); // (chunk, worker)
            for (w, s) in st.state.iter().enumerate() {
                if *s == W::AtYield {
                    if let Some(c) = st.chunk_of[w] {
                        cand.push((c, w));
                    }
                }
            }
            cand.sort();
            if st.next_chunk < nchunks {
                if let Some(w) = st.state.iter().position(|s| *s == W::Free) {
                    cand.push((st.next_chunk, w));
                }
            }
            if cand.is_empty() {
                stuck = true;
                break;
            }
            let k = choices.next().unwrap_or(0) % cand.len();
            let w = cand[k].1;
            st.grant[w] = true;
            st.state[w] = W::Running;
            ctl.cv.notify_all();
        }
    }
    {
        let mut st = ctl.st.lock().unwrap();
        st.token_mode = false;
        ctl.cv.notify_all();
    }
    drop(pool); // sends Terminate to every worker and joins: all chunk jobs are done
    verif_hooks::tree_clear_controller();
    *ctl.tree.lock().unwrap() = None;
    let st = ctl.st.lock().unwrap();
    let goc = if !token_mode || st.yields == 0 {
        "na"
    } else if st.unlocked_at_yield == 0 {
        "atomic"
    } else if st.locked_at_yield == 0 {
        "split"
    } else {
        "mixed"
    };
    Built { pm, order, goc, yields: st.yields, stuck }
}

/// C08 on a hierarchy item: start <= end, selection inside the full range, both inside the document the uri names
/// (the lines exist and are long enough)
fn item_ranges(i: &TypeHierarchyItem) -> &'static str {
    let le = |a: &lsp_types::Position, b: &lsp_types::Position| (a.line, a.character) <= (b.line, b.character);
    if !le(&i.range.start, &i.range.end) || !le(&i.selection_range.start, &i.selection_range.end) {
        return "!range-start-after-end";
    }
    if !le(&i.range.start, &i.selection_range.start) || !le(&i.selection_range.end, &i.range.end) {
        return "!selection-outside-range";
    }
    // the document as the server reads it (bytes + lossy conversion; a CR belongs to the line end)
    let text = i.uri.to_file_path().ok().map(|p| wsutil::read_lossy(&p)).unwrap_or_default();
    let lines: Vec<&str> = text.split('\n').map(|l| l.strip_suffix('\r').unwrap_or(l)).collect();
    let inside = |p: &lsp_types::Position| match lines.get(p.line as usize) {
        Some(l) => (p.character as usize) <= l.encode_utf16().count(),
        None => false,
    };
    if !inside(&i.range.start) || !inside(&i.range.end) || !inside(&i.selection_range.start) || !inside(&i.selection_range.end) {
        return "!range-outside-document";
    }
    ""
}

/// C13 on a hierarchy item: the document its uri names is the file of the class that owns the item (the class itself for
/// a class item, the declaring class — `detail` — for a member item), and the selection range covers the item's name
/// there.  `-` when the item is as it must be, else `!uri-names-<stem>` / `!selection-is-<text>`.
fn item_owner(i: &TypeHierarchyItem, member: bool) -> String {
    let owner = if member { i.detail.clone().unwrap_or_else(|| "?".to_string()) } else { i.name.clone() };
    let path = i.uri.to_file_path().ok();
    let stem = path.as_ref().and_then(|p| p.file_stem().map(|s| s.to_string_lossy().to_string())).unwrap_or_else(|| "?".to_string());
    if stem.to_uppercase() != owner.to_uppercase() {
        return format!("!uri-names-{}", stem);
    }
    let text = path.map(|p| wsutil::read_lossy(&p)).unwrap_or_default();
    let sel = &i.selection_range;
    let at: Option<String> = text.split('\n').nth(sel.start.line as usize).and_then(|l| {
        if sel.start.line != sel.end.line {
            return None;
        }
        let u: Vec<u16> = l.encode_utf16().collect();
        u.get(sel.start.character as usize..sel.end.character as usize).map(String::from_utf16_lossy)
    });
    match at {
        Some(t) if t.to_uppercase() == i.name.to_uppercase() => String::new(),
        Some(t) => format!("!selection-is-{}", t.chars().filter(|c| c.is_ascii_alphanumeric()).collect::<String>()),
        None => "!selection-is-nothing".to_string(),
    }
}

fn names(r: Result<Vec<TypeHierarchyItem>, crate::manager::data_structs::ProjectManagerError>, member: bool) -> String {
    match r {
        Err(_) => "!".to_string(),
        Ok(items) => wsutil::upper_sorted(
            items
                .iter()
                .map(|i| format!("{}{}{}", if member { i.detail.clone().unwrap_or_else(|| "?".to_string()) } else { i.name.clone() }, item_ranges(i), item_owner(i, member)))
                .collect(),
        ),
    }
}

pub fn answers(pm: &mut ProjectManager, ws: &Workspace) -> Vec<String> {
    let mut out = Vec::new();
    for f in &ws.files {
        let cls = f.spec.stem.to_uppercase();
        let (l, c) = match f.class_pos {
            Some(p) => p,
            None => continue,
        };
        let item = match pm.prepare_type_hierarchy(&f.uri, &Position::new(l, c)) {
            Ok(v) if v.len() == 1 && v[0].kind == SymbolKind::CLASS && v[0].name.to_uppercase() == cls => v[0].clone(),
            _ => {
                out.push(format!("prep!:{}", cls));
                continue;
            }
        };
        if !item_ranges(&item).is_empty() {
            out.push(format!("prep!:{}{}", cls, item_ranges(&item)));
            continue;
        }
        out.push(format!("sup:{}={}", cls, names(pm.type_hierarchy_supertypes(&item), false)));
        out.push(format!("sub:{}={}", cls, names(pm.type_hierarchy_subtypes(&item), false)));
        for (m, (l, c)) in &f.member_pos {
            let mu = m.to_uppercase();
            let want_kind = if wsutil::is_field(m) { SymbolKind::FIELD } else { SymbolKind::FUNCTION };
            let item = match pm.prepare_type_hierarchy(&f.uri, &Position::new(*l, *c)) {
                Ok(v) if v.len() == 1 && v[0].kind == want_kind && v[0].name.to_uppercase() == mu => v[0].clone(),
                _ => {
                    out.push(format!("prep!:{}.{}", cls, mu));
                    continue;
                }
            };
            if !item_ranges(&item).is_empty() {
                out.push(format!("prep!:{}.{}{}", cls, mu, item_ranges(&item)));
                continue;
            }
            out.push(format!("up:{}.{}={}", cls, mu, names(pm.type_hierarchy_supertypes(&item), true)));
            out.push(format!("dn:{}.{}={}", cls, mu, names(pm.type_hierarchy_subtypes(&item), true)));
        }
        // hierarchy requests from a USE of a (possibly inherited) method: the item must be the declaration's
        for (label, (l, c)) in &f.probes {
            let m = match label.strip_prefix("use:") {
                Some(m) => m.to_uppercase(),
                None => continue,
            };
            match pm.prepare_type_hierarchy(&f.uri, &Position::new(*l, *c)) {
                Ok(v) if v.len() == 1 && v[0].name.to_uppercase() == m => {
                    let item = v[0].clone();
                    let owner = item
                        .uri
                        .to_file_path()
                        .ok()
                        .and_then(|p| p.file_stem().map(|s| s.to_string_lossy().to_uppercase()))
                        .unwrap_or_else(|| "?".to_string());
                    out.push(format!("useat:{}.{}={}{}", cls, m, owner, item_ranges(&item)));
                    out.push(format!("useup:{}.{}={}", cls, m, names(pm.type_hierarchy_supertypes(&item), true)));
                    out.push(format!("usedn:{}.{}={}", cls, m, names(pm.type_hierarchy_subtypes(&item), true)));
                }
                Ok(v) if v.is_empty() => out.push(format!("useat:{}.{}=-", cls, m)),
                Ok(_) => out.push(format!("useat:{}.{}=?", cls, m)),
                Err(_) => out.push(format!("useat:{}.{}=-", cls, m)),
            }
        }
    }
    out
}

pub fn run(words: &[&str]) -> String {
    if words.len() < 6 {
        return "bad-case".into();
    }
    let files = match wsutil::parse_files(words[1]) {
        Some(f) => f,
        None => return "bad-case".into(),
    };
    let chunk: usize = match words[2].parse() {
        Ok(c) if c > 0 => c,
        _ => return "bad-case".into(),
    };
    let workers: usize = match words[3].parse() {
        Ok(c) if c > 0 && c <= 16 => c,
        _ => return "bad-case".into(),
    };
    let sched = words[4];
    if sched != "free" && !sched.starts_with('c') {
        return "bad-case".into();
    }
    let want = if words[5] == "-" { None } else { Some(parse_nums(words[5])) };
    let ws = wsutil::materialise(&files);
    let mut b = build(&ws, chunk, workers, sched, &want);
    let order = b.order.iter().map(|i| i.to_string()).collect::<Vec<_>>().join(".");
    if b.stuck {
        return format!("order={} goc={} yields={} | harness-stuck", order, b.goc, b.yields);
    }
    let ans = answers(&mut b.pm, &ws);
    format!("order={} goc={} yields={} | {}", order, b.goc, b.yields, ans.join(" "))
}
