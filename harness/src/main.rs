//! Correspondence harness: compiles the *current working tree* of /repo by path and runs
//! it on the case lines the Lean driver also reads.  One case per input line, one
//! canonical output line per case, every case under `catch_unwind`.
#![allow(dead_code, unused_imports, unused_variables, unused_mut)]

#[path = "../reposrc/lexer/mod.rs"]
pub mod lexer;
#[path = "../reposrc/parser/mod.rs"]
pub mod parser;
#[path = "../reposrc/utils.rs"]
pub mod utils;
#[path = "../reposrc/manager/mod.rs"]
pub mod manager;
#[path = "../reposrc/analyzers/mod.rs"]
pub mod analyzers;
#[path = "../reposrc/threadpool.rs"]
pub mod threadpool;
#[path = "../reposrc/analyzers_v2/mod.rs"]
pub mod analyzers_v2;
#[cfg(gold_lsp_verif)]
#[path = "../reposrc/verif_hooks.rs"]
pub mod verif_hooks;

mod wire;
mod gen_kinds;
mod dump;
mod modes;

use std::io::{BufRead, Write};

fn main() {
    let args: Vec<String> = std::env::args().collect();
    if args.len() < 2 {
        eprintln!("usage: harness <mode> [args…]  (cases on stdin)");
        std::process::exit(2);
    }
    // panics inside cases are expected outcomes; keep stderr quiet
    std::panic::set_hook(Box::new(|_| {}));
    let stdin = std::io::stdin();
    let stdout = std::io::stdout();
    let mut out = std::io::BufWriter::new(stdout.lock());
    let mode = args[1].as_str();
    match modes::lookup(mode) {
        Some(f) => {
            // every case runs on a worker thread under a watchdog: a case that does not return within the
            // deadline is reported as `hang` and the process exits (a stuck thread cannot be stopped);
            // the caller restarts after that line
            let deadline = std::time::Duration::from_millis(
                std::env::var("HARNESS_CASE_TIMEOUT_MS").ok().and_then(|v| v.parse().ok()).unwrap_or(5_000),
            );
            let (job_tx, job_rx) = std::sync::mpsc::channel::<String>();
            let (res_tx, res_rx) = std::sync::mpsc::channel::<String>();
            std::thread::Builder::new()
                .stack_size(64 * 1024 * 1024)
                .spawn(move || {
                    for line in job_rx {
                        let words: Vec<&str> = line.split_whitespace().collect();
                        let res = wire::guarded(|| f(&words[..]));
                        if res_tx.send(res).is_err() {
                            break;
                        }
                    }
                })
                .unwrap();
            let mut n = 0usize;
            for line in stdin.lock().lines() {
                let line = line.unwrap();
                job_tx.send(line).unwrap();
                match res_rx.recv_timeout(deadline) {
                    Ok(res) => writeln!(out, "{}", res).unwrap(),
                    Err(_) => {
                        writeln!(out, "hang").unwrap();
                        out.flush().unwrap();
                        std::process::exit(3);
                    }
                }
                n += 1;
                if n % 32 == 0 {
                    // keep the output close to the progress: a crash is then pinned to one case
                    out.flush().unwrap();
                }
            }
        }
        None => match modes::lookup_batch(mode) {
            Some(f) => f(&args[2..], &mut stdin.lock(), &mut out),
            None => {
                eprintln!("unknown mode {}", mode);
                std::process::exit(2);
            }
        },
    }
    out.flush().unwrap();
}
