//! Correspondence harness: compiles the *current working tree* of /repo by path and runs
//! it on the case lines the Lean driver also reads.  One case per input line, one
//! canonical output line per case, every case under `catch_unwind`.
#![allow(dead_code, unused_imports, unused_variables, unused_mut)]

#[path = "../reposrc/lexer/mod.rs"]
pub mod lexer;
#[path = "../reposrc/parser/mod.rs"]
pub mod parser;
#[path = "../reposrc/utils.rs"]
pub mod utils;
#[path = "../reposrc/manager/mod.rs"]
pub mod manager;
#[path = "../reposrc/analyzers/mod.rs"]
pub mod analyzers;
#[path = "../reposrc/threadpool.rs"]
pub mod threadpool;
#[path = "../reposrc/analyzers_v2/mod.rs"]
pub mod analyzers_v2;
#[cfg(gold_lsp_verif)]
#[path = "../reposrc/verif_hooks.rs"]
pub mod verif_hooks;

mod wire;
mod modes;

use std::io::{BufRead, Write};

fn main() {
    let args: Vec<String> = std::env::args().collect();
    if args.len() < 2 {
        eprintln!("usage: harness <mode> [args…]  (cases on stdin)");
        std::process::exit(2);
    }
    // panics inside cases are expected outcomes; keep stderr quiet
    std::panic::set_hook(Box::new(|_| {}));
    let stdin = std::io::stdin();
    let stdout = std::io::stdout();
    let mut out = std::io::BufWriter::new(stdout.lock());
    let mode = args[1].as_str();
    match modes::lookup(mode) {
        Some(f) => {
            for line in stdin.lock().lines() {
                let line = line.unwrap();
                let words: Vec<&str> = line.split_whitespace().collect();
                let res = wire::guarded(|| f(&words[..]));
                writeln!(out, "{}", res).unwrap();
            }
        }
        None => match modes::lookup_batch(mode) {
            Some(f) => f(&args[2..], &mut stdin.lock(), &mut out),
            None => {
                eprintln!("unknown mode {}", mode);
                std::process::exit(2);
            }
        },
    }
    out.flush().unwrap();
}
