//! canonical dumps shared by the modes (format identical to lean/GoldModel/Drive/Dump.lean)
use std::sync::Arc;

use crate::gen_kinds::ALL_KINDS;
use crate::lexer::tokens::{Token, TokenType};
use crate::parser::ast::IAstNode;
use crate::parser::ParserDiagnostic;
use crate::utils::{IRange, Position, Range};
use crate::wire::{escape, unescape};

pub fn kind_of(name: &str) -> Option<TokenType> {
    ALL_KINDS.iter().find(|(n, _)| *n == name).map(|(_, k)| *k)
}

pub fn rng_str(r: &Range) -> String {
    format!("{}:{}-{}:{}", r.start.line, r.start.character, r.end.line, r.end.character)
}

/// `Kind:value:sl:sc:el:ec`
pub fn parse_tok(word: &str, idx: usize) -> Option<Token> {
    let p: Vec<&str> = word.split(':').collect();
    if p.len() != 6 {
        return None;
    }
    let n = |s: &str| s.parse::<usize>().ok();
    Some(Token {
        raw_pos: idx,
        range: Range {
            start: Position { line: n(p[2])?, character: n(p[3])? },
            end: Position { line: n(p[4])?, character: n(p[5])? },
        },
        token_type: kind_of(p[0])?,
        value: Arc::from(unescape(p[1]).as_str()),
    })
}

pub fn tok_str(t: &Token) -> String {
    format!(
        "{:?}:{}:{}:{}:{}:{}",
        t.token_type,
        escape(&t.value),
        t.range.start.line,
        t.range.start.character,
        t.range.end.line,
        t.range.end.character
    )
}

/// `(kind ident l:c-l:c kids…)` through the `IAstNode` trait only (first child view)
pub fn dump_tree(n: &dyn IAstNode, out: &mut String) {
    out.push('(');
    out.push_str(&n.to_string_type());
    out.push(' ');
    out.push_str(&escape(n.get_identifier()));
    out.push(' ');
    out.push_str(&rng_str(&n.get_range()));
    if let Some(sel) = selection_range(n) {
        out.push_str(" @");
        out.push_str(&rng_str(&sel));
    }
    if let Some(kids) = n.get_children_ref() {
        for k in kids {
            out.push(' ');
            dump_tree(k, out);
        }
    }
    out.push(')');
}

/// range of the declared name, for the declaration kinds (what outline / links use as selection range)
pub fn selection_range(n: &dyn IAstNode) -> Option<Range> {
    use crate::parser::ast::*;
    let a = n.as_any();
    if let Some(x) = a.downcast_ref::<AstClass>() {
        return Some(x.identifier.get_range());
    }
    if let Some(x) = a.downcast_ref::<AstModule>() {
        return Some(x.id.get_range());
    }
    if let Some(x) = a.downcast_ref::<AstConstantDeclaration>() {
        return Some(x.identifier.get_range());
    }
    if let Some(x) = a.downcast_ref::<AstTypeDeclaration>() {
        return Some(x.identifier.get_range());
    }
    if let Some(x) = a.downcast_ref::<AstGlobalVariableDeclaration>() {
        return Some(x.identifier.get_range());
    }
    if let Some(x) = a.downcast_ref::<AstProcedure>() {
        return Some(x.identifier.get_range());
    }
    if let Some(x) = a.downcast_ref::<AstFunction>() {
        return Some(x.identifier.get_range());
    }
    if let Some(x) = a.downcast_ref::<AstParameterDeclaration>() {
        return Some(x.identifier.get_range());
    }
    if let Some(x) = a.downcast_ref::<AstLocalVariableDeclaration>() {
        return Some(x.identifier.get_range());
    }
    None
}

/// `name|kind|range|selection` of every outline symbol, children in `[...]`
pub fn outline_str(syms: &[lsp_types::DocumentSymbol]) -> String {
    let r = |r: &lsp_types::Range| format!("{}:{}-{}:{}", r.start.line, r.start.character, r.end.line, r.end.character);
    syms.iter()
        .map(|s| {
            let mut o = format!("{}|{:?}|{}|{}", escape(&s.name), s.kind, r(&s.range), r(&s.selection_range));
            if let Some(c) = &s.children {
                o.push('[');
                o.push_str(&outline_str(c));
                o.push(']');
            }
            o
        })
        .collect::<Vec<_>>()
        .join(",")
}

/// walks the whole tree through BOTH child views; returns (nodes, views agree)
pub fn walk_both(n: &dyn IAstNode) -> (usize, bool) {
    let _ = n.get_type();
    let _ = n.to_string_type();
    let _ = n.get_identifier();
    let _ = n.get_range();
    let _ = n.get_raw_pos();
    let r = n.get_children_ref();
    let a = n.get_children_arc();
    let mut ok = true;
    let mut count = 1;
    match (&r, &a) {
        (Some(r), Some(a)) => {
            if r.len() != a.len() {
                ok = false;
            } else {
                for (x, y) in r.iter().zip(a.iter()) {
                    let px = *x as *const dyn IAstNode as *const ();
                    let py = y.as_ref() as *const dyn IAstNode as *const ();
                    if px != py {
                        ok = false;
                    }
                }
            }
        }
        (None, None) => {}
        (Some(r), None) => {
            if !r.is_empty() {
                ok = false
            }
        }
        (None, Some(a)) => {
            if !a.is_empty() {
                ok = false
            }
        }
    }
    if let Some(r) = r {
        for k in r {
            let (c, o) = walk_both(k);
            count += c;
            ok = ok && o;
        }
    }
    (count, ok)
}

pub fn diags_str(d: &[ParserDiagnostic]) -> String {
    d.iter().map(|x| format!("{}:{}", rng_str(&x.range), escape(&x.msg))).collect::<Vec<_>>().join("|")
}
