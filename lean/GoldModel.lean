import GoldModel.Drive.Common
import GoldModel.Drive.Sym
import GoldModel.Drive.SymSpec
import GoldModel.Drive.Tree
import GoldModel.Lemmas.SymTab
import GoldModel.Model.EntityTree
import GoldModel.Model.SymTab
import GoldModel.Props.C18
