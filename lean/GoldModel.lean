import GoldModel.Model.SymTab
