import GoldModel.Lemmas.PegSuffix
/-! more fuel never changes a finished result -/
namespace Gold.Peg
open Gold

theorem runP_mono (Γ Δ : Nat → G) : ∀ (f : Nat) (g : G) (ts : List Tok),
    (runP Γ Δ f g ts).1.isFuel = false → ∀ f', f ≤ f' → runP Γ Δ f' g ts = runP Γ Δ f g ts := by
  intro f
  induction f with
  | zero => intro g ts h; simp [runP, R.isFuel] at h
  | succ f ih =>
    intro g ts h f' hle
    obtain ⟨f'', rfl⟩ : ∃ k, f' = k + 1 := ⟨f' - 1, by omega⟩
    have hle' : f ≤ f'' := by omega
    cases g with
    | tok k => simp only [runP]
    | identVal s => simp only [runP]
    | eps v => simp only [runP]
    | skipTo ks => simp only [runP]
    | seq a b =>
      simp only [runP] at h ⊢
      rcases hqa : runP Γ Δ f a ts with ⟨ra, da⟩
      rw [hqa] at h
      cases ra with
      | fuel => simp [R.isFuel] at h
      | err e m => rw [ih a ts (by rw [hqa]; rfl) f'' hle', hqa]
      | ok r va =>
        rw [ih a ts (by rw [hqa]; rfl) f'' hle', hqa]
        simp only at h ⊢
        rcases hqb : runP Γ Δ f b r with ⟨rb, db⟩
        rw [hqb] at h
        cases rb with
        | fuel => simp [R.isFuel] at h
        | err e m => rw [ih b r (by rw [hqb]; rfl) f'' hle', hqb]
        | ok r2 vb => rw [ih b r (by rw [hqb]; rfl) f'' hle', hqb]
    | alt a b =>
      simp only [runP] at h ⊢
      rcases hqa : runP Γ Δ f a ts with ⟨ra, da⟩
      rw [hqa] at h
      cases ra with
      | fuel => simp [R.isFuel] at h
      | ok r va => rw [ih a ts (by rw [hqa]; rfl) f'' hle', hqa]
      | err e1 m1 =>
        rw [ih a ts (by rw [hqa]; rfl) f'' hle', hqa]
        simp only at h ⊢
        rcases hqb : runP Γ Δ f b ts with ⟨rb, db⟩
        rw [hqb] at h
        cases rb with
        | fuel => simp [R.isFuel] at h
        | err e m => rw [ih b ts (by rw [hqb]; rfl) f'' hle', hqb]
        | ok r2 vb => rw [ih b ts (by rw [hqb]; rfl) f'' hle', hqb]
    | opt a =>
      simp only [runP] at h ⊢
      rcases hqa : runP Γ Δ f a ts with ⟨ra, da⟩
      rw [hqa] at h
      cases ra with
      | fuel => simp [R.isFuel] at h
      | ok r va => rw [ih a ts (by rw [hqa]; rfl) f'' hle', hqa]
      | err e m => rw [ih a ts (by rw [hqa]; rfl) f'' hle', hqa]
    | ref n => simp only [runP] at h ⊢; exact ih _ _ h f'' hle'
    | memo c e => simp only [runP] at h ⊢; exact ih _ _ h f'' hle'
    | map fn g =>
      simp only [runP] at h ⊢
      rcases hq : runP Γ Δ f g ts with ⟨rg, dg⟩
      rw [hq] at h
      cases rg with
      | fuel => simp [R.isFuel] at h
      | ok r v => rw [ih g ts (by rw [hq]; rfl) f'' hle', hq]
      | err e m => rw [ih g ts (by rw [hq]; rfl) f'' hle', hq]
    | check p msg g =>
      simp only [runP] at h ⊢
      rcases hq : runP Γ Δ f g ts with ⟨rg, dg⟩
      rw [hq] at h
      cases rg with
      | fuel => simp [R.isFuel] at h
      | ok r v => rw [ih g ts (by rw [hq]; rfl) f'' hle', hq]
      | err e m => rw [ih g ts (by rw [hq]; rfl) f'' hle', hq]
    | emit fn g =>
      simp only [runP] at h ⊢
      rcases hq : runP Γ Δ f g ts with ⟨rg, dg⟩
      rw [hq] at h
      cases rg with
      | fuel => simp [R.isFuel] at h
      | ok r v => rw [ih g ts (by rw [hq]; rfl) f'' hle', hq]
      | err e m => rw [ih g ts (by rw [hq]; rfl) f'' hle', hq]
    | prepend s g =>
      simp only [runP] at h ⊢
      rcases hq : runP Γ Δ f g ts with ⟨rg, dg⟩
      rw [hq] at h
      cases rg with
      | fuel => simp [R.isFuel] at h
      | ok r v => rw [ih g ts (by rw [hq]; rfl) f'' hle', hq]
      | err e m => rw [ih g ts (by rw [hq]; rfl) f'' hle', hq]
    | recover m g =>
      simp only [runP] at h ⊢
      rcases hq : runP Γ Δ f g ts with ⟨rg, dg⟩
      rw [hq] at h
      cases rg with
      | fuel => simp [R.isFuel] at h
      | ok r v => rw [ih g ts (by rw [hq]; rfl) f'' hle', hq]
      | err e m => rw [ih g ts (by rw [hq]; rfl) f'' hle', hq]
    | catchErr g =>
      simp only [runP] at h ⊢
      rcases hq : runP Γ Δ f g ts with ⟨rg, dg⟩
      rw [hq] at h
      cases rg with
      | fuel => simp [R.isFuel] at h
      | ok r v => rw [ih g ts (by rw [hq]; rfl) f'' hle', hq]
      | err e m => rw [ih g ts (by rw [hq]; rfl) f'' hle', hq]
    | ifTok ks a b =>
      simp only [runP] at h ⊢
      split at h
      · rename_i t rest hfr
        split at h
        · rename_i hk
          simp only [hk, ↓reduceIte]
          rcases hq : runP Γ Δ f a rest with ⟨ra, da⟩
          rw [hq] at h
          cases ra with
          | fuel => simp [R.isFuel] at h
          | ok r v => rw [ih a rest (by rw [hq]; rfl) f'' hle', hq]
          | err e m => rw [ih a rest (by rw [hq]; rfl) f'' hle', hq]
        · rename_i hk
          simp only [hk]
          exact ih b ts h f'' hle'
      · exact ih b ts h f'' hle'
    | ifEof a b =>
      simp only [runP] at h ⊢
      cases ts with
      | nil => exact ih a [] h f'' hle'
      | cons x xs => exact ih b _ h f'' hle'
    | dep a test b =>
      simp only [runP] at h ⊢
      rcases hqa : runP Γ Δ f a ts with ⟨ra, da⟩
      rw [hqa] at h
      cases ra with
      | fuel => simp [R.isFuel] at h
      | err e m => rw [ih a ts (by rw [hqa]; rfl) f'' hle', hqa]
      | ok r va =>
        rw [ih a ts (by rw [hqa]; rfl) f'' hle', hqa]
        simp only at h ⊢
        split
        · rename_i ht
          simp only [ht, ↓reduceIte] at h
          rcases hqb : runP Γ Δ f b r with ⟨rb, db⟩
          rw [hqb] at h
          cases rb with
          | fuel => simp [R.isFuel] at h
          | err e m => rw [ih b r (by rw [hqb]; rfl) f'' hle', hqb]
          | ok r2 vb => rw [ih b r (by rw [hqb]; rfl) f'' hle', hqb]
        · rfl
    | reslice ks inner =>
      simp only [runP] at h ⊢
      rcases htu : takeUntil ks ts with ⟨rest, body, e⟩
      rw [htu] at h
      simp only at h ⊢
      cases body with
      | nil => rfl
      | cons b0 bs =>
        simp only at h ⊢
        rcases hq : runP Γ Δ f inner (b0 :: bs) with ⟨ri, di⟩
        rw [hq] at h
        cases ri with
        | fuel => simp [R.isFuel] at h
        | ok r v => rw [ih inner _ (by rw [hq]; rfl) f'' hle', hq]
        | err e2 m => rw [ih inner _ (by rw [hq]; rfl) f'' hle', hq]

/-- any two finished runs agree -/
theorem runP_agree (Γ Δ : Nat → G) (f f' : Nat) (g : G) (ts : List Tok)
    (h : (runP Γ Δ f g ts).1.isFuel = false) (h' : (runP Γ Δ f' g ts).1.isFuel = false) :
    runP Γ Δ f g ts = runP Γ Δ f' g ts := by
  rcases Nat.le_total f f' with hle | hle
  · exact (runP_mono Γ Δ f g ts h f' hle).symm
  · exact runP_mono Γ Δ f' g ts h' f hle

end Gold.Peg
