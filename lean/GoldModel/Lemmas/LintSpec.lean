import GoldModel.Lemmas.Lint
/-!
The stateful analyzers against declarative descriptions of what they report for ONE method
(an action list without `enter`):

* `tracker_spec` — the tracker computes exactly `trackSpec` on well-declared action lists;
* `ih_spec` — the inherited checker reports the method iff its name is listed and no action satisfies it;
* `tracker_rename` — renaming all names by a function that respects `norm` on the names that
  occur renames the reports and changes nothing else;
* `tracker_congr` — readings that agree up to hits of undeclared names give the same reports.
-/
namespace Gold.Lint
open Gold

structure Flag.Lawful {F : Type} (fl : Flag F) : Prop where
  zero : fl.isZero fl.zero = true
  bump : ∀ f, fl.isZero (fl.bump f) = false

theorem countFlag_lawful : countFlag.Lawful := ⟨rfl, fun f => by simp [countFlag]⟩

theorem boolFlag_lawful : boolFlag.Lawful := ⟨rfl, fun f => by simp [boolFlag]⟩

/-! ### declarative description of the tracker -/

@[simp] theorem decls_other (rest : List TAct) : decls (.other :: rest) = decls rest := rfl

@[simp] theorem decls_hit (n : String) (rest : List TAct) : decls (.hit n :: rest) = decls rest := rfl

@[simp] theorem decls_enter (rest : List TAct) : decls (.enter :: rest) = decls rest := rfl

@[simp] theorem decls_decl (n : String) (r : Range) (rest : List TAct) : decls (.decl n r :: rest) = (n, r) :: decls rest := rfl

@[simp] theorem hitIn_other (norm : String → String) (rest : List TAct) (k : String) : hitIn norm (.other :: rest) k = hitIn norm rest k := by
  simp [hitIn, isHit]

@[simp] theorem hitIn_decl (norm : String → String) (n : String) (r : Range) (rest : List TAct) (k : String) :
    hitIn norm (.decl n r :: rest) k = hitIn norm rest k := by
  simp [hitIn, isHit]

@[simp] theorem hitIn_enter (norm : String → String) (rest : List TAct) (k : String) : hitIn norm (.enter :: rest) k = hitIn norm rest k := by
  simp [hitIn, isHit]

theorem hitIn_hit (norm : String → String) (n : String) (rest : List TAct) (k : String) :
    hitIn norm (.hit n :: rest) k = (norm n == k || hitIn norm rest k) := by
  simp [hitIn, isHit]

/-! ### map lemmas -/

theorem lookup_none_of_not_mem {β : Type} (k : String) (l : List (String × β)) (h : ∀ p ∈ l, p.1 ≠ k) :
    l.lookup k = none := by
  induction l with
  | nil => rfl
  | cons p rest ih =>
    obtain ⟨a, b⟩ := p
    have hne : a ≠ k := h (a, b) List.mem_cons_self
    have : (k == a) = false := by simp [Ne.symm hne]
    simp only [List.lookup, this]
    exact ih (fun q hq => h q (List.mem_cons_of_mem _ hq))

theorem mapInsert_of_not_mem {β : Type} (k : String) (v : β) (l : List (String × β)) (h : ∀ p ∈ l, p.1 ≠ k) :
    mapInsert k v l = l ++ [(k, v)] := by
  induction l with
  | nil => rfl
  | cons p rest ih =>
    have hne : p.1 ≠ k := h p List.mem_cons_self
    simp only [mapInsert, beq_iff_eq, hne, ↓reduceIte, List.cons_append]
    rw [ih (fun q hq => h q (List.mem_cons_of_mem _ hq))]

/-! ### the tracker computes `trackSpec` -/

/-- entries that are still unhit at the end of `as` -/
def survivors {F : Type} (fl : Flag F) (norm : String → String) (as : List TAct) (s : List (String × TEntry F)) : List TOut :=
  s.filterMap (fun p => if fl.isZero p.2.flag && !hitIn norm as p.1 then some (.unhit p.1 p.2.name p.2.rng) else none)

theorem filterMap_congr' {α β : Type} {f g : α → Option β} {l : List α} (h : ∀ x ∈ l, f x = g x) :
    l.filterMap f = l.filterMap g := by
  induction l with
  | nil => rfl
  | cons x rest ih =>
    simp only [List.filterMap_cons, h x List.mem_cons_self]
    rw [ih (fun y hy => h y (List.mem_cons_of_mem _ hy))]

theorem tracker_spec_from {F : Type} (fl : Flag F) (hl : fl.Lawful) (c : TCfg) (norm : String → String)
    (hi : c.foldIns = true) (hk : c.foldLook = true) (as : List TAct) :
    ∀ (s : List (String × TEntry F)),
      noEnter as = true → distinctKeys ((decls as).map (fun d => norm d.1)) = true → declBeforeHit norm as = true →
      (∀ p ∈ s, ∀ d ∈ decls as, p.1 ≠ norm d.1) →
      (tracker fl c norm).runFrom s as = survivors fl norm as s ++ trackSpec norm as := by
  induction as with
  | nil =>
    intro s _ _ _ _
    simp [Machine.runFrom, tracker, report, survivors, trackSpec, decls, hitIn]
  | cons a rest ih =>
    intro s hne hd hb hs
    have hne' : noEnter rest = true := by
      simp only [noEnter, List.all_cons, Bool.and_eq_true] at hne ⊢
      exact hne.2
    cases a with
    | enter => simp [noEnter] at hne
    | other =>
      have hd' : distinctKeys ((decls rest).map (fun d => norm d.1)) = true := by simpa using hd
      have hb' : declBeforeHit norm rest = true := by simpa [declBeforeHit] using hb
      have hs' : ∀ p ∈ s, ∀ d ∈ decls rest, p.1 ≠ norm d.1 := fun p hp d hd => hs p hp d (by simpa using hd)
      simp only [Machine.runFrom, tracker, trackerStep, List.nil_append]
      have := ih s hne' hd' hb' hs'
      simp only [tracker] at this
      rw [this]
      simp [survivors, trackSpec]
    | hit n =>
      have hd' : distinctKeys ((decls rest).map (fun d => norm d.1)) = true := by simpa using hd
      have hb2 : declBeforeHit norm rest = true := by
        simp only [declBeforeHit, Bool.and_eq_true] at hb; exact hb.2
      have hb1 : ∀ d ∈ decls rest, norm d.1 ≠ norm n := by
        simp only [declBeforeHit, Bool.and_eq_true, Bool.not_eq_true', List.any_eq_false, beq_iff_eq] at hb
        intro d hd h
        exact hb.1 d hd h
      have hs' : ∀ p ∈ mapBump fl (norm n) s, ∀ d ∈ decls rest, p.1 ≠ norm d.1 := by
        intro p hp d hd
        simp only [mapBump, List.mem_map] at hp
        obtain ⟨q, hq, rfl⟩ := hp
        have := hs q hq d (by simpa using hd)
        split <;> simpa using this
      simp only [Machine.runFrom, tracker, trackerStep, List.nil_append, keyOf, hk, ↓reduceIte]
      have := ih (mapBump fl (norm n) s) hne' hd' hb2 hs'
      simp only [tracker] at this
      rw [this]
      congr 1
      · -- survivors
        simp only [survivors, mapBump, List.filterMap_map]
        apply filterMap_congr'
        intro p _
        simp only [Function.comp, hitIn_hit]
        by_cases hpk : p.1 = norm n
        · simp [hpk, hl.bump]
        · have : (norm n == p.1) = false := by simp [Ne.symm hpk]
          simp [hpk, this]
      · -- spec
        simp only [trackSpec, decls_hit]
        apply filterMap_congr'
        intro d hd
        have : (norm n == norm d.1) = false := by
          have := hb1 d hd
          simp [Ne.symm this]
        simp [hitIn_hit, this]
    | decl n r =>
      have hd1 : ∀ d ∈ decls rest, norm d.1 ≠ norm n := by
        simp only [decls_decl, List.map_cons, distinctKeys, Bool.and_eq_true,
          Bool.not_eq_true', List.contains_eq_mem, List.mem_map, decide_eq_false_iff_not] at hd
        intro d hdm h
        exact hd.1 ⟨d, hdm, h⟩
      have hd2 : distinctKeys ((decls rest).map (fun d => norm d.1)) = true := by
        simp only [decls_decl, List.map_cons, distinctKeys, Bool.and_eq_true] at hd
        exact hd.2
      have hb' : declBeforeHit norm rest = true := by simpa [declBeforeHit] using hb
      have hnk : ∀ p ∈ s, p.1 ≠ norm n := fun p hp => hs p hp (n, r) (by simp)
      have hlook : s.lookup (norm n) = none := lookup_none_of_not_mem _ _ hnk
      have hs' : ∀ p ∈ s ++ [(norm n, (⟨n, r, fl.zero⟩ : TEntry F))], ∀ d ∈ decls rest, p.1 ≠ norm d.1 := by
        intro p hp d hdm
        simp only [List.mem_append, List.mem_singleton] at hp
        rcases hp with hp | rfl
        · exact hs p hp d (by simp [hdm])
        · exact Ne.symm (hd1 d hdm)
      simp only [Machine.runFrom, tracker, trackerStep, keyOf, hk, hi, ↓reduceIte, hlook, Option.isSome_none,
        Bool.and_false, Bool.false_eq_true, List.nil_append]
      rw [mapInsert_of_not_mem _ _ _ hnk]
      have := ih _ hne' hd2 hb' hs'
      simp only [tracker] at this
      rw [this]
      simp only [survivors, List.filterMap_append, List.filterMap_cons, List.filterMap_nil, hl.zero, Bool.true_and,
        trackSpec, decls_decl, hitIn_decl, List.append_assoc]
      congr 1
      cases hh : hitIn norm rest (norm n) <;> simp

/-- **the tracker on one method**: started empty, on a well-declared action list without
    method nodes, it reports exactly the declarations that nothing hits -/
theorem tracker_spec {F : Type} (fl : Flag F) (hl : fl.Lawful) (c : TCfg) (norm : String → String)
    (hi : c.foldIns = true) (hk : c.foldLook = true) (as : List TAct)
    (hne : noEnter as = true) (hw : wellDeclared norm as = true) :
    (tracker fl c norm).run (.enter :: as) = trackSpec norm as := by
  simp only [wellDeclared, Bool.and_eq_true] at hw
  have := tracker_spec_from fl hl c norm hi hk as [] hne hw.1 hw.2 (by simp)
  simp only [Machine.run, Machine.runFrom, tracker, trackerStep, report, List.filterMap_nil, List.nil_append]
  simp only [tracker] at this
  have h2 : (if c.resets = true then ([] : List (String × TEntry F)) else []) = [] := by split <;> rfl
  rw [h2, this]
  simp [survivors]

/-! ### the inherited checker -/

/-- an action that satisfies the rule for a method named `n` -/
def satisfies (cfg : Cfg) (norm : String → String) (n : String) : IAct → Bool
  | .pass => true
  | .inh c => keyOf cfg.constFold norm c == keyOf cfg.constFold norm n
  | _ => false

def noEnterI (as : List IAct) : Bool := as.all (fun a => match a with | .enter _ _ => false | _ => true)

theorem ih_spec_from (cfg : Cfg) (norm : String → String) (n : String) (r : Range) (as : List IAct) :
    ∀ (b : Bool), noEnterI as = true →
      (ihMachine cfg norm).runFrom ⟨some (n, r), b⟩ as = ihCheck cfg norm ⟨some (n, r), b || as.any (satisfies cfg norm n)⟩ := by
  induction as with
  | nil => intro b _; simp [Machine.runFrom, ihMachine]
  | cons a rest ih =>
    intro b hne
    have hne' : noEnterI rest = true := by
      simp only [noEnterI, List.all_cons, Bool.and_eq_true] at hne ⊢; exact hne.2
    cases a with
    | enter m q => simp [noEnterI] at hne
    | pass =>
      have := ih true hne'
      simp only [ihMachine] at this
      simp [Machine.runFrom, ihMachine, ihStep, this, satisfies]
    | other =>
      have := ih b hne'
      simp only [ihMachine] at this
      simp [Machine.runFrom, ihMachine, ihStep, this, satisfies]
    | inh c =>
      by_cases hc : keyOf cfg.constFold norm c = keyOf cfg.constFold norm n
      · have := ih true hne'
        simp only [ihMachine] at this
        simp [Machine.runFrom, ihMachine, ihStep, this, satisfies, hc]
      · have := ih b hne'
        simp only [ihMachine] at this
        have hc' : (keyOf cfg.constFold norm c == keyOf cfg.constFold norm n) = false := by simp [hc]
        simp [Machine.runFrom, ihMachine, ihStep, this, satisfies, hc']

/-- **the inherited checker on one method** -/
theorem ih_spec (cfg : Cfg) (norm : String → String) (n : String) (r : Range) (as : List IAct)
    (hne : noEnterI as = true) :
    (ihMachine cfg norm).run (.enter n r :: as) =
      if E8.inheritedMethods.contains (keyOf cfg.constFold norm n) && !as.any (satisfies cfg norm n) then [(n, r)] else [] := by
  have := ih_spec_from cfg norm n r as false hne
  simp only [ihMachine] at this
  simp only [Machine.run, Machine.runFrom, ihMachine, ihStep, ihCheck, List.nil_append]
  have h2 : (if cfg.ihResets = true then false else false) = false := by split <;> rfl
  rw [h2, this]
  simp [ihCheck]

/-! ### renaming -/

def renAct (ρ : String → String) : TAct → TAct
  | .decl n r => .decl (ρ n) r
  | .hit n => .hit (ρ n)
  | a => a

def renOut (norm ρ : String → String) : TOut → TOut
  | .unhit _ n r => .unhit (norm (ρ n)) (ρ n) r
  | .dup r => .dup r

def nameOf : TAct → Option String
  | .decl n _ => some n
  | .hit n => some n
  | _ => none

/-- the names a method declares or uses -/
def namesOf (as : List TAct) : List String := as.filterMap nameOf

def renSt {F : Type} (norm ρ : String → String) (s : List (String × TEntry F)) : List (String × TEntry F) :=
  s.map (fun p => (norm (ρ p.2.name), ⟨ρ p.2.name, p.2.rng, p.2.flag⟩))

/-- keys are the folded declared names, and the names are among `N` -/
def StInv {F : Type} (norm : String → String) (N : List String) (s : List (String × TEntry F)) : Prop :=
  ∀ p ∈ s, p.1 = norm p.2.name ∧ p.2.name ∈ N

/-- `ρ` respects `norm` on `N`: two names of `N` collide after renaming iff they collided before -/
def Respects (norm ρ : String → String) (N : List String) : Prop :=
  ∀ a ∈ N, ∀ b ∈ N, (norm (ρ a) = norm (ρ b) ↔ norm a = norm b)

theorem beq_congr_iff {a b c d : String} (h : a = b ↔ c = d) : (a == b) = (c == d) := by
  by_cases h1 : a = b
  · have h2 := h.1 h1
    rw [beq_iff_eq.2 h1, beq_iff_eq.2 h2]
  · have h2 : ¬ c = d := fun x => h1 (h.2 x)
    rw [beq_eq_false_iff_ne.2 h1, beq_eq_false_iff_ne.2 h2]

theorem report_renSt {F : Type} (fl : Flag F) (norm ρ : String → String) (s : List (String × TEntry F)) :
    report fl (renSt norm ρ s) = (report fl s).map (renOut norm ρ) := by
  simp only [report, renSt, List.filterMap_map, List.map_filterMap]
  apply filterMap_congr'
  intro p _
  simp only [Function.comp]
  split <;> simp [renOut]

theorem lookup_renSt {F : Type} (norm ρ : String → String) (N : List String) (hρ : Respects norm ρ N)
    (n : String) (hn : n ∈ N) (s : List (String × TEntry F)) (hs : StInv norm N s) :
    ((renSt norm ρ s).lookup (norm (ρ n))).isSome = (s.lookup (norm n)).isSome := by
  induction s with
  | nil => rfl
  | cons p rest ih =>
    obtain ⟨k, v⟩ := p
    have hp := hs (k, v) List.mem_cons_self
    simp only at hp
    have hrest : StInv norm N rest := fun q hq => hs q (List.mem_cons_of_mem _ hq)
    have e : (norm (ρ n) == norm (ρ v.name)) = (norm n == k) := by
      rw [hp.1]
      exact beq_congr_iff (hρ n hn v.name hp.2)
    simp only [renSt, List.map_cons, List.lookup, e]
    cases norm n == k
    · exact ih hrest
    · rfl

theorem mapBump_renSt {F : Type} (fl : Flag F) (norm ρ : String → String) (N : List String) (hρ : Respects norm ρ N)
    (n : String) (hn : n ∈ N) (s : List (String × TEntry F)) (hs : StInv norm N s) :
    mapBump fl (norm (ρ n)) (renSt norm ρ s) = renSt norm ρ (mapBump fl (norm n) s) := by
  simp only [mapBump, renSt, List.map_map]
  apply List.map_congr_left
  intro p hp
  have h := hs p hp
  have e : (norm (ρ p.2.name) == norm (ρ n)) = (p.1 == norm n) := by
    rw [h.1]
    exact beq_congr_iff (hρ p.2.name h.2 n hn)
  simp only [Function.comp, e]
  split <;> rfl

theorem mapInsert_renSt {F : Type} (norm ρ : String → String) (N : List String) (hρ : Respects norm ρ N)
    (n : String) (hn : n ∈ N) (r : Range) (z : F) (s : List (String × TEntry F)) (hs : StInv norm N s) :
    mapInsert (norm (ρ n)) ⟨ρ n, r, z⟩ (renSt norm ρ s) = renSt norm ρ (mapInsert (norm n) ⟨n, r, z⟩ s) := by
  induction s with
  | nil => rfl
  | cons p rest ih =>
    have h := hs p List.mem_cons_self
    have hrest : StInv norm N rest := fun q hq => hs q (List.mem_cons_of_mem _ hq)
    have e : (norm (ρ p.2.name) == norm (ρ n)) = (p.1 == norm n) := by
      rw [h.1]
      exact beq_congr_iff (hρ p.2.name h.2 n hn)
    simp only [renSt, List.map_cons, mapInsert, e]
    cases hpk : p.1 == norm n
    · simp only [Bool.false_eq_true, ↓reduceIte, List.map_cons]
      have := ih hrest
      simp only [renSt] at this
      rw [this]
    · simp

theorem mem_mapInsert {β : Type} {k : String} {v : β} {l : List (String × β)} {q : String × β}
    (h : q ∈ mapInsert k v l) : q = (k, v) ∨ q ∈ l := by
  induction l with
  | nil => simp [mapInsert] at h; exact Or.inl h
  | cons p rest ih =>
    simp only [mapInsert] at h
    split at h
    · simp only [List.mem_cons] at h ⊢
      rcases h with h | h
      · exact Or.inl h
      · exact Or.inr (Or.inr h)
    · simp only [List.mem_cons] at h ⊢
      rcases h with h | h
      · exact Or.inr (Or.inl h)
      · rcases ih h with h | h
        · exact Or.inl h
        · exact Or.inr (Or.inr h)

theorem stInv_mapInsert {F : Type} (norm : String → String) (N : List String) (n : String) (hn : n ∈ N) (r : Range) (z : F)
    (s : List (String × TEntry F)) (hs : StInv norm N s) : StInv norm N (mapInsert (norm n) ⟨n, r, z⟩ s) := by
  intro q hq
  rcases mem_mapInsert hq with rfl | h
  · exact ⟨rfl, hn⟩
  · exact hs q h

theorem stInv_mapBump {F : Type} (fl : Flag F) (norm : String → String) (N : List String) (k : String)
    (s : List (String × TEntry F)) (hs : StInv norm N s) : StInv norm N (mapBump fl k s) := by
  intro q hq
  simp only [mapBump, List.mem_map] at hq
  obtain ⟨p, hp, rfl⟩ := hq
  have := hs p hp
  split <;> exact this

theorem tracker_rename_from {F : Type} (fl : Flag F) (c : TCfg) (norm ρ : String → String)
    (hi : c.foldIns = true) (hk : c.foldLook = true) (N : List String) (hρ : Respects norm ρ N) (as : List TAct) :
    ∀ (s : List (String × TEntry F)), StInv norm N s → (∀ n ∈ namesOf as, n ∈ N) →
      (tracker fl c norm).runFrom (renSt norm ρ s) (as.map (renAct ρ)) =
        ((tracker fl c norm).runFrom s as).map (renOut norm ρ) := by
  induction as with
  | nil => intro s _ _; simp [Machine.runFrom, tracker, report_renSt]
  | cons a rest ih =>
    intro s hs hN
    have hN' : ∀ n ∈ namesOf rest, n ∈ N := by
      intro n hn
      apply hN
      simp only [namesOf, List.filterMap_cons]
      cases nameOf a <;> simp_all [namesOf]
    cases a with
    | enter =>
      have h0 : StInv norm N ([] : List (String × TEntry F)) := fun p hp => by simp at hp
      have e1 := ih s hs hN'
      have e2 := ih [] h0 hN'
      simp only [tracker, renSt, List.map_nil] at e1 e2
      simp only [List.map_cons, renAct, Machine.runFrom, tracker, trackerStep, List.map_append, report_renSt]
      cases c.resets
      · simp only [Bool.false_eq_true, ↓reduceIte]; rw [← e1]; rfl
      · simp only [↓reduceIte]; rw [← e2]
    | other =>
      have e1 := ih s hs hN'
      simp only [tracker] at e1
      simp only [List.map_cons, renAct, Machine.runFrom, tracker, trackerStep, List.nil_append]
      exact e1
    | hit n =>
      have hn : n ∈ N := hN n (by simp [namesOf, nameOf])
      have e1 := ih (mapBump fl (norm n) s) (stInv_mapBump fl norm N _ s hs) hN'
      simp only [tracker] at e1
      simp only [List.map_cons, renAct, Machine.runFrom, tracker, trackerStep, List.nil_append, keyOf, hk, ↓reduceIte]
      rw [mapBump_renSt fl norm ρ N hρ n hn s hs]
      exact e1
    | decl n r =>
      have hn : n ∈ N := hN n (by simp [namesOf, nameOf])
      simp only [List.map_cons, renAct, Machine.runFrom, tracker, trackerStep, keyOf, hk, hi, ↓reduceIte,
        lookup_renSt norm ρ N hρ n hn s hs]
      cases hdup : (c.dupError && (s.lookup (norm n)).isSome)
      · simp only [Bool.false_eq_true, ↓reduceIte, List.nil_append]
        rw [mapInsert_renSt norm ρ N hρ n hn r fl.zero s hs]
        have e1 := ih _ (stInv_mapInsert norm N n hn r fl.zero s hs) hN'
        simp only [tracker] at e1
        exact e1
      · simp only [↓reduceIte, List.map_append, List.map_cons, List.map_nil, renOut]
        have e1 := ih s hs hN'
        simp only [tracker] at e1
        rw [e1]

/-- **consistent renaming**: a renaming that respects `norm` on the names of the method renames
    the reports and changes nothing else -/
theorem tracker_rename {F : Type} (fl : Flag F) (c : TCfg) (norm ρ : String → String)
    (hi : c.foldIns = true) (hk : c.foldLook = true) (as : List TAct) (hρ : Respects norm ρ (namesOf as)) :
    (tracker fl c norm).run (as.map (renAct ρ)) = ((tracker fl c norm).run as).map (renOut norm ρ) := by
  have := tracker_rename_from fl c norm ρ hi hk (namesOf as) hρ as [] (fun p hp => by simp at hp) (fun n hn => hn)
  simpa [Machine.run, tracker, renSt] using this

/-! ### hits of names the method does not declare are irrelevant -/

theorem mapBump_foreign {F : Type} (fl : Flag F) (k : String) (s : List (String × TEntry F)) (h : ∀ p ∈ s, p.1 ≠ k) :
    mapBump fl k s = s := by
  unfold mapBump
  conv => rhs; rw [← List.map_id s]
  apply List.map_congr_left
  intro p hp
  have : (p.1 == k) = false := by simp [h p hp]
  simp [this]

theorem tracker_erase_from {F : Type} (fl : Flag F) (c : TCfg) (norm : String → String)
    (hi : c.foldIns = true) (hk : c.foldLook = true) (K : List String) (as : List TAct) :
    ∀ (s : List (String × TEntry F)), (∀ p ∈ s, p.1 ∈ K) → (∀ d ∈ decls as, norm d.1 ∈ K) →
      (tracker fl c norm).runFrom s (as.map (eraseForeign norm K)) = (tracker fl c norm).runFrom s as := by
  induction as with
  | nil => intro s _ _; rfl
  | cons a rest ih =>
    intro s hs hd
    cases a with
    | enter =>
      have hd' : ∀ d ∈ decls rest, norm d.1 ∈ K := by simpa using hd
      simp only [List.map_cons, eraseForeign, foreign, Bool.false_eq_true, ↓reduceIte, Machine.runFrom, tracker, trackerStep]
      congr 1
      cases c.resets
      · have := ih s hs hd'; simpa [tracker] using this
      · have := ih [] (by simp) hd'; simpa [tracker] using this
    | other =>
      have hd' : ∀ d ∈ decls rest, norm d.1 ∈ K := by simpa using hd
      simp only [List.map_cons, eraseForeign, foreign, ↓reduceIte, Machine.runFrom, tracker, trackerStep, List.nil_append]
      have := ih s hs hd'; simpa [tracker] using this
    | decl n r =>
      have hn : norm n ∈ K := hd (n, r) (by simp)
      have hd' : ∀ d ∈ decls rest, norm d.1 ∈ K := fun d h => hd d (by simp [h])
      simp only [List.map_cons, eraseForeign, foreign, Bool.false_eq_true, ↓reduceIte, Machine.runFrom, tracker, trackerStep,
        keyOf, hi, hk]
      cases (c.dupError && (s.lookup (norm n)).isSome)
      · simp only [Bool.false_eq_true, ↓reduceIte, List.nil_append]
        have hs' : ∀ p ∈ mapInsert (norm n) (⟨n, r, fl.zero⟩ : TEntry F) s, p.1 ∈ K := by
          intro p hp
          rcases mem_mapInsert hp with rfl | h
          · exact hn
          · exact hs p h
        have := ih _ hs' hd'; simpa [tracker] using this
      · simp only [↓reduceIte]
        congr 1
        have := ih s hs hd'; simpa [tracker] using this
    | hit n =>
      have hd' : ∀ d ∈ decls rest, norm d.1 ∈ K := by simpa using hd
      by_cases hf : K.contains (norm n) = true
      · simp only [List.map_cons, eraseForeign, foreign, hf, Bool.not_true, Bool.false_eq_true, ↓reduceIte, Machine.runFrom,
          tracker, trackerStep, List.nil_append]
        have hs' : ∀ p ∈ mapBump fl (keyOf c.foldLook norm n) s, p.1 ∈ K := by
          intro p hp
          simp only [mapBump, List.mem_map] at hp
          obtain ⟨q, hq, rfl⟩ := hp
          have := hs q hq
          split <;> exact this
        have := ih _ hs' hd'; simpa [tracker] using this
      · have hf' : K.contains (norm n) = false := by simpa using hf
        simp only [List.map_cons, eraseForeign, foreign, hf', Bool.not_false, ↓reduceIte, Machine.runFrom, tracker, trackerStep,
          List.nil_append, keyOf, hk]
        have hne : ∀ p ∈ s, p.1 ≠ norm n := by
          intro p hp heq
          have := hs p hp
          rw [heq] at this
          simp only [List.contains_eq_mem, decide_eq_false_iff_not] at hf'
          exact hf' this
        rw [mapBump_foreign fl _ s hne]
        have := ih s hs hd'; simpa [tracker] using this

theorem erase_eq_of_agree (norm : String → String) (K : List String) {a b : TAct} (h : agreeUpTo norm K a b = true) :
    eraseForeign norm K a = eraseForeign norm K b := by
  simp only [agreeUpTo, Bool.or_eq_true, beq_iff_eq, Bool.and_eq_true] at h
  rcases h with rfl | ⟨ha, hb⟩
  · rfl
  · simp [eraseForeign, ha, hb]

/-- **readings that agree up to foreign hits give the same reports** (one method) -/
theorem tracker_congr {F : Type} {α : Type} (fl : Flag F) (c : TCfg) (norm : String → String)
    (hi : c.foldIns = true) (hk : c.foldLook = true) (f g : α → TAct) (evs : List α)
    (h : ∀ e ∈ evs, agreeUpTo norm ((decls (evs.map g)).map (fun d => norm d.1)) (f e) (g e) = true) :
    (tracker fl c norm).run (.enter :: evs.map f) = (tracker fl c norm).run (.enter :: evs.map g) := by
  let K := (decls (evs.map g)).map (fun d => norm d.1)
  have hg : ∀ d ∈ decls (evs.map g), norm d.1 ∈ K := fun d hd => List.mem_map.2 ⟨d, hd, rfl⟩
  have hf : ∀ d ∈ decls (evs.map f), norm d.1 ∈ K := by
    intro d hd
    simp only [decls, List.mem_filterMap, List.mem_map] at hd
    obtain ⟨a, ⟨e, he, rfl⟩, ha⟩ := hd
    have hag := h e he
    simp only [agreeUpTo, Bool.or_eq_true, beq_iff_eq, Bool.and_eq_true] at hag
    rcases hag with heq | ⟨hfo, _⟩
    · apply hg
      simp only [decls, List.mem_filterMap, List.mem_map]
      exact ⟨g e, ⟨e, he, rfl⟩, heq ▸ ha⟩
    · cases hfe : f e <;> simp_all [foreign, declOf]
  have e1 := tracker_erase_from fl c norm hi hk K (.enter :: evs.map f) [] (by simp) (by simpa using hf)
  have e2 := tracker_erase_from fl c norm hi hk K (.enter :: evs.map g) [] (by simp) (by simpa using hg)
  have e3 : (TAct.enter :: evs.map f).map (eraseForeign norm K) = (TAct.enter :: evs.map g).map (eraseForeign norm K) := by
    simp only [List.map_cons, List.map_map]
    congr 1
    apply List.map_congr_left
    intro e he
    exact erase_eq_of_agree norm K (h e he)
  simp only [Machine.run, tracker] at e1 e2 ⊢
  rw [← e1, ← e2, e3]

theorem filterMap_ite_map {α β : Type} (p : α → Bool) (f : α → β) (l : List α) :
    l.filterMap (fun d => if p d then none else some (f d)) = (l.filter (fun d => !p d)).map f := by
  induction l with
  | nil => rfl
  | cons x rest ih => cases h : p x <;> simp [h, ih]

/-! ### visits before the first method produce nothing in the stateful analyzers -/

def quiet : TAct → Bool
  | .hit _ => true
  | .other => true
  | _ => false

theorem tracker_quiet {F : Type} (fl : Flag F) (c : TCfg) (norm : String → String) (as : List TAct)
    (h : ∀ a ∈ as, quiet a = true) : (tracker fl c norm).run as = [] := by
  induction as with
  | nil => simp [Machine.run, Machine.runFrom, tracker, report]
  | cons a rest ih =>
    have hr := ih (fun x hx => h x (List.mem_cons_of_mem _ hx))
    have ha := h a List.mem_cons_self
    simp only [Machine.run, tracker] at hr ⊢
    cases a with
    | enter => simp [quiet] at ha
    | decl n r => simp [quiet] at ha
    | hit n => simpa [Machine.runFrom, trackerStep, mapBump] using hr
    | other => simpa [Machine.runFrom, trackerStep] using hr

theorem ih_quiet (cfg : Cfg) (norm : String → String) (as : List IAct) (h : noEnterI as = true) (b : Bool) :
    (ihMachine cfg norm).runFrom ⟨none, b⟩ as = [] := by
  induction as generalizing b with
  | nil => simp [Machine.runFrom, ihMachine, ihCheck]
  | cons a rest ih =>
    have hne' : noEnterI rest = true := by
      simp only [noEnterI, List.all_cons, Bool.and_eq_true] at h ⊢; exact h.2
    cases a with
    | enter m q => simp [noEnterI] at h
    | pass => have := ih hne' true; simp only [ihMachine] at this; simp [Machine.runFrom, ihMachine, ihStep, this]
    | other => have := ih hne' b; simp only [ihMachine] at this; simp [Machine.runFrom, ihMachine, ihStep, this]
    | inh c => have := ih hne' b; simp only [ihMachine] at this; simp [Machine.runFrom, ihMachine, ihStep, this]

theorem perm_flatMap_congr {α β : Type} (l : List α) (f g : α → List β) (h : ∀ x ∈ l, (f x).Perm (g x)) :
    (l.flatMap f).Perm (l.flatMap g) := by
  induction l with
  | nil => simp
  | cons a rest ih =>
    simp only [List.flatMap_cons]
    exact List.Perm.append (h a List.mem_cons_self) (ih (fun x hx => h x (List.mem_cons_of_mem _ hx)))

theorem contains_map_any (x : String) (f : String → String) (l : List String) :
    (l.map f).contains x = l.any (fun T => x == f T) := by
  induction l with
  | nil => rfl
  | cons a rest ih => rw [List.map_cons, List.contains_cons, ih, List.any_cons]

end Gold.Lint
