import GoldModel.Lemmas.RangeInvOql
/-!
T5, the Gold grammar, part 8: global variables, procedures and functions (with their resliced
bodies), the top level — and the instantiation of the generic soundness theorem: every nonterminal
and every memoised parser of the Gold grammar satisfies its postcondition, with every fuel.
-/
namespace Gold.C08
open Gold Gold.Peg Gold.Gram

variable {Z : Pos} {F : Nat}

/-! ## method bodies -/

theorem bodyNode_ok {lo hi : Pos} {rs endNode : Tree} (hrs : PReslice Z (PList (PReal Z)) lo hi rs) (he : NodeOK Z endNode) :
    NodeOK Z (bodyNode rs endNode) := by
  obtain ⟨vi, ev, sl, rfl, _, hvi, _, ⟨r, rfl, hr1, hr2⟩⟩ := hrs
  unfold bodyNode
  nth_simp
  rcases hvi with rfl | ⟨hi', l, rfl, hl⟩
  · simp only [isNone_none, if_true]
    exact NodeOK.mk_plain (by decide) he.rng.1 he.rng.2 NodeOKL.nil
  · simp only [isNone_list, Bool.false_eq_true, if_false, kids_list]
    cases l with
    | nil => exact NodeOK.mk_plain (by decide) hr1 hr2 NodeOKL.nil
    | cons first rest =>
      obtain ⟨m, hf, hr⟩ := hl
      obtain ⟨i1, i2⟩ := lastD_item good_real hr hf.1
      simp only [lastD_cons]
      exact (span_real (k := "method_body") (i := "method_body") (attrs := []) (by decide) (by decide) hf.1 (PListL.le good_real hr)
        i1.2.2.1 i2 (NodeOKL.cons hf.ok (hr.nodeOK good_real))).ok

/-- what `procEndNode` / `funcEndNode` yield: a checked node after the first token, ending no earlier than the name -/
structure EndNode (Z : Pos) (first name e : Tree) : Prop where
  ok : NodeOK Z e
  after : first.rng.s.le e.rng.s = true
  sel : name.rng.e.le e.rng.e = true

theorem method_node {lo a b m1 m2 hi : Pos} {k : String} {first name endNode rs : Tree} {kids0 : List Tree} {attrs : List String}
    (hk : groupKinds.contains k = false) (hf : PLeaf Z lo a first) (hn : PTight Z a b name) (hb : b.le m1 = true)
    (he : EndNode Z first name endNode) (hrs : POpt (PReslice Z (PList (PReal Z))) m1 m2 rs) (hend : m2.le hi = true)
    (hk0 : NodeOKL Z kids0) :
    PReal Z lo hi (mk k name.ident
      (Range.span first.rng (if (if rs.isNone then Tree.none else rs.nth 1).isSome then (if rs.isNone then Tree.none else rs.nth 1).rng
        else endNode.rng))
      (kids0 ++ (if rs.isNone then [] else [bodyNode rs endNode])) attrs (some name.rng)) := by
  have ff := hf.facts; have fn := hn.1.facts; have gn := hn.2
  have hsel1 : first.rng.s.le name.rng.s = true := by pos_chain
  have hm2 : m1.le m2 = true := by
    rcases hrs with ⟨_, h⟩ | ⟨_, _, _, _, h, _⟩ <;> exact h
  have hfhi : first.rng.s.le hi = true := by pos_chain
  -- the end of the node
  have hendR : ∀ (r : Range), (r = endNode.rng ∨ ∃ ev, PLeaf Z m1 m2 ev ∧ r = ev.rng) →
      first.rng.s.le r.s = true ∧ r.s.le r.e = true ∧ r.e.line ≤ Z.line ∧ name.rng.e.le r.e = true := by
    rintro r (rfl | ⟨ev, hev, rfl⟩)
    · exact ⟨he.after, he.ok.rng.1, he.ok.rng.2, he.sel⟩
    · have fe := hev.facts
      exact ⟨by pos_chain, fe.2.2.1, fe.2.2.2.1, by pos_chain⟩
  have build : ∀ (r : Range) (kids : List Tree), (r = endNode.rng ∨ ∃ ev, PLeaf Z m1 m2 ev ∧ r = ev.rng) → NodeOKL Z kids →
      PReal Z lo hi (mk k name.ident (Range.span first.rng r) kids attrs (some name.rng)) := by
    intro r kids hr hkids
    obtain ⟨r1, r2, r3, r4⟩ := hendR r hr
    refine PReal.mk_sel hk ff.1 hfhi ?_ r3 hkids hn.1.ok.rng.1 ?_
    · simp only [Range.span, Range.ok]; exact Pos.le_trans r1 r2
    · simp only [Range.within, Range.span, Bool.and_eq_true]; exact ⟨hsel1, r4⟩
  rcases hrs with ⟨rfl, _⟩ | hrs
  · simp only [isNone_none, if_true, isSome_none, Bool.false_eq_true, if_false, List.append_nil]
    exact build _ _ (Or.inl rfl) hk0
  · have hbody := bodyNode_ok hrs he.ok
    obtain ⟨vi, ev, sl, rfl, _, _, hev, _⟩ := hrs
    simp only [isNone_seq, Bool.false_eq_true, if_false] at hbody ⊢
    nth_simp
    rcases hev with rfl | hev
    · simp only [isSome_none, Bool.false_eq_true, if_false]
      exact build _ _ (Or.inl rfl) (NodeOKL.append hk0 (NodeOKL.one hbody))
    · have := hev.item.isNone
      simp only [Tree.isSome, this, Bool.not_false, if_true]
      exact build _ _ (Or.inr ⟨ev, hev, rfl⟩) (NodeOKL.append hk0 (NodeOKL.one hbody))

section
variable (hc : Ctx Γ Δ Z (QΓ Z) (QΔ Z) F)
include hc

theorem r_methodMods : Der Γ Δ Z F (.ref nMethodMods) (PList (PLeaf Z)) := hc.1 nMethodMods
theorem r_body : Der Γ Δ Z F (.ref nBody) (PList (PReal Z)) := hc.1 nBody

theorem d_gProc : Der Γ Δ Z F gProc (PReal Z) := by
  unfold gProc
  refine Der.map (Der.emit (Q := PSeqN [PSeqN [PLeaf Z, PTight Z, POpt (PReal Z), PList (PLeaf Z)],
      POpt (PReslice Z (PList (PReal Z)))]) (Der.dep ?_ (Der.reslice (r_body hc))) ?_) ?_
  · der_seq
    · exact Der.tok _
    · exact d_gMethodNameT hc
    · exact r_paramList hc
    · exact r_methodMods hc
  · rintro lo hi v d ⟨_, rfl, _, _, m1, rfl, ⟨_, rfl, first, _, n1, rfl, hf, rest⟩, rs, _, m2, rfl, hrs, rfl, hend⟩ hhi hd
    simp only [nth_seq, List.getElem?_cons_zero, List.getElem?_cons_succ, Option.getD_some] at hd
    by_cases hb : (rs.isSome && (rs.nth 1).isNone) = true
    · simp only [hb, ↓reduceIte, Option.some.injEq] at hd
      subst hd; exact hf.ok.rng
    · simp [hb] at hd
  · rintro lo hi v ⟨_, rfl, _, _, m1, rfl, ⟨_, rfl, first, _, n1, rfl, hf, name, _, n2, rfl, hn, ps, _, n3, rfl, hps, ml, _, n4, rfl, hml,
      rfl, hend2⟩, rs, _, m2, rfl, hrs, rfl, hend⟩
    nth_simp
    have ff := hf.facts; have fn := hn.1.facts; have gn := hn.2
    have e3 := POpt.le good_real hps
    obtain ⟨hmods, hmods'⟩ := modsNode_ok hml
    have e4 := POpt.le good_real hmods'
    have hE : EndNode Z first name (procEndNode (Tree.seq [first, name, ps, ml])) := by
      unfold procEndNode
      nth_simp
      rcases hmods' with ⟨hmn, _⟩ | hm
      · simp only [hmn, isSome_none, Bool.false_eq_true, if_false]
        rcases hps with ⟨rfl, _⟩ | hp
        · simp only [isSome_none, Bool.false_eq_true, if_false]
          exact ⟨hn.1.ok, by pos_chain, Pos.le_refl _⟩
        · have fp := hp.facts
          simp only [Tree.isSome, fp.2.2.2.2.2, Bool.not_false, if_true]
          exact ⟨hp.ok, by pos_chain, by pos_chain⟩
      · have fm := hm.facts
        simp only [Tree.isSome, fm.2.2.2.2.2, Bool.not_false, if_true]
        exact ⟨hm.ok, by pos_chain, by pos_chain⟩
    exact method_node (by decide) hf hn (show n2.le m1 = true by pos_chain) hE hrs hend
      (NodeOKL.cons hn.1.ok (NodeOKL.optList good_real hps))

theorem d_gFunc : Der Γ Δ Z F gFunc (PReal Z) := by
  unfold gFunc
  refine Der.map (Der.emit (Q := PSeqN [PSeqN [PLeaf Z, PTight Z, POpt (PReal Z), PLeaf Z, PReal Z, PList (PLeaf Z)],
      POpt (PReslice Z (PList (PReal Z)))]) (Der.dep ?_ (Der.reslice (r_body hc))) ?_) ?_
  · der_seq
    · exact Der.tok _
    · exact d_gMethodNameT hc
    · exact r_paramList hc
    · exact Der.tok _
    · exact r_typeBasic hc
    · exact r_methodMods hc
  · rintro lo hi v d ⟨_, rfl, _, _, m1, rfl, ⟨_, rfl, first, _, n1, rfl, hf, rest⟩, rs, _, m2, rfl, hrs, rfl, hend⟩ hhi hd
    simp only [nth_seq, List.getElem?_cons_zero, List.getElem?_cons_succ, Option.getD_some] at hd
    by_cases hb : (rs.isSome && (rs.nth 1).isNone) = true
    · simp only [hb, ↓reduceIte, Option.some.injEq] at hd
      subst hd; exact hf.ok.rng
    · simp [hb] at hd
  · rintro lo hi v ⟨_, rfl, _, _, m1, rfl, ⟨_, rfl, first, _, n1, rfl, hf, name, _, n2, rfl, hn, ps, _, n3, rfl, hps, rt, _, n4, rfl, hrt,
      ret, _, n5, rfl, hret, ml, _, n6, rfl, hml, rfl, hend2⟩, rs, _, m2, rfl, hrs, rfl, hend⟩
    nth_simp
    have ff := hf.facts; have fn := hn.1.facts; have gn := hn.2
    have e3 := POpt.le good_real hps
    have f4 := hrt.facts; have f5 := hret.facts
    obtain ⟨hmods, hmods'⟩ := modsNode_ok hml
    have e6 := POpt.le good_real hmods'
    have hE : EndNode Z first name (funcEndNode (Tree.seq [first, name, ps, rt, ret, ml])) := by
      unfold funcEndNode
      nth_simp
      rcases hmods' with ⟨hmn, _⟩ | hm
      · simp only [hmn, isSome_none, Bool.false_eq_true, if_false]
        exact ⟨hret.ok, by pos_chain, by pos_chain⟩
      · have fm := hm.facts
        simp only [Tree.isSome, fm.2.2.2.2.2, Bool.not_false, if_true]
        exact ⟨hm.ok, by pos_chain, by pos_chain⟩
    exact method_node (by decide) hf hn (show n2.le m1 = true by pos_chain) hE hrs hend
      (NodeOKL.append (NodeOKL.two hn.1.ok hret.ok) (NodeOKL.optList good_real hps))

theorem d_gGlobalVar : Der Γ Δ Z F gGlobalVar (PReal Z) := by
  unfold gGlobalVar
  refine Der.map (Q := PSeqN [PAny, POpt (PLeaf Z), PLeafT Z, PLeaf Z, PReal Z, PList (PLeaf Z), PSeqN [PAny, POpt (PReal Z)]]) ?_ ?_
  · der_seq
    · exact d_optAnn hc
    · exact Der.opt (Der.tok _)
    · exact Der.tokT _ (by decide)
    · exact Der.tok _
    · exact r_type hc
    · exact hc.1 nMemberMods
    · exact Der.dep (Der.anyOpt good_leaf (Der.tok _)) (r_identifier hc)
  · rintro lo hi v ⟨_, rfl, v0, _, m1, rfl, h0, v1, _, m2, rfl, h1, v2, _, m3, rfl, ⟨h2, g2⟩, v3, _, m4, rfl, h3, v4, _, m5, rfl, h4, v5, _, m6, rfl, h5, v6, _, m7, rfl, ⟨_, rfl, w0, _, n1, rfl, h6, w1, _, n2, rfl, h7, rfl, hend2⟩, rfl, hend⟩
    nth_simp
    have e0 : lo.le m1 = true := h0
    have e1 := POpt.le good_leaf h1
    have f2 := h2.facts; have f3 := h3.facts; have f4 := h4.facts
    obtain ⟨hmods, _⟩ := modsNode_ok h5
    have e5 := POpt.le good_real hmods
    have e6 : m6.le n1 = true := h6
    have e7 := POpt.le good_real h7
    have hra : RA Z m4 (if w1.isSome then w1.rng else if (memberModsNode v5).isSome then (memberModsNode v5).rng else v4.rng) :=
      RA.opt good_real h7 (by pos_chain) (RA.opt good_real hmods (by pos_chain) (RA.item h4.1 (Pos.le_refl _)))
    have hkids : NodeOKL Z ([v4] ++ Gram.optList w1) := NodeOKL.cons h4.ok (NodeOKL.optList good_real h7)
    rcases h1 with ⟨rfl, _⟩ | h1
    · simp only [isNone_none, if_true]
      exact span_real_ra_sel (a := v2) (n := v2) (by decide) (good_item.mono h2.item (by pos_chain) (Pos.le_refl _)) (by pos_chain)
        (hra.mono (by pos_chain)) hkids h2.ok (Pos.le_refl _) (Pos.le_trans (show v2.rng.e.le m4 = true by pos_chain)
          (Pos.le_trans hra.1 hra.2.1))
    · have f1 := h1.facts
      simp only [f1.2.2.2.2.2, Bool.false_eq_true, if_false]
      exact span_real_ra_sel (a := v1) (n := v2) (by decide) (good_item.mono h1.item e0 (Pos.le_refl _)) (by pos_chain)
        (hra.mono (by pos_chain)) hkids h2.ok (by pos_chain) (Pos.le_trans (show v2.rng.e.le m4 = true by pos_chain)
          (Pos.le_trans hra.1 hra.2.1))

omit hc in
theorem PReal.nodeOK {lo hi : Pos} {v : Tree} (h : PReal Z lo hi v) : PNodeOK Z lo hi v := ⟨h.ok, h.le⟩

theorem d_gTopItem : Der Γ Δ Z F gTopItem (PNodeOK Z) := by
  unfold gTopItem
  have w : ∀ {g : G}, Der Γ Δ Z F g (PReal Z) → Der Γ Δ Z F g (PNodeOK Z) := fun h => h.weaken (fun _ _ _ h => h.nodeOK)
  refine Der.alt (w (d_gProc hc)) (Der.alt (w (d_gFunc hc)) (Der.alt (w d_gComment) (Der.alt (w (d_gClass hc))
    (Der.alt (w (d_gModule hc)) (Der.alt (w (d_gUses hc)) (Der.alt (w (d_gTypeDecl hc)) (Der.alt (w d_gConstDecl)
    (Der.alt (w (d_gGlobalVar hc)) (hc.1 nAnnotations)))))))))

theorem d_gTop : Der Γ Δ Z F gTop (PTopList Z) := by
  unfold gTop
  refine Der.ifEof ((Der.eps _).weaken (fun _ _ _ h => ⟨[], h.1, NodeOKL.nil, h.2⟩))
    (Der.map (Der.seq (Der.recover (d_gTopItem hc)) (hc.1 nTop)) ?_)
  rintro lo hi v ⟨_, rfl, x, _, m1, rfl, hx, tl, _, m2, rfl, ⟨l, rfl, hl, hle⟩, rfl, hend⟩
  shape_simp
  have hxle : lo.le m1 = true := by
    rcases hx with ⟨_, h⟩ | ⟨_, h⟩ <;> exact h
  refine ⟨_, rfl, ?_, Pos.le_trans hxle (Pos.le_trans hle hend)⟩
  rcases hx with ⟨rfl, _⟩ | ⟨hx, _⟩
  · shape_simp; exact hl
  · by_cases hn : x.isNone = true
    · simp only [hn, if_true, List.nil_append]; exact hl
    · simp only [hn, Bool.false_eq_true, if_false]
      exact NodeOKL.cons hx hl

/-! ## every nonterminal -/

theorem gold_Γ : ∀ n, Der Γ Δ Z F (Γ n) (QΓ Z n)
  | 0 => d_gTop hc
  | 1 => d_gType hc
  | 2 => d_gIdentList hc
  | 3 => Der.sepListRec (d_gEnumVariant hc) (hc.1 nEnumRec)
  | 4 => Der.sepListRec (d_gParamDecl hc) (hc.1 nParamRec)
  | 5 => Der.sepListRec (r_primary hc) (hc.1 nPrimaryRec)
  | 6 => Der.sepListRec (r_expr hc) (hc.1 nExprRec)
  | 7 => Der.sepListRec (Der.alt (r_literalBasic hc) (r_identifier hc)) (hc.1 nValueRec)
  | 8 => Der.sepListRec (d_gSelectItem hc) (hc.1 nSelectRec)
  | 9 => Der.sepListRec (d_gFromItem hc) (hc.1 nFromRec)
  | 10 => Der.sepListRec d_gAsterisk (hc.1 nAsteriskRec)
  | 11 => Der.sepListRec (d_gOrderByItem hc) (hc.1 nOrderRec)
  | 12 => Der.sepListRec (r_dotOps hc) (hc.1 nDotOpsRec)
  | 13 => d_gRecFields hc
  | 14 => d_gMemberMods hc
  | 15 => d_gMethodMods hc
  | 16 => d_gBody hc
  | 17 => d_gStatement hc
  | 18 => hc.2 1 true
  | 19 => hc.2 0 true
  | 20 => d_gDotOps hc
  | 21 => d_gDotTail hc
  | 22 => d_gFactorTail hc
  | 23 => d_gTermTail hc
  | 24 => d_gBit1Tail hc
  | 25 => d_gBit2Tail hc
  | 26 => d_gShiftTail hc
  | 27 => d_gCompareTail hc
  | 28 => d_gAndTail hc
  | 29 => d_gOrTail hc
  | 30 => d_composedTail hc
  | 31 => d_gForRangeTail hc
  | 32 => d_gForEachInTail hc
  | 33 => d_gIfLoop hc
  | 34 => d_gIfUntil hc
  | 35 => Der.untilStop (r_statement hc) (hc.1 nUntilEndWhen)
  | 36 => Der.untilStop (r_statement hc) (hc.1 nUntilEndSwitch)
  | 37 => Der.untilStop (r_statement hc) (hc.1 nUntilEndFor)
  | 38 => Der.untilStop (r_statement hc) (hc.1 nUntilEndWhile)
  | 39 => Der.untilStop (r_statement hc) (hc.1 nUntilEndLoop)
  | 40 => d_gRepeatUntil hc
  | 41 => d_gWhenBlocks hc
  | 42 => d_gJoins hc
  | 43 => d_gCompare hc
  | 44 => d_gParamList hc
  | 45 => d_gTypeBasic
  | 46 => d_gIdentifier
  | 47 => d_gLiteralBasic
  | 48 => d_gAnnotations
  | 49 => hc.2 2 true
  | 50 => d_gOqlExpr hc
  | _+51 => Der.eps _

theorem gold_Δ : ∀ c, Der Γ Δ Z F (Δ c) (QΔ Z c)
  | 0 => d_gPrimaryBody hc
  | 1 => d_gOr hc
  | 2 => d_gMethodCallBody hc
  | _+3 => Der.eps _

end

/-- **every nonterminal and every memoised parser of the Gold grammar satisfies its postcondition, with every fuel** -/
theorem gold_ctx (Z : Pos) : ∀ F, Ctx Γ Δ Z (QΓ Z) (QΔ Z) F :=
  sound (fun _ hc n => gold_Γ hc n) (fun _ hc c => gold_Δ hc c)

end Gold.C08
