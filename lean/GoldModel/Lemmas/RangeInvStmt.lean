import GoldModel.Lemmas.RangeInvDecl
/-!
T5, the Gold grammar, part 4: statements (`parser/body_parser.rs`) except `if`.
-/
namespace Gold.C08
open Gold Gold.Peg Gold.Gram

variable {Z : Pos} {F : Nat}

/-- a node spanning from item `a` to a range `r` that starts no earlier -/
theorem span_real_r {lo m1 hi : Pos} {k i : String} {a : Tree} {r : Range} {kids : List Tree} {attrs : List String}
    (hk : groupKinds.contains k = false) (hs : selKindsR.contains k = false)
    (ha : PItem Z lo m1 a) (hm : m1.le hi = true) (hr : r.s.le r.e = true) (hrl : r.e.line ≤ Z.line) (hab : a.rng.s.le r.s = true)
    (hkids : NodeOKL Z kids) : PReal Z lo hi (mk k i (Range.span a.rng r) kids attrs) := by
  obtain ⟨a1, a2, _, _, _, _⟩ := ha.facts
  refine PReal.mk_plain hk hs a1 ?_ ?_ hrl hkids
  · simp only [Range.span]; exact Pos.le_trans a2 hm
  · simp only [Range.span, Range.ok]; exact Pos.le_trans hab hr

theorem POpt.mono_lo {Q : Post} (hQ : Good Z Q) {lo lo' hi : Pos} {v : Tree} (h : POpt Q lo hi v) (h' : lo'.le lo = true) :
    POpt Q lo' hi v := by
  rcases h with ⟨rfl, h⟩ | h
  · exact Or.inl ⟨rfl, Pos.le_trans h' h⟩
  · exact Or.inr (hQ.mono h h' (Pos.le_refl _))

/-- the range of a block statement: from its keyword `w` to the end token of its loop (or `w` itself) -/
theorem loopSpan {Qe : Post} (hQ : Good Z Qe) {lo m1 m2 hi : Pos} {w l : Tree} (hw : PItem Z lo m1 w) (h12 : m1.le m2 = true)
    (hl : PLoop Z Qe m2 hi l) :
    let r := Range.span w.rng (if (loopEnd l).isSome then (loopEnd l).rng else w.rng)
    lo.le r.s = true ∧ r.s.le hi = true ∧ r.ok = true ∧ r.e.line ≤ Z.line ∧ NodeOKL Z (loopItems l) ∧
      POpt Qe m2 hi (loopEnd l) := by
  obtain ⟨items, e, m, rfl, hli, he⟩ := hl.elim hQ
  simp only [loopItems_val, loopEnd_val]
  obtain ⟨a1, a2, a3, a4, _, _⟩ := hw.facts
  have eL := PListL.le good_real hli
  have eE := POpt.le hQ he
  refine ⟨a1, by simp only [Range.span]; pos_chain, ?_, ?_, hli.nodeOK good_real, POpt.mono_lo hQ he eL⟩
  · rcases he with ⟨rfl, _⟩ | he
    · shape_simp; exact a3
    · have fe := (hQ.item he).facts
      shape_simp [fe.2.2.2.2.2]
      simp only [Range.span, Range.ok]; pos_chain
  · rcases he with ⟨rfl, _⟩ | he
    · shape_simp; exact a4
    · have fe := (hQ.item he).facts
      shape_simp [fe.2.2.2.2.2]
      exact fe.2.2.2.1

theorem PReal.of_range {lo hi : Pos} {k i : String} {r : Range} {kids : List Tree} {attrs : List String}
    (hk : groupKinds.contains k = false) (hs : selKindsR.contains k = false)
    (h : lo.le r.s = true ∧ r.s.le hi = true ∧ r.ok = true ∧ r.e.line ≤ Z.line) (hkids : NodeOKL Z kids) :
    PReal Z lo hi (mk k i r kids attrs) := PReal.mk_plain hk hs h.1 h.2.1 h.2.2.1 h.2.2.2 hkids

theorem condBlock_ok {r : Range} {cond : Option Tree} {stmts : List Tree} (h1 : r.ok = true) (h2 : r.e.line ≤ Z.line)
    (hc : ∀ c, cond = some c → NodeOK Z c) (hs : NodeOKL Z stmts) : NodeOK Z (condBlock r cond stmts) := by
  unfold condBlock
  refine NodeOK.mk_plain (by decide) h1 h2 (NodeOKL.append ?_ hs)
  cases cond with
  | none => exact NodeOKL.nil
  | some c => exact NodeOKL.one (hc c rfl)

section
variable (hc : Ctx Γ Δ Z (QΓ Z) (QΔ Z) F)
include hc

theorem r_loop (n : Nat) (h : QΓ Z n = PLoop Z (PLeaf Z)) : Der Γ Δ Z F (.ref n) (PLoop Z (PLeaf Z)) := h ▸ hc.1 n

theorem d_gMethodNameT : Der Γ Δ Z F gMethodName (PTight Z) := by
  unfold gMethodName
  refine Der.alt (Der.map (Q := PSeqN [PReal Z, PLeaf Z, PTight Z]) ?_ ?_) (r_identifierT hc)
  · der_seq
    · exact r_identifier hc
    · exact Der.tok _
    · exact r_identifierT hc
  · rintro lo hi v ⟨_, rfl, v0, _, m1, rfl, h0, v1, _, m2, rfl, h1, v2, _, m3, rfl, h2, rfl, hend⟩
    shape_simp
    have f0 := h0.facts; have f1 := h1.facts; have f2 := h2.1.facts
    exact ⟨span_real (by decide) (by decide) h0.1 (by pos_chain) h2.1.ok (by pos_chain) (NodeOKL.two h0.ok h2.1.ok),
      Pos.le_trans h2.2 hend⟩

theorem d_gAssignment : Der Γ Δ Z F gAssignment (PReal Z) := by
  unfold gAssignment
  refine Der.map (Q := PSeqN [PReal Z, PLeaf Z, PReal Z]) ?_ ?_
  · der_seq
    · exact r_dotOps hc
    · exact Der.toks _
    · exact r_expr hc
  · rintro lo hi v ⟨_, rfl, v0, _, m1, rfl, h0, v1, _, m2, rfl, h1, v2, _, m3, rfl, h2, rfl, hend⟩
    shape_simp
    exact good_real.mono (binNode_real h0 h1 h2) (Pos.le_refl _) hend

theorem d_gReturn : Der Γ Δ Z F gReturn (PReal Z) := by
  unfold gReturn
  refine Der.map (Q := PSeqN [PLeaf Z, PReal Z]) ?_ ?_
  · der_seq
    · exact Der.tok _
    · exact r_expr hc
  · rintro lo hi v ⟨_, rfl, v0, _, m1, rfl, h0, v1, _, m2, rfl, h1, rfl, hend⟩
    shape_simp
    have f0 := h0.facts; have f1 := h1.facts
    exact span_real (by decide) (by decide) h0.item (by pos_chain) h1.ok (by pos_chain) (NodeOKL.one h1.ok)

theorem d_gControl : Der Γ Δ Z F gControl (PReal Z) :=
  Der.alt (Der.map (Der.toks _) (fun _ _ _ h => terminal_real h.item)) (d_gReturn hc)

theorem d_gLocalVar : Der Γ Δ Z F gLocalVar (PReal Z) := by
  unfold gLocalVar
  refine Der.map (Q := PSeqN [PLeaf Z, PLeafT Z, PLeaf Z, PReal Z, PSeqN [PAny, POpt (PReal Z)]]) ?_ ?_
  · der_seq
    · exact Der.tok _
    · exact Der.tokT _ (by decide)
    · exact Der.tok _
    · exact r_type hc
    · exact Der.dep (Der.anyOpt good_leaf (Der.tok _)) (r_identifier hc)
  · rintro lo hi v ⟨_, rfl, v0, _, m1, rfl, h0, v1, _, m2, rfl, ⟨h1, g1⟩, v2, _, m3, rfl, h2, v3, _, m4, rfl, h3, v4, _, m5, rfl, ⟨_, rfl, w0, _, n1, rfl, h4, w1, _, n2, rfl, h5, rfl, hend2⟩, rfl, hend⟩
    have f0 := h0.facts; have f1 := h1.facts; have f2 := h2.facts; have f3 := h3.facts
    have e4 : m4.le n1 = true := h4
    rcases h5 with ⟨rfl, e5⟩ | h5
    · shape_simp
      exact span_real_sel (a := v0) (b := v3) (n := v1) (by decide) h0.item (by pos_chain) h3.ok (by pos_chain)
        (NodeOKL.one h3.ok) h1.ok (by pos_chain) (by pos_chain)
    · have f5 := h5.facts
      shape_simp [f5.2.2.2.2.2]
      exact span_real_sel (a := v0) (b := w1) (n := v1) (by decide) h0.item (by pos_chain) h5.ok (by pos_chain)
        (NodeOKL.two h3.ok h5.ok) h1.ok (by pos_chain) (by pos_chain)

/-! ### loops -/

theorem d_gForRange : Der Γ Δ Z F gForRange (PReal Z) := Der.binOps (r_expr hc) (hc.1 nForRangeTail)
theorem d_gForRangeTail : Der Γ Δ Z F gForRangeTail (PTail Z) := Der.binTail' (Der.toks _) (r_expr hc) (hc.1 nForRangeTail)
theorem d_gForEachIn : Der Γ Δ Z F gForEachIn (PReal Z) :=
  Der.binOps (Der.alt (r_oqlExpr hc) (r_expr hc)) (hc.1 nForEachInTail)
theorem d_gForEachInTail : Der Γ Δ Z F gForEachInTail (PTail Z) :=
  Der.binTail' (Der.tok _) (Der.alt (r_oqlExpr hc) (r_expr hc)) (hc.1 nForEachInTail)

theorem d_gLoop : Der Γ Δ Z F gLoop (PReal Z) := by
  unfold gLoop
  refine Der.map (Q := PSeqN [PLeaf Z, PLoop Z (PLeaf Z)]) ?_ ?_
  · der_seq
    · exact Der.tok _
    · exact hc.1 nUntilEndLoop
  · rintro lo hi v ⟨_, rfl, v0, _, m1, rfl, h0, v1, _, m2, rfl, h1, rfl, hend⟩
    shape_simp
    obtain ⟨a, b, c, d, e, _⟩ := loopSpan good_leaf h0.item (Pos.le_refl _) h1
    exact good_real.mono (PReal.of_range (by decide) (by decide) ⟨a, b, c, d⟩ e) (Pos.le_refl _) hend

theorem d_gWhile : Der Γ Δ Z F gWhile (PReal Z) := by
  unfold gWhile
  refine Der.map (Q := PSeqN [PLeaf Z, PReal Z, PLoop Z (PLeaf Z)]) ?_ ?_
  · der_seq
    · exact Der.tok _
    · exact r_expr hc
    · exact hc.1 nUntilEndWhile
  · rintro lo hi v ⟨_, rfl, v0, _, m1, rfl, h0, v1, _, m2, rfl, h1, v2, _, m3, rfl, h2, rfl, hend⟩
    shape_simp
    obtain ⟨a, b, c, d, e, _⟩ := loopSpan good_leaf h0.item h1.le h2
    refine good_real.mono (PReal.of_range (by decide) (by decide) ⟨a, b, c, d⟩ (NodeOKL.one ?_)) (Pos.le_refl _) hend
    exact condBlock_ok c d (fun c' h => by cases h; exact h1.ok) e

theorem d_gWhenExpr : Der Γ Δ Z F gWhenExpr (PReal Z) := by
  unfold gWhenExpr
  refine Der.alt ?_ ?_
  · unfold gToOp
    refine Der.map (Q := PSeqN [PReal Z, PLeaf Z, PReal Z]) ?_ ?_
    · der_seq
      · exact r_literalBasic hc
      · exact Der.tok _
      · exact r_literalBasic hc
    · rintro lo hi v ⟨_, rfl, v0, _, m1, rfl, h0, v1, _, m2, rfl, h1, v2, _, m3, rfl, h2, rfl, hend⟩
      shape_simp
      exact good_real.mono (binNode_real h0 h1 h2) (Pos.le_refl _) hend
  · unfold gSeparatedValues
    refine Der.map (Der.check (Der.sepListCtx (Der.alt (r_literalBasic hc) (r_identifier hc)) (hc.1 nValueRec))) ?_
    rintro lo hi v ⟨⟨l, rfl, hl⟩, hne⟩
    cases l with
    | nil => simp [kids_list] at hne
    | cons first rest =>
      simp only [kids_list]
      obtain ⟨m, hf, hr⟩ := hl
      obtain ⟨i1, i2⟩ := lastD_item good_real hr hf.1
      rw [lastD_cons]
      exact span_real (by decide) (by decide) hf.1 (PListL.le good_real hr) i1.2.2.1 i2
        (NodeOKL.cons hf.ok (hr.nodeOK good_real))

theorem d_gWhenBlock : Der Γ Δ Z F gWhenBlock (PReal Z) := by
  unfold gWhenBlock
  refine Der.map (Q := PSeqN [PLeaf Z, PReal Z, PLoop Z (PLeaf Z)]) ?_ ?_
  · der_seq
    · exact Der.tok _
    · exact d_gWhenExpr hc
    · exact hc.1 nUntilEndWhen
  · rintro lo hi v ⟨_, rfl, v0, _, m1, rfl, h0, v1, _, m2, rfl, h1, v2, _, m3, rfl, h2, rfl, hend⟩
    shape_simp
    obtain ⟨a, b, c, d, e, _⟩ := loopSpan good_leaf h0.item h1.le h2
    exact good_real.mono (PReal.of_range (by decide) (by decide) ⟨a, b, c, d⟩ (NodeOKL.cons h1.ok e)) (Pos.le_refl _) hend

theorem d_gWhenBlocks : Der Γ Δ Z F gWhenBlocks (PList (PReal Z)) :=
  Der.repeatList good_real (d_gWhenBlock hc) (hc.1 nWhenBlocks)

theorem d_gFor : Der Γ Δ Z F gFor (PReal Z) := by
  unfold gFor
  refine Der.map (Q := PSeqN [PLeaf Z, PLeaf Z, PLeaf Z, PReal Z, PSeqN [PAny, POpt (POpt (PReal Z))], PLoop Z (PLeaf Z)]) ?_ ?_
  · der_seq
    · exact Der.tok _
    · exact Der.tok _
    · exact Der.tok _
    · exact d_gForRange hc
    · exact Der.dep (Der.anyOpt good_leaf (Der.tok _)) (Der.opt (r_expr hc))
    · exact hc.1 nUntilEndFor
  · rintro lo hi v ⟨_, rfl, v0, _, m1, rfl, h0, v1, _, m2, rfl, h1, v2, _, m3, rfl, h2, v3, _, m4, rfl, h3, v4, _, m5, rfl, ⟨_, rfl, w0, _, n1, rfl, h4, w1, _, n2, rfl, h5, rfl, hend2⟩, v5, _, m6, rfl, h6, rfl, hend⟩
    shape_simp
    have e4 : m4.le n1 = true := h4
    have e5 : n1.le n2 = true := by
      rcases h5 with ⟨_, h⟩ | ⟨_, h⟩ | h
      · exact h
      · exact h
      · exact h.le
    have e1 := h1.le; have e2 := h2.le; have e3 := h3.le
    obtain ⟨a, b, c, d, e, _⟩ := loopSpan good_leaf h0.item (show m1.le m5 = true by pos_chain) h6
    refine good_real.mono (PReal.of_range (by decide) (by decide) ⟨a, b, c, d⟩ (NodeOKL.cons h3.ok (NodeOKL.append ?_ e)))
      (Pos.le_refl _) hend
    rcases h5 with ⟨rfl, _⟩ | ⟨rfl, _⟩ | h
    · exact NodeOKL.nil
    · exact NodeOKL.nil
    · simp only [h.1.isNone]; shape_simp; exact NodeOKL.one h.ok

theorem d_gForEach : Der Γ Δ Z F gForEach (PReal Z) := by
  unfold gForEach
  refine Der.map (Q := PSeqN [PLeaf Z, PReal Z, PAny, PSeqN [PAny, POpt (PReal Z)], PLoop Z (PLeaf Z)]) ?_ ?_
  · der_seq
    · exact Der.tok _
    · exact d_gForEachIn hc
    · exact Der.anyOpt good_leaf (Der.tok _)
    · exact Der.dep (Der.anyOpt good_leaf (Der.tok _)) (r_identifier hc)
    · exact hc.1 nUntilEndFor
  · rintro lo hi v ⟨_, rfl, v0, _, m1, rfl, h0, v1, _, m2, rfl, h1, v2, _, m3, rfl, h2, v3, _, m4, rfl, ⟨_, rfl, w0, _, n1, rfl, h3, w1, _, n2, rfl, h4, rfl, hend2⟩, v4, _, m5, rfl, h5, rfl, hend⟩
    shape_simp
    have e2 : m2.le m3 = true := h2
    have e3 : m3.le n1 = true := h3
    have e4 := POpt.le good_real h4
    have e1 := h1.le
    obtain ⟨a, b, c, d, e, _⟩ := loopSpan good_leaf h0.item (show m1.le m4 = true by pos_chain) h5
    refine good_real.mono (PReal.of_range (by decide) (by decide) ⟨a, b, c, d⟩ (NodeOKL.cons h1.ok (NodeOKL.append ?_ e)))
      (Pos.le_refl _) hend
    rcases h4 with ⟨rfl, _⟩ | h
    · exact NodeOKL.nil
    · simp only [h.1.isNone]; shape_simp; exact NodeOKL.one h.ok

end

end Gold.C08
