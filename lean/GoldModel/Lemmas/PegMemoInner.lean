import GoldModel.Lemmas.PegMemo
/-! T3, inner part: inside one slice the memoising interpreter agrees with the memo-free one -/
namespace Gold.Peg
open Gold

variable {Γ Δ : Nat → G} {A B : Nat → Bool}

theorem nf_of_pair {r : R} {d : List Diag} {p : R × List Diag} (h : p = (r, d)) (hn : p.1.isFuel = false) :
    r.isFuel = false := by subst h; exact hn

set_option maxRecDepth 2000 in
theorem runM_inner (S : Scoped Γ Δ A B) (base : List Tok) : ∀ (f : Nat) (g : G) (ts : List Tok) (s : MSt) (E : List Diag),
    innerOK B g = true → ts <:+ base → Coh Γ Δ base s.memo E → (runP Γ Δ f g ts).1.isFuel = false →
    Agree Γ Δ base E (runP Γ Δ f g ts) (runM Γ Δ f g ts s) := by
  intro f
  induction f with
  | zero => intro g ts s E _ _ _ h; simp [runP, R.isFuel] at h
  | succ f ih =>
    intro g ts s E hg hs hc hP
    -- one sub-run, with its agreement
    have sub : ∀ (g' : G) (ts' : List Tok) (s' : MSt) (E' : List Diag), innerOK B g' = true → ts' <:+ base →
        Coh Γ Δ base s'.memo E' → (runP Γ Δ f g' ts').1.isFuel = false →
        ∃ r dP dM s1, runP Γ Δ f g' ts' = (r, dP) ∧ runM Γ Δ f g' ts' s' = (r, dM, s1) ∧
          Agree Γ Δ base E' (r, dP) (r, dM, s1) := by
      intro g' ts' s' E' h1 h2 h3 h4
      have := ih g' ts' s' E' h1 h2 h3 h4
      rcases hp : runP Γ Δ f g' ts' with ⟨r, dP⟩
      rcases hm : runM Γ Δ f g' ts' s' with ⟨r', dM, s1⟩
      rw [hp, hm] at this
      have e : r' = r := this.1
      subst e
      exact ⟨_, _, _, _, rfl, rfl, this⟩
    cases g with
    | tok k => simp only [runP, runM]; exact Agree.pure hc
    | identVal x => simp only [runP, runM]; exact Agree.pure hc
    | eps v => simp only [runP, runM]; exact Agree.pure hc
    | skipTo ks =>
      simp only [runP, runM]
      rcases takeUntil ks ts with ⟨rest, body, e⟩
      exact Agree.pure hc
    | reslice ks inner => simp [innerOK] at hg
    | ref n =>
      simp only [innerOK] at hg
      simp only [runP, runM] at hP ⊢
      exact ih (Γ n) ts s E (S.innerΓ n hg) hs hc hP
    | seq a b =>
      simp only [innerOK, Bool.and_eq_true] at hg
      simp only [runP] at hP
      have hnfa : (runP Γ Δ f a ts).1.isFuel = false := by
        rcases hq : runP Γ Δ f a ts with ⟨ra, da⟩
        rw [hq] at hP; cases ra <;> simp_all [R.isFuel]
      obtain ⟨ra, da, da', s1, hpa, hma, aga⟩ := sub a ts s E hg.1 hs hc hnfa
      simp only [runP, runM, hpa, hma]
      rw [hpa] at hP
      cases ra with
      | fuel => simp [R.isFuel] at hP
      | err e m => exact aga
      | ok r va =>
        simp only at hP ⊢
        have hr : r <:+ base := by
          have := runP_suffix Γ Δ f a ts; rw [hpa] at this; exact List.IsSuffix.trans this hs
        have hnfb : (runP Γ Δ f b r).1.isFuel = false := by
          rcases hq : runP Γ Δ f b r with ⟨rb, db⟩
          rw [hq] at hP; cases rb <;> simp_all [R.isFuel]
        obtain ⟨rb, db, db', s2, hpb, hmb, agb⟩ := sub b r s1 (E ++ da') hg.2 hr aga.2.1 hnfb
        rw [hpb, hmb]
        cases rb with
        | ok r2 vb => exact Agree.bind aga agb
        | err e m => exact Agree.bind aga agb
        | fuel => exact Agree.bind aga agb
    | dep a test b =>
      simp only [innerOK, Bool.and_eq_true] at hg
      simp only [runP] at hP
      have hnfa : (runP Γ Δ f a ts).1.isFuel = false := by
        rcases hq : runP Γ Δ f a ts with ⟨ra, da⟩
        rw [hq] at hP; cases ra <;> simp_all [R.isFuel]
      obtain ⟨ra, da, da', s1, hpa, hma, aga⟩ := sub a ts s E hg.1 hs hc hnfa
      simp only [runP, runM, hpa, hma]
      rw [hpa] at hP
      cases ra with
      | fuel => simp [R.isFuel] at hP
      | err e m => exact aga
      | ok r va =>
        simp only at hP ⊢
        by_cases ht : test va = true
        · simp only [ht, ↓reduceIte] at hP ⊢
          have hr : r <:+ base := by
            have := runP_suffix Γ Δ f a ts; rw [hpa] at this; exact List.IsSuffix.trans this hs
          have hnfb : (runP Γ Δ f b r).1.isFuel = false := by
            rcases hq : runP Γ Δ f b r with ⟨rb, db⟩
            rw [hq] at hP; cases rb <;> simp_all [R.isFuel]
          obtain ⟨rb, db, db', s2, hpb, hmb, agb⟩ := sub b r s1 (E ++ da') hg.2 hr aga.2.1 hnfb
          rw [hpb, hmb]
          cases rb with
          | ok r2 vb => exact Agree.bind aga agb
          | err e m => exact Agree.bind aga agb
          | fuel => exact Agree.bind aga agb
        · simp only [ht] at hP ⊢
          exact Agree.ret aga
    | alt a b =>
      simp only [innerOK, Bool.and_eq_true] at hg
      simp only [runP] at hP
      have hnfa : (runP Γ Δ f a ts).1.isFuel = false := by
        rcases hq : runP Γ Δ f a ts with ⟨ra, da⟩
        rw [hq] at hP; cases ra <;> simp_all [R.isFuel]
      obtain ⟨ra, da, da', s1, hpa, hma, aga⟩ := sub a ts s E hg.1 hs hc hnfa
      simp only [runP, runM, hpa, hma]
      rw [hpa] at hP
      cases ra with
      | fuel => simp [R.isFuel] at hP
      | ok r va => exact aga
      | err e1 m1 =>
        simp only at hP ⊢
        have hnfb : (runP Γ Δ f b ts).1.isFuel = false := by
          rcases hq : runP Γ Δ f b ts with ⟨rb, db⟩
          rw [hq] at hP; cases rb <;> simp_all [R.isFuel]
        obtain ⟨rb, db, db', s2, hpb, hmb, agb⟩ := sub b ts s1 (E ++ da') hg.2 hs aga.2.1 hnfb
        rw [hpb, hmb]
        cases rb with
        | ok r2 vb => exact Agree.bind aga agb
        | err e m => exact Agree.bind aga agb
        | fuel => exact Agree.bind aga agb
    | opt a =>
      simp only [innerOK] at hg
      simp only [runP] at hP
      have hnfa : (runP Γ Δ f a ts).1.isFuel = false := by
        rcases hq : runP Γ Δ f a ts with ⟨ra, da⟩
        rw [hq] at hP; cases ra <;> simp_all [R.isFuel]
      obtain ⟨ra, da, da', s1, hpa, hma, aga⟩ := sub a ts s E hg hs hc hnfa
      simp only [runP, runM, hpa, hma]
      cases ra with
      | fuel => exact aga
      | ok r va => exact aga
      | err e m => exact Agree.ret aga
    | map fn g' =>
      simp only [innerOK] at hg
      simp only [runP] at hP
      have hnfa : (runP Γ Δ f g' ts).1.isFuel = false := by
        rcases hq : runP Γ Δ f g' ts with ⟨ra, da⟩
        rw [hq] at hP; cases ra <;> simp_all [R.isFuel]
      obtain ⟨ra, da, da', s1, hpa, hma, aga⟩ := sub g' ts s E hg hs hc hnfa
      simp only [runP, runM, hpa, hma]
      cases ra with
      | fuel => exact aga
      | ok r va => exact Agree.ret aga
      | err e m => exact aga
    | check p msg g' =>
      simp only [innerOK] at hg
      simp only [runP] at hP
      have hnfa : (runP Γ Δ f g' ts).1.isFuel = false := by
        rcases hq : runP Γ Δ f g' ts with ⟨ra, da⟩
        rw [hq] at hP; cases ra <;> simp_all [R.isFuel]
      obtain ⟨ra, da, da', s1, hpa, hma, aga⟩ := sub g' ts s E hg hs hc hnfa
      simp only [runP, runM, hpa, hma]
      cases ra with
      | fuel => exact aga
      | ok r va => exact Agree.ret aga
      | err e m => exact aga
    | prepend x g' =>
      simp only [innerOK] at hg
      simp only [runP] at hP
      have hnfa : (runP Γ Δ f g' ts).1.isFuel = false := by
        rcases hq : runP Γ Δ f g' ts with ⟨ra, da⟩
        rw [hq] at hP; cases ra <;> simp_all [R.isFuel]
      obtain ⟨ra, da, da', s1, hpa, hma, aga⟩ := sub g' ts s E hg hs hc hnfa
      simp only [runP, runM, hpa, hma]
      cases ra with
      | fuel => exact aga
      | ok r va => exact aga
      | err e m => exact Agree.ret aga
    | catchErr g' =>
      simp only [innerOK] at hg
      simp only [runP] at hP
      have hnfa : (runP Γ Δ f g' ts).1.isFuel = false := by
        rcases hq : runP Γ Δ f g' ts with ⟨ra, da⟩
        rw [hq] at hP; cases ra <;> simp_all [R.isFuel]
      obtain ⟨ra, da, da', s1, hpa, hma, aga⟩ := sub g' ts s E hg hs hc hnfa
      simp only [runP, runM, hpa, hma]
      cases ra with
      | fuel => exact aga
      | ok r va => exact aga
      | err e m => exact Agree.ret aga
    | emit fn g' =>
      simp only [innerOK] at hg
      simp only [runP] at hP
      have hnfa : (runP Γ Δ f g' ts).1.isFuel = false := by
        rcases hq : runP Γ Δ f g' ts with ⟨ra, da⟩
        rw [hq] at hP; cases ra <;> simp_all [R.isFuel]
      obtain ⟨ra, da, da', s1, hpa, hma, aga⟩ := sub g' ts s E hg hs hc hnfa
      simp only [runP, runM, hpa, hma]
      cases ra with
      | fuel => exact aga
      | ok r va => exact Agree.add _ aga
      | err e m => exact aga
    | recover m g' =>
      simp only [innerOK] at hg
      simp only [runP] at hP
      have hnfa : (runP Γ Δ f g' ts).1.isFuel = false := by
        rcases hq : runP Γ Δ f g' ts with ⟨ra, da⟩
        rw [hq] at hP; cases ra <;> simp_all [R.isFuel]
      obtain ⟨ra, da, da', s1, hpa, hma, aga⟩ := sub g' ts s E hg hs hc hnfa
      simp only [runP, runM, hpa, hma]
      cases ra with
      | fuel => exact aga
      | ok r va => exact aga
      | err e msg => exact Agree.add _ aga
    | ifTok ks a b =>
      simp only [innerOK, Bool.and_eq_true] at hg
      simp only [runP, runM] at hP ⊢
      cases hfr : firstReal ts with
      | none =>
        simp only [hfr] at hP ⊢
        exact ih b ts s E hg.2 hs hc hP
      | some p =>
        obtain ⟨t, rest⟩ := p
        simp only [hfr] at hP ⊢
        by_cases hk : ks.contains t.kind = true
        · simp only [hk, ↓reduceIte] at hP ⊢
          obtain ⟨hsr, _⟩ := firstReal_suffix ts t rest hfr
          have hnfa : (runP Γ Δ f a rest).1.isFuel = false := by
            rcases hq : runP Γ Δ f a rest with ⟨ra, da⟩
            rw [hq] at hP; cases ra <;> simp_all [R.isFuel]
          obtain ⟨ra, da, da', s1, hpa, hma, aga⟩ := sub a rest s E hg.1 (List.IsSuffix.trans hsr hs) hc hnfa
          simp only [hpa, hma]
          cases ra with
          | fuel => exact aga
          | ok r va => exact Agree.ret aga
          | err e m => exact aga
        · simp only [hk] at hP ⊢
          exact ih b ts s E hg.2 hs hc hP
    | ifEof a b =>
      simp only [innerOK, Bool.and_eq_true] at hg
      cases ts with
      | nil =>
        simp only [runP, runM] at hP ⊢
        exact ih a [] s E hg.1 hs hc hP
      | cons x xs =>
        simp only [runP, runM] at hP ⊢
        exact ih b (x :: xs) s E hg.2 hs hc hP
    | memo c errs =>
      simp only [runP] at hP
      simp only [runP, runM]
      cases hl : s.memo.get c ts.length with
      | some v =>
        simp only
        obtain ⟨hvnf, f0, hf0, hd0⟩ := hc c ts.length v hl
        rw [sfx_of_suffix hs] at hf0 hd0
        have heq : runP Γ Δ f0 (Δ c) ts = runP Γ Δ f (Δ c) ts :=
          runP_agree Γ Δ f0 f (Δ c) ts (by rw [hf0]; exact hvnf) hP
        rw [heq] at hf0 hd0
        rcases hq : runP Γ Δ f (Δ c) ts with ⟨rp, dp⟩
        rw [hq] at hf0 hd0
        simp only at hf0 hd0
        subst hf0
        refine ⟨rfl, by simpa using hc, fun _ h => by simp at h, ?_⟩
        intro x hx
        simp only [List.append_nil]
        exact hd0 x hx
      | none =>
        simp only
        have hc' : Coh Γ Δ base ({ s with evals := (c, ts.length) :: s.evals } : MSt).memo E := hc
        obtain ⟨rp, dp, dm, s1, hpp, hmm, ag⟩ := sub (Δ c) ts { s with evals := (c, ts.length) :: s.evals } E (S.innerΔ c) hs hc' hP
        rw [hpp, hmm]
        have hnf : rp.isFuel = false := by rw [hpp] at hP; exact hP
        -- the new entry is coherent
        have key : Coh Γ Δ base ((c, ts.length, rp) :: s1.memo) (E ++ dm) := by
          intro c' l' v' hlk
          rw [Memo.get_cons] at hlk
          split at hlk
          · rename_i hcl
            obtain ⟨rfl, rfl⟩ := hcl
            cases hlk
            refine ⟨hnf, f, ?_, ?_⟩
            · rw [sfx_of_suffix hs, hpp]
            · rw [sfx_of_suffix hs, hpp]; exact ag.2.2.2
          · exact ag.2.1 c' l' v' hlk
        cases rp with
        | fuel => simp [R.isFuel] at hnf
        | ok r v => exact ⟨rfl, key, ag.2.2.1, ag.2.2.2⟩
        | err e msg =>
          simp only
          cases errs with
          | true => exact ⟨rfl, key, ag.2.2.1, ag.2.2.2⟩
          | false => exact ⟨rfl, ag.2.1, ag.2.2.1, ag.2.2.2⟩

end Gold.Peg
