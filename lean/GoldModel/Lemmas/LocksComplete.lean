import GoldModel.Lemmas.Locks
/-!
Helper lemmas for C14, part 2: with the repaired rule every request of the model RETURNS
(no dead-lock, no endless walk, the model's own fuel is never the limit) on every workspace.
-/
set_option linter.unusedSectionVars false
namespace Gold.Locks

variable {α : Type} [DecidableEq α]

/-! ### lookups: fuel `tables.length + 1` is always enough, and on an acyclic graph they return -/

theorem unvisited_le (N : Nat) (vis : List Nat) : unvisited N vis ≤ N := by
  unfold unvisited
  exact Nat.le_trans (List.length_filter_le _ _) (by simp)

theorem lookupLocks_done (ptr : Nat → Option Nat) (has : Nat → Bool) (N : Nat) (ha : Acyclic ptr)
    (hr : ∀ i j, ptr i = some j → j < N) :
    ∀ (k : Nat) (held : List Nat) (i : Nat), unvisited N held < k →
      (∀ h ∈ held, ∃ m, walk ptr m h = some i) →
      ∃ r, lookupLocks ptr has k held i = (.done r, held) := by
  intro k
  induction k with
  | zero => intro held i h; omega
  | succ k ih =>
    intro held i hk hheld
    simp only [lookupLocks]
    split
    · exact ⟨_, rfl⟩
    · cases hp : ptr i with
      | none => exact ⟨_, rfl⟩
      | some j =>
        simp only
        have hnot : held.contains j = false := by
          cases hc : held.contains j with
          | false => rfl
          | true =>
            exfalso
            obtain ⟨m, hm⟩ := hheld j (by simpa using hc)
            have : walk ptr (m + 1) j = some j := by
              rw [walk_add, hm]; simp [walk, hp]
            exact not_acyclic_of_cycle ptr (m + 1) j (by omega) this ha
        rw [hnot]
        have hlt := unvisited_cons_lt N held j (hr i j hp) hnot
        obtain ⟨r, hres⟩ := ih (j :: held) j (by omega) (by
          intro h hh
          rcases List.mem_cons.mp hh with e | e
          · exact ⟨0, by simp [walk, e]⟩
          · obtain ⟨m, hm⟩ := hheld h e
            exact ⟨m + 1, by rw [walk_add, hm]; simp [walk, hp]⟩)
        simp only [Bool.false_eq_true, if_false, hres]
        exact ⟨r, by simp⟩

theorem lookupFrom_done (ptr : Nat → Option Nat) (has : Nat → Bool) (N : Nat) (ha : Acyclic ptr)
    (hr : ∀ i j, ptr i = some j → j < N) (t : Nat) :
    ∃ r, lookupFrom ptr has (N + 1) t = (.done r, []) := by
  obtain ⟨r, h⟩ := lookupLocks_done ptr has N ha hr (N + 1) [t] t
    (by have := unvisited_le N [t]; omega)
    (by intro h hh; simp at hh; exact ⟨0, by simp [walk, hh]⟩)
  exact ⟨r, by simp [lookupFrom, h]⟩

/-! ### well-formed states -/

/-- parent pointers and published tables point into the heap -/
structure WFSt (s : St α) : Prop where
  ptr : ∀ i j, ptrOf s i = some j → j < s.tables.length
  pub : ∀ k t, assocGet s.pub k = some t → t < s.tables.length

def Good (s : St α) : Prop := Acyclic (ptrOf s) ∧ WFSt s

/-- the (partial) request returned, in a good state, without shrinking the heap below `n` -/
def OkRes (n : Nat) (r : Res α) : Prop := Good r.st ∧ r.stuck = none ∧ n ≤ r.st.tables.length

/-- `f` always returns and keeps the state good -/
def Completes (f : St α → Res α) : Prop := ∀ s, Good s → OkRes s.tables.length (f s)

theorem OkRes.ok {s : St α} (h : Good s) {n : Nat} (hn : n ≤ s.tables.length) : OkRes n (Res.ok s) :=
  ⟨h, rfl, hn⟩

theorem OkRes.andThen {n : Nat} {r : Res α} {f : St α → Res α} (hr : OkRes n r) (hf : Completes f) :
    OkRes n (r.andThen f) := by
  obtain ⟨h1, h2, h3⟩ := hr
  unfold Res.andThen
  rw [h2]
  obtain ⟨g1, g2, g3⟩ := hf r.st h1
  exact ⟨g1, g2, Nat.le_trans h3 g3⟩

theorem foldl_andThen_completes {β : Type} (l : List β) (g : St α → β → Res α) (hg : ∀ b, Completes (fun s => g s b)) :
    ∀ (n : Nat) (r : Res α), OkRes n r → OkRes n (l.foldl (fun r b => r.andThen fun s => g s b) r) := by
  induction l with
  | nil => intro n r h; exact h
  | cons b rest ih => intro n r h; exact ih n _ (h.andThen (hg b))

theorem Good.lookup (norm : α → α) {s : St α} (h : Good s) (t : Nat) (name : α) :
    s.lookup norm t name = Res.ok s := by
  obtain ⟨r, hr⟩ := lookupFrom_done (ptrOf s) (s.has norm name) s.tables.length h.1 h.2.ptr t
  simp [St.lookup, hr, Res.ok]

theorem Good.lookupMiss {s : St α} (h : Good s) (t : Nat) : s.lookupMiss t = Res.ok s := by
  obtain ⟨r, hr⟩ := lookupFrom_done (ptrOf s) (fun _ => false) s.tables.length h.1 h.2.ptr t
  simp [St.lookupMiss, hr, Res.ok]

theorem Good.insertSym {s : St α} (h : Good s) (t : Nat) (n : α) :
    Good (s.insertSym t n) ∧ (s.insertSym t n).tables.length = s.tables.length := by
  have hl : (s.insertSym t n).tables.length = s.tables.length := by simp [St.insertSym]
  refine ⟨⟨by rw [ptrOf_insertSym]; exact h.1, ⟨?_, ?_⟩⟩, hl⟩
  · intro i j hij
    rw [ptrOf_insertSym] at hij
    rw [hl]; exact h.2.ptr i j hij
  · intro k t' hk
    rw [hl]; exact h.2.pub k t' hk

theorem Good.link (rule : Rule) (hr : rule.chainCheck = true) {s : St α} (h : Good s) (t p : Nat)
    (hp : p < s.tables.length) :
    Good (s.link rule t p) ∧ (s.link rule t p).tables.length = s.tables.length := by
  have hacy := link_acyclic_step rule hr s t p h.1
  unfold St.link at hacy ⊢
  split
  · exact ⟨h, rfl⟩
  · rename_i hc
    rw [if_neg hc] at hacy
    have hl : (s.setParent t p).tables.length = s.tables.length := by simp [St.setParent]
    refine ⟨⟨hacy, ⟨?_, ?_⟩⟩, hl⟩
    · intro i j hij
      rw [hl]
      by_cases ht : t < s.tables.length
      · rw [ptrOf_setParent s t p ht] at hij
        simp only [updPtr] at hij
        split at hij
        · cases hij; exact hp
        · exact h.2.ptr i j hij
      · rw [ptrOf_setParent_oob s t p ht] at hij
        exact h.2.ptr i j hij
    · intro k t' hk
      rw [hl]; exact h.2.pub k t' hk

/-- publishing a fresh table -/
theorem Good.publish {s : St α} (h : Good s) (cls key : α) (full : List α) :
    Good ({ (s.newTable cls).1 with pub := (key, s.tables.length) :: s.pub, full := full } : St α) := by
  refine ⟨?_, ⟨?_, ?_⟩⟩
  · have : ptrOf ({ (s.newTable cls).1 with pub := (key, s.tables.length) :: s.pub, full := full } : St α)
        = ptrOf (s.newTable cls).1 := rfl
    rw [this, ptrOf_newTable]; exact h.1
  · intro i j hij
    have : ptrOf ({ (s.newTable cls).1 with pub := (key, s.tables.length) :: s.pub, full := full } : St α)
        = ptrOf (s.newTable cls).1 := rfl
    rw [this, ptrOf_newTable] at hij
    have := h.2.ptr i j hij
    simp [St.newTable]; omega
  · intro k t hk
    simp only [assocGet] at hk
    split at hk
    · cases hk; simp [St.newTable]
    · have := h.2.pub k t hk
      simp [St.newTable]; omega

section
variable (rule : Rule) (norm : α → α) (ds : List (ClassDecl α)) (nested : St α → ClassDecl α → Res α)

theorem ensureWith_completes (hn : ∀ cd, Completes (fun s => nested s cd)) (c : α) :
    Completes (fun s => ensureWith norm ds nested s c) := by
  intro s hs
  simp only [ensureWith]
  split
  · exact OkRes.ok hs (Nat.le_refl _)
  · split
    · exact OkRes.ok hs (Nat.le_refl _)
    · exact hn _ s hs

theorem useLookupWith_completes (hn : ∀ cd, Completes (fun s => nested s cd)) (u : α) :
    Completes (fun s => useLookupWith norm ds nested s u) := by
  intro s hs
  simp only [useLookupWith]
  apply OkRes.andThen (ensureWith_completes norm ds nested hn u s hs)
  intro s' hs'
  simp only []
  split
  · exact OkRes.ok hs' (Nat.le_refl _)
  · rw [hs'.lookupMiss]; exact OkRes.ok hs' (Nat.le_refl _)

theorem usesLoop_completes (hn : ∀ cd, Completes (fun s => nested s cd)) (uses : List α) :
    Completes (usesLoop norm ds nested uses) := by
  intro s hs
  exact foldl_andThen_completes uses _ (useLookupWith_completes norm ds nested hn) _ _ (OkRes.ok hs (Nat.le_refl _))

theorem linkParent_completes (hr : rule.chainCheck = true) (hn : ∀ cd, Completes (fun s => nested s cd))
    (t : Nat) (d : ClassDecl α) : Completes (linkParent rule norm ds nested t d) := by
  intro s hs
  simp only [linkParent]
  split
  · exact OkRes.ok hs (Nat.le_refl _)
  · split
    · exact OkRes.ok hs (Nat.le_refl _)
    · split
      · exact OkRes.ok hs (Nat.le_refl _)
      · apply OkRes.andThen (ensureWith_completes norm ds nested hn _ s hs)
        intro s' hs'
        simp only []
        split
        · exact OkRes.ok hs' (Nat.le_refl _)
        · rename_i tp htp
          have hp : tp < s'.tables.length := hs'.2.pub _ _ htp
          obtain ⟨g, hl⟩ := hs'.link rule hr t tp hp
          exact OkRes.ok g (by rw [hl]; exact Nat.le_refl _)

theorem headerStep_completes (hr : rule.chainCheck = true) (hn : ∀ cd, Completes (fun s => nested s cd))
    (t : Nat) (d : ClassDecl α) : Completes (headerStep rule norm ds nested t d) := by
  intro s hs
  simp only [headerStep]
  split
  · apply (linkParent_completes rule norm ds nested hr hn t d s hs).andThen
    intro s' hs'
    obtain ⟨g1, l1⟩ := hs'.insertSym t d.name
    obtain ⟨g2, l2⟩ := g1.insertSym t d.name
    exact OkRes.ok g2 (by rw [l2, l1]; exact Nat.le_refl _)
  · exact OkRes.ok hs (Nat.le_refl _)

theorem declStep_completes (hn : ∀ cd, Completes (fun s => nested s cd)) (t : Nat) (uses : List α) (dc : Decl α) :
    Completes (fun s => declStep norm ds nested t uses s dc) := by
  intro s hs
  simp only [declStep]
  rw [hs.lookup]
  apply OkRes.andThen (OkRes.ok hs (Nat.le_refl _))
  intro s1 hs1
  apply OkRes.andThen
  · cases dc with
    | plain _ => exact OkRes.ok hs1 (Nat.le_refl _)
    | viaUses _ =>
      simp only []
      rw [hs1.lookupMiss]
      exact OkRes.andThen (OkRes.ok hs1 (Nat.le_refl _)) (usesLoop_completes norm ds nested hn uses)
  · intro s2 hs2
    obtain ⟨g, hl⟩ := hs2.insertSym t dc.name
    exact OkRes.ok g (by rw [hl]; exact Nat.le_refl _)

theorem annotateBody_completes (hr : rule.chainCheck = true) (hn : ∀ cd, Completes (fun s => nested s cd))
    (d : ClassDecl α) (defsOnly : Bool) : Completes (fun s => annotateBody rule norm ds nested s d defsOnly) := by
  intro s hs
  simp only [annotateBody]
  have h0 := hs.publish d.name (norm d.name) (if defsOnly then s.full else norm d.name :: s.full)
  have hlen : s.tables.length ≤ ({ (s.newTable d.name).1 with
      pub := (norm d.name, s.tables.length) :: s.pub,
      full := if defsOnly then s.full else norm d.name :: s.full } : St α).tables.length := by
    simp [St.newTable]
  have h1 : OkRes s.tables.length (headerStep rule norm ds nested s.tables.length d
      ({ (s.newTable d.name).1 with
          pub := (norm d.name, s.tables.length) :: s.pub,
          full := if defsOnly then s.full else norm d.name :: s.full } : St α)) := by
    have a := headerStep_completes rule norm ds nested hr hn s.tables.length d _ h0
    exact ⟨a.1, a.2.1, Nat.le_trans hlen a.2.2⟩
  have h2 := foldl_andThen_completes d.decls (fun s' dc => declStep norm ds nested s.tables.length d.uses s' dc)
    (declStep_completes norm ds nested hn _ _) _ _ h1
  split
  · exact h2
  · apply h2.andThen
    intro s' hs'
    simp only []
    rw [hs'.lookupMiss]
    exact OkRes.andThen (OkRes.ok hs' (Nat.le_refl _)) (usesLoop_completes norm ds nested hn d.uses)

theorem annotate_completes (hr : rule.chainCheck = true) :
    ∀ (k : Nat) (d : ClassDecl α) (defsOnly : Bool), Completes (fun s => annotate rule norm ds k s d defsOnly) := by
  intro k
  induction k with
  | zero => intro d b s hs; exact OkRes.ok hs (Nat.le_refl _)
  | succ k ih =>
    intro d b
    exact annotateBody_completes rule norm ds _ hr (fun cd => ih cd true) d b

theorem ensureTable_completes (hr : rule.chainCheck = true) (c : α) :
    Completes (fun s => ensureTable rule norm ds s c) := by
  intro s hs
  simp only [ensureTable]
  split
  · exact OkRes.ok hs (Nat.le_refl _)
  · split
    · exact OkRes.ok hs (Nat.le_refl _)
    · exact annotate_completes rule norm ds hr _ _ _ s hs

theorem analyzeFull_completes (hr : rule.chainCheck = true) (c : α) :
    Completes (fun s => analyzeFull rule norm ds s c) := by
  intro s hs
  simp only [analyzeFull]
  split
  · exact OkRes.ok hs (Nat.le_refl _)
  · split
    · exact OkRes.ok hs (Nat.le_refl _)
    · exact annotate_completes rule norm ds hr _ _ _ s hs

theorem ensureNodes_completes (hr : rule.chainCheck = true) (l : List Nat) :
    Completes (ensureNodes rule norm ds l) := by
  intro s hs
  refine foldl_andThen_completes l (fun s i => match ds[i]? with
    | some cd => ensureTable rule norm ds s cd.name
    | none => .ok s) ?_ _ _ (OkRes.ok hs (Nat.le_refl _))
  intro i s' hs'
  simp only []
  split
  · exact ensureTable_completes rule norm ds hr _ s' hs'
  · exact OkRes.ok hs' (Nat.le_refl _)

end

/-! ### the entity tree of the declared relation is a graph over `treeKeys.length` nodes -/

theorem treeParent_lt (norm : α → α) (ds : List (ClassDecl α)) (n p : Nat)
    (h : treeParent norm ds n = some p) : p < (treeKeys norm ds).length := by
  simp only [treeParent] at h
  split at h
  · cases h
  · split at h
    · cases h
    · simp only [keyIdx] at h
      split at h
      · cases h; assumption
      · cases h

theorem ds_le_treeKeys (norm : α → α) (ds : List (ClassDecl α)) : ds.length ≤ (treeKeys norm ds).length := by
  simp [treeKeys]

theorem treeChildren_lt (norm : α → α) (ds : List (ClassDecl α)) (n c : Nat)
    (h : c ∈ treeChildren norm ds n) : c < (treeKeys norm ds).length := by
  simp only [treeChildren] at h
  split at h
  · cases h
  · have := (List.mem_filter.mp h).1
    have := List.mem_range.mp this
    have := ds_le_treeKeys norm ds
    omega

/-- the downward walk over all children with a visited set ends on every graph over `N` nodes -/
theorem walkDownAll_visited_done (tchildren : Nat → List Nat) (stop : Nat → Bool) (N : Nat)
    (hc : ∀ n c, c ∈ tchildren n → c < N) (start k : Nat) (hk : N < k) :
    ∃ vis, walkDownAll tchildren stop true k start = (.done, [], vis) := by
  unfold walkDownAll
  suffices h : ∀ (l : List Nat), (∀ c ∈ l, c < N) → ∀ (v : List Nat),
      ∃ v', l.foldl (fun (acc : WalkRes × List Nat × List Nat) c =>
          match acc with
          | (WalkRes.done, h, v) => walkDown tchildren stop true k h v c
          | other => other) (WalkRes.done, [], v) = (WalkRes.done, [], v') by
    exact h (tchildren start) (hc start) [start]
  intro l
  induction l with
  | nil => intro _ v; exact ⟨v, rfl⟩
  | cons c rest ihl =>
    intro hl v
    simp only [List.foldl_cons]
    obtain ⟨v1, e1, _⟩ := walkDown_visited_done tchildren stop N hc k [] v c (hl c List.mem_cons_self)
      (by have := unvisited_le N v; omega)
    rw [e1]
    exact ihl (fun c hc => hl c (List.mem_cons_of_mem _ hc)) v1

section
variable (rule : Rule) (norm : α → α) (ds : List (ClassDecl α))

theorem memberWalks_completes (hr : rule.chainCheck = true) (hv : rule.visitedWalks = true) (ci : Nat)
    (stop : Nat → Bool) : Completes (memberWalks rule norm ds ci stop) := by
  intro s hs
  simp only [memberWalks, hv]
  have hN : (treeKeys norm ds).length < walkFuel norm ds := by simp [walkFuel]; omega
  apply OkRes.andThen
  · split
    · exact OkRes.ok hs (Nat.le_refl _)
    · rename_i p hp
      apply OkRes.andThen (ensureNodes_completes rule norm ds hr _ s hs)
      intro s' hs'
      have : walkUp (treeParent norm ds) stop true (walkFuel norm ds) [ci] p = .done :=
        walkUp_visited_done _ stop (treeKeys norm ds).length (treeParent_lt norm ds) _ [ci] p
          (treeParent_lt norm ds ci p hp) (by have := unvisited_le (treeKeys norm ds).length [ci]; omega)
      simp only [this, stuckIf]
      exact OkRes.ok hs' (Nat.le_refl _)
  · intro s1 hs1
    apply OkRes.andThen (ensureNodes_completes rule norm ds hr _ s1 hs1)
    intro s' hs'
    obtain ⟨vis, hvis⟩ := walkDownAll_visited_done (treeChildren norm ds) stop (treeKeys norm ds).length
      (treeChildren_lt norm ds) ci (walkFuel norm ds) hN
    simp only [hvis, stuckIf]
    exact OkRes.ok hs' (Nat.le_refl _)

theorem request_completes (hr : rule.chainCheck = true) (hv : rule.visitedWalks = true) (kd : Kind) (ci : Nat) :
    Completes (fun s => request rule norm ds s kd ci) := by
  intro s hs
  simp only [request]
  split
  · exact OkRes.ok hs (Nat.le_refl _)
  · rename_i d _
    cases kd with
    | diag => exact analyzeFull_completes rule norm ds hr _ s hs
    | defn =>
      apply OkRes.andThen (analyzeFull_completes rule norm ds hr _ s hs)
      intro s1 hs1
      simp only []
      split
      · exact OkRes.ok hs1 (Nat.le_refl _)
      · rw [hs1.lookup]
        apply OkRes.andThen (OkRes.ok hs1 (Nat.le_refl _))
        intro s2 hs2
        simp only []
        split
        · rw [hs2.lookupMiss]; exact OkRes.ok hs2 (Nat.le_refl _)
        · exact OkRes.ok hs2 (Nat.le_refl _)
    | comp =>
      apply OkRes.andThen (analyzeFull_completes rule norm ds hr _ s hs)
      intro s1 hs1
      simp only []
      split
      · exact OkRes.ok hs1 (Nat.le_refl _)
      · rw [hs1.lookupMiss]; exact OkRes.ok hs1 (Nat.le_refl _)
    | hier =>
      apply OkRes.andThen (analyzeFull_completes rule norm ds hr _ s hs)
      intro s1 hs1
      apply OkRes.andThen (ensureNodes_completes rule norm ds hr _ s1 hs1)
      intro s2 hs2
      simp only []
      split
      · exact foldl_andThen_completes d.members (fun s m => memberWalks rule norm ds ci (declaresAt norm ds m) s)
          (fun m => memberWalks_completes rule norm ds hr hv ci _) _ _ (OkRes.ok hs2 (Nat.le_refl _))
      · exact OkRes.ok hs2 (Nat.le_refl _)
    | hierx =>
      apply OkRes.andThen (ensureTable_completes rule norm ds hr _ s hs)
      intro s1 hs1
      simp only []
      split
      · exact memberWalks_completes rule norm ds hr hv ci _ s1 hs1
      · exact OkRes.ok hs1 (Nat.le_refl _)

theorem runRequests_completes (hr : rule.chainCheck = true) (hv : rule.visitedWalks = true)
    (reqs : List (Kind × Nat)) : Completes (runRequests rule norm ds reqs) := by
  intro s hs
  exact foldl_andThen_completes reqs (fun s q => request rule norm ds s q.1 q.2)
    (fun q => request_completes rule norm ds hr hv q.1 q.2) _ _ (OkRes.ok hs (Nat.le_refl _))

end

theorem Good.empty : Good (St.empty : St α) := by
  refine ⟨fun i => ⟨1, by simp [walk, ptrOf, St.empty]⟩, ⟨?_, ?_⟩⟩
  · intro i j h; simp [ptrOf, St.empty] at h
  · intro k t h; simp [St.empty, assocGet] at h

end Gold.Locks
